import PraatModel.Props.C01Full
import PraatModel.Lemmas.Matchers

/-!
# C01 — the WHOLE-FILE statement for the long format: `_parseNormalTextgrid ∘ _tgToLongTextForm = id`

The long-format reader is regular-expression based; Read.lean models each regular expression by a hand-written matcher
(compared with `re` itself on every run); Lemmas/Matchers.lean restates the matchers on `List Char`.

* `parseLong_emit` — the whole-file theorem (any number of tiers, also none), hypotheses: `LongNum` numerals, `NoKwLong`
  (A10: `item [`, `item[`, and the entry separator of the tier's own class), no `\r\n` (labels: any — `parseLong_emit_strip` returns them stripped; `parseLong_emit` is the corollary for strip-invariant ones) — and NO
  hypothesis on tier names beyond the keywords (multi-line names: fix A32; span rows searched behind the name: fix A33).  NOT needed (proved harmless): labels/names that look like rows (`text = "…"`, `xmin = 5`, `name = "x"`,
  `class = "IntervalTier"`), quotes followed by blanks and a line break, the other class's separator.
* (a) `numAfter_written`, `textAfter_dotall`, `textAfter_dotall_tail`, `scanL_barrier`, `scanL_free` — the matchers on written rows;
  (b) `readEntry_iv`, `readEntry_pt`, `readTier_written`; (c) `split_file`; `emitLong_toList`.
* `parseText_long_emit`, `parseText_short_emit` — through the format sniffing of `parseTextgridStr`, with `_removeBlanks`.
* `sep_in_row_iff`, `noKwLong_of_no_bracket` — the keyword hypothesis exactly / a simple sufficient condition;
  `parseLong_keyword_counterexample`, `parseText_short_item_counterexample`, the regressions `parseLong_name_newline_regression`, `parseLong_name_row_regression`,
  `#guard`s — what must be excluded.  The hypotheses are classified (property's own quantifier / enforced by the code /
  known defect with counter-example) in the docstrings of `LongNum`, `parseLong_emit`, `parseText_*_emit`.
-/

namespace C01
open Txt Rd

/-! ## numerals: `[\d.]+(?:[eE][-+]?\d+)?` -/

/-- the characters of a numeral the long-format reader accepts -/
def numChar (c : Char) : Bool := c.isDigit || c == '.' || c == 'e' || c == 'E' || c == '+' || c == '-'

/-- `w` matches `[\d.]+(?:[eE][-+]?\d+)?` entirely: an UNSIGNED numeral (CPython's `repr` / `"%d"` of a finite non-negative
number is one). -/
inductive UNum : List Char → Prop
  | plain (m : List Char) (hm : m ≠ []) (hd : ∀ c ∈ m, isDigitDot c = true) : UNum m
  | exp (m : List Char) (c : Char) (sg ds : List Char) (hm : m ≠ []) (hd : ∀ c ∈ m, isDigitDot c = true)
      (hc : c = 'e' ∨ c = 'E') (hsg : sg = [] ∨ sg = ['-'] ∨ sg = ['+']) (hds : ds ≠ [])
      (hdd : ∀ c ∈ ds, c.isDigit = true) : UNum (m ++ c :: (sg ++ ds))

/-- `w` matches the captured group `-?[\d.]+(?:[eE][-+]?\d+)?` of the long-format reader's numeric rows entirely: an unsigned
numeral or `-` followed by one — CPython's `repr` / `"%d"` of EVERY finite number, negative ones and `-0.0` included
(`-0` is written for −0.0).  Since fix A30 (818cdcd) the sign is inside the captured group on every numeric row (tier and
entry `xmin`, `xmax`, `number`); before it the `-` was matched but not captured on the start rows (`-1.5` was read as `1.5`)
and not matched at all on the `xmax` rows (`ParsingError`).  A `+` sign is matched by no pattern (`ParsingError`; CPython
writes none). -/
inductive LongNum : List Char → Prop
  | pos (w : List Char) (h : UNum w) : LongNum w
  | neg (w : List Char) (h : UNum w) : LongNum ('-' :: w)

theorem digitDot_numChar (c : Char) (h : isDigitDot c = true) : numChar c = true := by
  simp only [isDigitDot, Bool.or_eq_true] at h
  simp only [numChar, Bool.or_eq_true]
  rcases h with h | h
  · simp [h]
  · simp [h]

theorem UNum.chars {w : List Char} (h : UNum w) : ∀ c ∈ w, numChar c = true := by
  cases h with
  | plain m hm hd => intro c hc; exact digitDot_numChar c (hd c hc)
  | exp m c sg ds hm hd hc hsg hds hdd =>
    intro x hx
    simp only [List.mem_append, List.mem_cons] at hx
    rcases hx with hx | rfl | hx | hx
    · exact digitDot_numChar x (hd x hx)
    · rcases hc with rfl | rfl <;> decide
    · rcases hsg with rfl | rfl | rfl
      · simp at hx
      · simp at hx; subst hx; decide
      · simp at hx; subst hx; decide
    · simp [numChar, hdd x hx]

theorem UNum.ne_nil {w : List Char} (h : UNum w) : w ≠ [] := by
  cases h with
  | plain m hm hd => exact hm
  | exp m c sg ds hm hd hc hsg hds hdd => simp

theorem LongNum.chars {w : List Char} (h : LongNum w) : ∀ c ∈ w, numChar c = true := by
  cases h with
  | pos _ h => exact h.chars
  | neg u h =>
    intro c hc
    rcases List.mem_cons.1 hc with rfl | hc
    · decide
    · exact h.chars c hc

theorem LongNum.ne_nil {w : List Char} (h : LongNum w) : w ≠ [] := by
  cases h with
  | pos _ h => exact h.ne_nil
  | neg u h => simp

theorem runLen_append_stop (p : Char → Bool) (m rest : List Char) (hm : ∀ c ∈ m, p c = true)
    (hr : rest.head?.any p = false) : runLen p (m ++ rest) = m.length := by
  induction m with
  | nil =>
    cases rest with
    | nil => rfl
    | cons r rs => simp only [Option.any, List.head?_cons] at hr; simp [runLen_cons, hr]
  | cons c cs ih =>
    simp only [List.cons_append, runLen_cons, hm c (by simp), if_true, List.length_cons]
    rw [ih (fun x hx => hm x (List.mem_cons_of_mem _ hx))]

theorem blankL_sp_nl (rest : List Char) : blankL (' ' :: '\n' :: rest) = true := by
  simp [blankL, show pyIsSpace ' ' = true by decide]

/-- **the numeral matcher on a written numeral** followed by ` \n` captures exactly the numeral -/
theorem numLen_written (w rest : List Char) (h : UNum w) : numLen (w ++ ' ' :: '\n' :: rest) = some w.length := by
  cases h with
  | plain _ hm hd =>
    have hr : runLen isDigitDot (w ++ ' ' :: '\n' :: rest) = w.length :=
      runLen_append_stop _ _ _ hd (by simp [isDigitDot, Option.any])
    have hm0 : (w.length == 0) = false := by
      cases w with
      | nil => exact absurd rfl hm
      | cons a as => simp
    unfold numLen
    simp only [hr, hm0, Bool.false_eq_true, if_false, List.drop_left]
    simp [blankL_sp_nl]
  | exp m c sg ds hm hd hc hsg hds hdd =>
    have hcnd : isDigitDot c = false := by rcases hc with rfl | rfl <;> decide
    have hr : runLen isDigitDot ((m ++ c :: (sg ++ ds)) ++ ' ' :: '\n' :: rest) = m.length := by
      rw [List.append_assoc]
      exact runLen_append_stop _ _ _ hd (by simp [Option.any, hcnd])
    have hm0 : (m.length == 0) = false := by
      cases m with
      | nil => exact absurd rfl hm
      | cons a as => simp
    have hce : (c == 'e' || c == 'E') = true := by rcases hc with rfl | rfl <;> decide
    have hdrop : ((m ++ c :: (sg ++ ds)) ++ ' ' :: '\n' :: rest).drop m.length = c :: (sg ++ (ds ++ ' ' :: '\n' :: rest)) := by
      rw [List.append_assoc, List.drop_left]; simp
    have hdl : runLen Char.isDigit (ds ++ ' ' :: '\n' :: rest) = ds.length :=
      runLen_append_stop _ _ _ hdd (by simp [Option.any])
    have hd0 : (ds.length == 0) = false := by
      cases ds with
      | nil => exact absurd rfl hds
      | cons a as => simp
    obtain ⟨d0, ds', hds'⟩ : ∃ d0 ds', ds = d0 :: ds' := by
      cases ds with
      | nil => exact absurd rfl hds
      | cons a as => exact ⟨a, as, rfl⟩
    have hd0pm : (d0 == '-' || d0 == '+') = false := by
      have := hdd d0 (by rw [hds']; simp)
      cases h1 : (d0 == '-' || d0 == '+') with
      | false => rfl
      | true =>
        simp only [Bool.or_eq_true, beq_iff_eq] at h1
        rcases h1 with rfl | rfl <;> exact absurd this (by decide)
    unfold numLen
    simp only [hr, hm0, Bool.false_eq_true, if_false, hdrop, List.head?_cons, Option.any, hce, if_true, List.drop_succ_cons,
      List.drop_zero]
    rcases hsg with rfl | rfl | rfl
    · have hdx : List.drop (1 + 0 + ds.length) (c :: (ds ++ ' ' :: '\n' :: rest)) = ' ' :: '\n' :: rest := by
        rw [show 1 + 0 + ds.length = ds.length + 1 by omega, List.drop_succ_cons, List.drop_left]
      simp only [List.nil_append, hds', List.cons_append, List.head?_cons, hd0pm, Bool.false_eq_true, if_false,
        List.drop_succ_cons, List.drop_zero]
      rw [← List.cons_append, ← hds', hdl, hd0]
      simp only [Bool.false_eq_true, if_false, hdx, blankL_sp_nl, if_true, List.length_append, List.length_cons,
        Option.some.injEq]
      omega
    · have hdx : List.drop (1 + 1 + ds.length) (c :: '-' :: (ds ++ ' ' :: '\n' :: rest)) = ' ' :: '\n' :: rest := by
        rw [show 1 + 1 + ds.length = ds.length + 1 + 1 by omega, List.drop_succ_cons, List.drop_succ_cons, List.drop_left]
      simp only [List.cons_append, List.nil_append, List.head?_cons, show ('-' == '-' || '-' == '+') = true by decide,
        if_true, List.drop_succ_cons, List.drop_zero]
      rw [hdl, hd0]
      simp only [Bool.false_eq_true, if_false, hdx, blankL_sp_nl, if_true, List.length_append, List.length_cons,
        Option.some.injEq]
      omega
    · have hdx : List.drop (1 + 1 + ds.length) (c :: '+' :: (ds ++ ' ' :: '\n' :: rest)) = ' ' :: '\n' :: rest := by
        rw [show 1 + 1 + ds.length = ds.length + 1 + 1 by omega, List.drop_succ_cons, List.drop_succ_cons, List.drop_left]
      simp only [List.cons_append, List.nil_append, List.head?_cons, show ('+' == '-' || '+' == '+') = true by decide,
        if_true, List.drop_succ_cons, List.drop_zero]
      rw [hdl, hd0]
      simp only [Bool.false_eq_true, if_false, hdx, blankL_sp_nl, if_true, List.length_append, List.length_cons,
        Option.some.injEq]
      omega

theorem headLen_eq (rest : List Char) : headLen (' ' :: '=' :: ' ' :: rest) = some 3 := by
  simp [headLen, spLen]

theorem UNum.head {w : List Char} (h : UNum w) : ∃ a as, w = a :: as ∧ isDigitDot a = true := by
  cases h with
  | plain _ hm hd =>
    cases w with
    | nil => exact absurd rfl hm
    | cons a as => exact ⟨a, as, rfl, hd a (by simp)⟩
  | exp m c sg ds hm hd hc hsg hds hdd =>
    cases m with
    | nil => exact absurd rfl hm
    | cons x xs => exact ⟨x, xs ++ c :: (sg ++ ds), rfl, hd x (by simp)⟩

theorem UNum.head_not_minus {w : List Char} (h : UNum w) (rest : List Char) :
    ((w ++ rest).head? == some '-') = false := by
  obtain ⟨a, as, rfl, ha⟩ := h.head
  simp only [List.cons_append, List.head?_cons]
  cases hx : (some a == some '-') with
  | false => rfl
  | true => simp at hx; subst hx; exact absurd ha (by decide)

/-- the first character of a numeral is a numeral character (so neither a blank nor `=`) -/
theorem LongNum.head {w : List Char} (h : LongNum w) : ∃ a as, w = a :: as ∧ numChar a = true := by
  cases h with
  | pos _ h => obtain ⟨a, as, e, ha⟩ := h.head; exact ⟨a, as, e, digitDot_numChar a ha⟩
  | neg u h => exact ⟨'-', u, rfl, by decide⟩

/-- **(a) `matchNum` on a written row**, after the keyword: ` = W \n…` yields `W` — the sign of a negative numeral included
(pattern `(-?…)`, every numeric row since fix A30) -/
theorem numAfter_written (w rest : List Char) (h : LongNum w) :
    numAfter true (' ' :: '=' :: ' ' :: (w ++ ' ' :: '\n' :: rest)) = some w := by
  unfold numAfter
  rw [headLen_eq]
  simp only [List.drop_succ_cons, List.drop_zero]
  cases h with
  | pos _ h =>
    have hm := h.head_not_minus (' ' :: '\n' :: rest)
    simp only [hm, Bool.and_false, Bool.false_eq_true, if_false, List.drop_zero, numLen_written w rest h, Option.map_some,
      List.take_left, List.take_zero, List.nil_append]
  | neg u h =>
    simp only [List.cons_append, List.head?_cons, Bool.true_and, beq_self_eq_true, if_true, List.drop_succ_cons,
      List.drop_zero, numLen_written u rest h, Option.map_some, List.take_left, List.take_succ_cons, List.take_zero,
      List.nil_append]

/-! ## text rows -/

theorem backL_skip (body : List Char) (m k : Nat) (h : ∀ p, m ≤ p → p < m + k → body[p]? ≠ some '"') :
    backL body (m + k) = backL body m := by
  induction k with
  | zero => rfl
  | succ k ih =>
    have hq := h (m + k) (by omega) (by omega)
    have : (body[m + k]? == some '"') = false := by
      cases hb : (body[m + k]? == some '"') with
      | false => rfl
      | true => exact absurd (by simpa using hb) hq
    rw [← Nat.add_assoc]
    simp only [backL, this, Bool.false_eq_true, if_false]
    exact ih (fun p h1 h2 => h p h1 (by omega))

/-- the quote closing a text, with a quote-free, blank-to-end-of-line tail behind it, is where `"(.*)"\s*$` ends -/
theorem backL_closing (esc tail : List Char) (n : Nat) (hn : esc.length < n) (hn2 : n ≤ esc.length + 1 + tail.length)
    (ht : '"' ∉ tail) (hb : blankL tail = true) : backL (esc ++ '"' :: tail) n = some esc := by
  obtain ⟨k, rfl⟩ : ∃ k, n = (esc.length + 1) + k := ⟨n - (esc.length + 1), by omega⟩
  rw [backL_skip]
  · have hq : (esc ++ '"' :: tail)[esc.length]? = some '"' := by simp
    simp only [backL, hq, beq_self_eq_true, if_true]
    have hd : (esc ++ '"' :: tail).drop (esc.length + 1) = tail := by
      rw [← List.drop_drop, List.drop_left]; rfl
    rw [hd, hb]
    simp
  · intro p h1 h2
    have : (esc ++ '"' :: tail)[p]? = tail[p - (esc.length + 1)]? := by
      rw [List.getElem?_append_right (by omega)]
      have : p - esc.length = (p - (esc.length + 1)) + 1 := by omega
      rw [this, List.getElem?_cons_succ]
    rw [this]
    intro hq
    exact ht (List.mem_of_getElem? hq)

/-- **(a) `matchText` on a written row (DOTALL: `text`, `mark`)**, after the keyword: ` = "esc" \n` followed by blanks up to
the end of the element yields exactly the escaped text — for EVERY label (quotes, newlines, anything) -/
theorem textAfter_dotall (esc ws : List Char) (hws : ∀ c ∈ ws, c = ' ') :
    textAfter true (' ' :: '=' :: ' ' :: '"' :: (esc ++ '"' :: ' ' :: '\n' :: ws)) = some esc := by
  unfold textAfter
  rw [headLen_eq]
  simp only [List.drop_succ_cons, List.drop_zero, List.head?_cons, beq_self_eq_true, if_true]
  apply backL_closing
  · simp only [List.length_append, List.length_cons]; omega
  · simp only [List.length_append, List.length_cons]; omega
  · intro hm
    simp only [List.mem_cons] at hm
    rcases hm with h | h | h
    · exact absurd h (by decide)
    · exact absurd h (by decide)
    · exact absurd (hws _ h) (by decide)
  · exact blankL_sp_nl ws

/-- **(a) `matchText` (DOTALL) on a written row followed by ANY quote-free tail** (the `name` row of a tier header since fix
A32: the rest of the header — `xmin`, `xmax`, size rows — holds no quote): ` = "esc" \n…` yields exactly the escaped text, for
EVERY text — line breaks included -/
theorem textAfter_dotall_tail (esc tail : List Char) (ht : '"' ∉ tail) :
    textAfter true (' ' :: '=' :: ' ' :: '"' :: (esc ++ '"' :: ' ' :: '\n' :: tail)) = some esc := by
  unfold textAfter
  rw [headLen_eq]
  simp only [List.drop_succ_cons, List.drop_zero, List.head?_cons, beq_self_eq_true, if_true]
  apply backL_closing
  · simp only [List.length_append, List.length_cons]; omega
  · simp only [List.length_append, List.length_cons]; omega
  · intro hm
    simp only [List.mem_cons] at hm
    rcases hm with h | h | h
    · exact absurd h (by decide)
    · exact absurd h (by decide)
    · exact ht h
  · exact blankL_sp_nl tail

/-- **(a) `matchText` on a written single-line row (`name`)**: the search stops at the end of the line -/
theorem textAfter_line (esc rest : List Char) (hnl : '\n' ∉ esc) :
    textAfter false (' ' :: '=' :: ' ' :: '"' :: (esc ++ '"' :: ' ' :: '\n' :: rest)) = some esc := by
  unfold textAfter
  rw [headLen_eq]
  simp only [List.drop_succ_cons, List.drop_zero, List.head?_cons, beq_self_eq_true, if_true, Bool.false_eq_true, if_false]
  have hf : findL ['\n'] (esc ++ '"' :: ' ' :: '\n' :: rest) = some (esc.length + 2) := by
    have := findL_sep '\n' (esc ++ ['"', ' ']) rest (by
      simp only [List.mem_append, List.mem_cons, List.not_mem_nil, or_false]
      rintro (h | h | h)
      · exact hnl h
      · exact absurd h (by decide)
      · exact absurd h (by decide))
    simpa using this
  rw [hf]
  have hsplit : esc ++ '"' :: ' ' :: '\n' :: rest = esc ++ '"' :: ([' '] ++ '\n' :: rest) := rfl
  have : backL (esc ++ '"' :: ' ' :: '\n' :: rest) (esc.length + 1 + 1) = some esc := by
    rw [backL_skip _ (esc.length + 1) 1]
    · have hq : (esc ++ '"' :: ' ' :: '\n' :: rest)[esc.length]? = some '"' := by simp
      simp only [backL, hq, beq_self_eq_true, if_true]
      have hd : (esc ++ '"' :: ' ' :: '\n' :: rest).drop (esc.length + 1) = ' ' :: '\n' :: rest := by
        rw [← List.drop_drop, List.drop_left]; rfl
      rw [hd, blankL_sp_nl]
      simp
    · intro p h1 h2
      have hp : p = esc.length + 1 := by omega
      subst hp
      rw [List.getElem?_append_right (by omega)]
      simp
  exact this

/-! ## walking to the first successful occurrence -/

theorem scanL_fail {β : Type} (kw : List Char) (f : List Char → Option β) (c : Char) (cs : List Char)
    (h : kw.isPrefixOf (c :: cs) = false) : scanL kw f (c :: cs) = scanL kw f cs := by
  simp [scanL, h]

theorem scanL_skip {β : Type} (k0 : Char) (ks pre rest : List Char) (f : List Char → Option β) (h : k0 ∉ pre) :
    scanL (k0 :: ks) f (pre ++ rest) = scanL (k0 :: ks) f rest := by
  induction pre with
  | nil => rfl
  | cons c cs ih =>
    have hc : (k0 == c) = false := by simpa using fun e : k0 = c => h (by simp [e])
    rw [List.cons_append, scanL_fail _ _ _ _ (by simp [List.isPrefixOf, hc])]
    exact ih (fun e => h (List.mem_cons_of_mem _ e))

theorem scanL_hit {β : Type} (kw tail : List Char) (f : List Char → Option β) (x : β) (hne : kw ≠ [])
    (h : f tail = some x) : scanL kw f (kw ++ tail) = some x := by
  cases hk : kw ++ tail with
  | nil => simp at hk; exact absurd hk.1 hne
  | cons c cs =>
    have hp : kw.isPrefixOf (c :: cs) = true := by rw [← hk]; exact List.isPrefixOf_iff_prefix.2 (List.prefix_append _ _)
    have hd : (c :: cs).drop kw.length = tail := by rw [← hk]; exact List.drop_left
    simp only [scanL, hp, if_true, hd, h]

/-! ## the barrier: a numeral followed (on its line) by a quote does not end the line -/

/-- a quote comes before the next newline -/
def Barrier (l : List Char) : Prop := ∃ v rest, l = v ++ '"' :: rest ∧ '\n' ∉ v

theorem Barrier.blank {l : List Char} (h : Barrier l) : blankL l = false := by
  obtain ⟨v, rest, rfl, hv⟩ := h
  induction v with
  | nil => simp [blankL, show pyIsSpace '"' = false by decide]
  | cons c cs ih =>
    have hc : (c == '\n') = false := by simpa using fun e : c = '\n' => hv (by simp [e])
    simp only [List.cons_append, blankL, hc, Bool.false_eq_true, if_false]
    split
    · exact ih (fun e => hv (List.mem_cons_of_mem _ e))
    · rfl

theorem Barrier.drop_one {l : List Char} (h : Barrier l) (P : Char → Bool) (hP : P '"' = false)
    (hl : l.head?.any P = true) : Barrier (l.drop 1) := by
  obtain ⟨v, rest, rfl, hv⟩ := h
  cases v with
  | nil => simp [Option.any, hP] at hl
  | cons c cs => exact ⟨cs, rest, by simp, fun e => hv (List.mem_cons_of_mem _ e)⟩

theorem Barrier.drop_run {l : List Char} (h : Barrier l) (p : Char → Bool) (hp : p '"' = false) :
    Barrier (l.drop (runLen p l)) := by
  obtain ⟨v, rest, rfl, hv⟩ := h
  induction v with
  | nil => simp only [List.nil_append, runLen_cons, hp, Bool.false_eq_true, if_false, List.drop_zero]; exact ⟨[], rest, rfl, by simp⟩
  | cons c cs ih =>
    simp only [List.cons_append, runLen_cons]
    split
    · simp only [List.drop_succ_cons]; exact ih (fun e => hv (List.mem_cons_of_mem _ e))
    · exact ⟨c :: cs, rest, by simp, hv⟩

theorem Barrier.drop_if {l : List Char} (h : Barrier l) (P : Char → Bool) (hP : P '"' = false) :
    Barrier (l.drop (if l.head?.any P = true then 1 else 0)) := by
  split
  · rename_i hl; exact h.drop_one P hP hl
  · exact h

theorem Barrier.numLen {l : List Char} (h : Barrier l) : numLen l = none := by
  unfold Rd.numLen
  simp only []
  by_cases hn : (runLen isDigitDot l == 0) = true
  · rw [if_pos hn]
  · rw [if_neg hn]
    have h2 := h.drop_run isDigitDot (by decide)
    generalize l.drop (runLen isDigitDot l) = l2 at h2
    have hb2 := h2.blank
    by_cases he : l2.head?.any (fun c => c == 'e' || c == 'E') = true
    · rw [if_pos he]
      have h3 := h2.drop_one _ (by decide) he
      have h4 := h3.drop_if (fun c => c == '-' || c == '+') (by decide)
      rw [List.drop_drop] at h4
      generalize (if (l2.drop 1).head?.any (fun c => c == '-' || c == '+') = true then 1 else 0) = sn at h4
      have h5 := h4.drop_run Char.isDigit (by decide)
      rw [List.drop_drop] at h5
      by_cases hd : (runLen Char.isDigit (l2.drop (1 + sn)) == 0) = true
      · rw [if_pos hd]; simp only [hb2]; rfl
      · rw [if_neg hd]; simp only [h5.blank, hb2]; rfl
    · rw [if_neg he]; simp only [hb2]; rfl

theorem Barrier.headLen {l : List Char} (h : Barrier l) (n : Nat) (hn : headLen l = some n) : Barrier (l.drop n) := by
  unfold Rd.headLen at hn
  split at hn
  · rename_i he
    cases hn
    have h1 : Barrier (l.drop (spLen l)) := by
      have := h.drop_if (fun c => c == ' ') (by decide)
      unfold spLen
      have e : (l.head? == some ' ') = l.head?.any (fun c => c == ' ') := by cases l.head? <;> simp [Option.any]
      rw [e]; exact this
    have h2 : Barrier ((l.drop (spLen l)).drop 1) := h1.drop_one (fun c => c == '=') (by decide) (by
      cases hh : (l.drop (spLen l)).head? with
      | none => rw [hh] at he; simp at he
      | some c => rw [hh] at he; simp at he; simp [Option.any, he])
    rw [List.drop_drop] at h2
    have h3 : Barrier ((l.drop (spLen l + 1)).drop (spLen (l.drop (spLen l + 1)))) := by
      have := h2.drop_if (fun c => c == ' ') (by decide)
      unfold spLen
      have e : ((l.drop (spLen l + 1)).head? == some ' ') = (l.drop (spLen l + 1)).head?.any (fun c => c == ' ') := by
        cases (l.drop (spLen l + 1)).head? <;> simp [Option.any]
      unfold spLen at e
      rw [e]; exact this
    rw [List.drop_drop] at h3
    exact h3
  · cases hn

theorem Barrier.numAfter {l : List Char} (h : Barrier l) (neg : Bool) : numAfter neg l = none := by
  unfold Rd.numAfter
  cases hh : Rd.headLen l with
  | none => rfl
  | some n =>
    have h1 := h.headLen n hh
    simp only []
    have h2 : Barrier ((l.drop n).drop (if (neg && (l.drop n).head? == some '-') = true then 1 else 0)) := by
      split
      · rename_i hc
        simp only [Bool.and_eq_true] at hc
        exact h1.drop_one (fun c => c == '-') (by decide) (by
          cases hx : (l.drop n).head? with
          | none => rw [hx] at hc; simp at hc
          | some c => rw [hx] at hc; simp at hc; simp [Option.any, hc.2])
      · exact h1
    rw [h2.numLen]
    rfl

/-- occurrences of the keyword before a quote on the same line never match the numeral pattern `kw ?= ?…\s*$` -/
theorem scanL_barrier (k0 : Char) (ks : List Char) (neg : Bool) (u rest : List Char) (hk : '"' ∉ k0 :: ks) (hu : '\n' ∉ u) :
    scanL (k0 :: ks) (numAfter neg) (u ++ '"' :: rest) = scanL (k0 :: ks) (numAfter neg) rest := by
  induction u with
  | nil =>
    have : (k0 == '"') = false := by simpa using fun e : k0 = '"' => hk (by simp [e])
    rw [List.nil_append, scanL_fail _ _ _ _ (by simp [List.isPrefixOf, this])]
  | cons c cs ih =>
    have ih' := ih (fun e => hu (List.mem_cons_of_mem _ e))
    rw [List.cons_append]
    cases hp : (k0 :: ks).isPrefixOf (c :: (cs ++ '"' :: rest)) with
    | false => rw [scanL_fail _ _ _ _ hp]; exact ih'
    | true =>
      have hp' : (k0 :: ks).isPrefixOf (c :: cs) = true := by
        rw [← isPrefixOf_append_sep '"' (k0 :: ks) (c :: cs) rest hk]; exact hp
      have hle := (List.isPrefixOf_iff_prefix.1 hp').length_le
      have hb : Barrier ((c :: (cs ++ '"' :: rest)).drop (k0 :: ks).length) := by
        refine ⟨(c :: cs).drop (k0 :: ks).length, rest, ?_, fun e => hu (List.mem_of_mem_drop e)⟩
        rw [← List.cons_append, List.drop_append_of_le_length hle]
      simp only [scanL, hp, if_true, hb.numAfter neg]
      exact ih'

/-! ## the long-format text at list level -/

variable {α : Type}

def tabL : List Char := "    ".toList
def tab2 : List Char := tabL ++ tabL
def tab3 : List Char := tabL ++ (tabL ++ tabL)
def eqL : List Char := [' ', '=', ' ']
def itemA : List Char := "item [".toList
def ivA : List Char := "intervals [".toList
def ptA : List Char := "points [".toList

/-- `k]:` (1-based) -/
def idxL (k : Nat) : List Char := (toString (k + 1)).toList ++ [']', ':']
/-- `ind key = W ` -/
def numRowL (ind key : List Char) (w : String) : List Char := ind ++ (key ++ (eqL ++ (w.toList ++ [' '])))
/-- `ind key = "esc" ` -/
def textRowL (ind key : List Char) (s : String) : List Char := ind ++ (key ++ (eqL ++ (row s ++ [' '])))

def ivBody (num : α → String) (j : Nat) (e : Iv α) : List Char :=
  joinNl [idxL j, numRowL tab3 "xmin".toList (num e.s), numRowL tab3 "xmax".toList (num e.e), textRowL tab3 "text".toList e.l]
def ptBody (num : α → String) (j : Nat) (p : Pt α) : List Char :=
  joinNl [idxL j, numRowL tab3 "number".toList (num p.t), textRowL tab3 "mark".toList p.l]

def ivItems (num : α → String) : Nat → List (Iv α) → List Char
  | _, [] => []
  | j, e :: es => tab2 ++ (ivA ++ (ivBody num j e ++ ivItems num (j + 1) es))
def ptItems (num : α → String) : Nat → List (Pt α) → List Char
  | _, [] => []
  | j, p :: ps => tab2 ++ (ptA ++ (ptBody num j p ++ ptItems num (j + 1) ps))

def classRow (cls : List Char) : List Char := tab2 ++ ("class = \"".toList ++ (cls ++ ['"', ' ']))
def sizeRow (cnt : List Char) (n : Nat) : List Char := tab2 ++ (cnt ++ (": size = ".toList ++ ((toString n).toList ++ [' '])))

def tierHead (num : α → String) (k : Nat) (cls : List Char) (name : String) (lo hi : α) (cnt : List Char) (n : Nat) :
    List Char :=
  joinNl [idxL k, classRow cls, textRowL tab2 "name".toList name, numRowL tab2 "xmin".toList (num lo),
    numRowL tab2 "xmax".toList (num hi), sizeRow cnt n]

def tierBodyL (num : α → String) (k : Nat) : AnyTier α → List Char
  | .I t => tierHead num k "IntervalTier".toList t.name t.lo t.hi "intervals".toList t.es.length ++ ivItems num 0 t.es
  | .P t => tierHead num k "TextTier".toList t.name t.lo t.hi "points".toList t.ps.length ++ ptItems num 0 t.ps

def tiersL (num : α → String) : Nat → List (AnyTier α) → List Char
  | _, [] => []
  | k, t :: ts => tabL ++ (itemA ++ (tierBodyL num k t ++ tiersL num (k + 1) ts))

def longHdrSegs (num : α → String) (lo hi : α) (n : Nat) : List (List Char) :=
  ["File type = \"ooTextFile\"".toList, "Object class = \"TextGrid\"".toList, [],
   "xmin".toList ++ (eqL ++ ((num lo).toList ++ [' '])), "xmax".toList ++ (eqL ++ ((num hi).toList ++ [' '])),
   "tiers? <exists> ".toList, "size = ".toList ++ ((toString n).toList ++ [' '])]

/-- the whole long-format file -/
def fileLong (num : α → String) (g : Tg α) (lo hi : α) : List Char :=
  joinNl (longHdrSegs num lo hi g.tiers.length) ++ (itemA ++ ("]: \n".toList ++ tiersL num 0 g.tiers))

def catIdx {β : Type} (g : Nat → β → List Char) : Nat → List β → List Char
  | _, [] => []
  | k, x :: xs => g k x ++ catIdx g (k + 1) xs

theorem foldl_zipIdx_toList {β : Type} (f : String → β × Nat → String) (g : Nat → β → List Char)
    (hfg : ∀ o x i, (f o (x, i)).toList = o.toList ++ g i x) (l : List β) (k : Nat) (o : String) :
    ((l.zipIdx k).foldl f o).toList = o.toList ++ catIdx g k l := by
  induction l generalizing k o with
  | nil => simp [catIdx]
  | cons x xs ih => simp only [List.zipIdx_cons, List.foldl_cons, ih, hfg, catIdx, List.append_assoc]

theorem catIdx_iv (num : α → String) (k : Nat) (es : List (Iv α)) :
    catIdx (fun j e => tab2 ++ (ivA ++ ivBody num j e)) k es = ivItems num k es := by
  induction es generalizing k with
  | nil => rfl
  | cons e es ih => simp only [catIdx, ivItems, ih, List.append_assoc]

theorem catIdx_pt (num : α → String) (k : Nat) (ps : List (Pt α)) :
    catIdx (fun j p => tab2 ++ (ptA ++ ptBody num j p)) k ps = ptItems num k ps := by
  induction ps generalizing k with
  | nil => rfl
  | cons p ps ih => simp only [catIdx, ptItems, ih, List.append_assoc]

theorem catIdx_tiers (num : α → String) (k : Nat) (ts : List (AnyTier α)) :
    catIdx (fun k t => tabL ++ (itemA ++ tierBodyL num k t)) k ts = tiersL num k ts := by
  induction ts generalizing k with
  | nil => rfl
  | cons t ts ih => simp only [catIdx, tiersL, ih, List.append_assoc]

theorem llTab : "    ".toList = tabL := rfl
theorem llItem : "item [".toList = itemA := rfl
theorem llIdx : "]:\n".toList = [']', ':', '\n'] := by rfl
theorem llClass : "class = \"".toList = "class = \"".toList := rfl
theorem llQsn : "\" \n".toList = ['"', ' ', '\n'] := by rfl
theorem llName : "name = \"".toList = "name".toList ++ (eqL ++ ['"']) := by rfl
theorem llXmin : "xmin = ".toList = "xmin".toList ++ eqL := by rfl
theorem llXmax : "xmax = ".toList = "xmax".toList ++ eqL := by rfl
theorem llSn : " \n".toList = [' ', '\n'] := by rfl
theorem llIvSize : "intervals: size = ".toList = "intervals".toList ++ ": size = ".toList := by rfl
theorem llPtSize : "points: size = ".toList = "points".toList ++ ": size = ".toList := by rfl
theorem llIv : "intervals [".toList = ivA := rfl
theorem llPt : "points [".toList = ptA := rfl
theorem llText : "text = \"".toList = "text".toList ++ (eqL ++ ['"']) := by rfl
theorem llMark : "mark = \"".toList = "mark".toList ++ (eqL ++ ['"']) := by rfl
theorem llNumber : "number = ".toList = "number".toList ++ eqL := by rfl
theorem llHdr : "File type = \"ooTextFile\"\nObject class = \"TextGrid\"\n\n".toList =
    "File type = \"ooTextFile\"".toList ++ '\n' :: ("Object class = \"TextGrid\"".toList ++ ['\n', '\n']) := by rfl
theorem llTiers : "tiers? <exists> \n".toList = "tiers? <exists> ".toList ++ ['\n'] := by rfl
theorem llSize : "size = ".toList = "size = ".toList := rfl
theorem llItem0 : "item []: \n".toList = itemA ++ "]: \n".toList := by rfl

theorem ivStepL (num : α → String) (o : String) (e : Iv α) (j : Nat) :
    (o ++ "    " ++ "    " ++ "intervals [" ++ toString (j + 1) ++ "]:\n" ++ "    " ++ "    " ++ "    " ++ "xmin = " ++ num e.s ++ " \n" ++
      "    " ++ "    " ++ "    " ++ "xmax = " ++ num e.e ++ " \n" ++ "    " ++ "    " ++ "    " ++ "text = \"" ++ escapeQuotes e.l ++ "\" \n").toList =
      o.toList ++ (tab2 ++ (ivA ++ ivBody num j e)) := by
  simp only [String.toList_append, escapeQuotes_toList, llTab, llIv, llIdx, llXmin, llXmax, llSn, llText, llQsn, ivBody, joinNl,
    idxL, numRowL, textRowL, row, q, tab2, tab3, List.append_assoc, List.cons_append, List.nil_append]

theorem ptStepL (num : α → String) (o : String) (p : Pt α) (j : Nat) :
    (o ++ "    " ++ "    " ++ "points [" ++ toString (j + 1) ++ "]:\n" ++ "    " ++ "    " ++ "    " ++ "number = " ++ num p.t ++ " \n" ++
      "    " ++ "    " ++ "    " ++ "mark = \"" ++ escapeQuotes p.l ++ "\" \n").toList =
      o.toList ++ (tab2 ++ (ptA ++ ptBody num j p)) := by
  simp only [String.toList_append, escapeQuotes_toList, llTab, llPt, llIdx, llNumber, llSn, llMark, llQsn, ptBody, joinNl,
    idxL, numRowL, textRowL, row, q, tab2, tab3, List.append_assoc, List.cons_append, List.nil_append]

theorem tierStepI (num : α → String) (o : String) (t : ITier α) (i : Nat) (inner : String) :
    (o ++ ("    " ++ "item [" ++ toString (i + 1) ++ "]:\n" ++ "    " ++ "    " ++ "class = \"" ++ "IntervalTier" ++ "\" \n" ++
      "    " ++ "    " ++ "name = \"" ++ escapeQuotes t.name ++ "\" \n" ++ "    " ++ "    " ++ "xmin = " ++ num t.lo ++ " \n" ++
      "    " ++ "    " ++ "xmax = " ++ num t.hi ++ " \n") ++ "    " ++ "    " ++ "intervals: size = " ++ toString t.es.length ++ " \n" ++
      inner).toList =
    o.toList ++ (tabL ++ (itemA ++ (tierHead num i "IntervalTier".toList t.name t.lo t.hi "intervals".toList t.es.length ++
      inner.toList))) := by
  simp only [String.toList_append, escapeQuotes_toList, llTab, llItem, llIdx, llQsn, llName, llXmin, llXmax, llSn, llIvSize,
    tierHead, joinNl, idxL, classRow, sizeRow, numRowL, textRowL, row, q, tab2, List.append_assoc, List.cons_append,
    List.nil_append]

theorem tierStepP (num : α → String) (o : String) (t : PTier α) (i : Nat) (inner : String) :
    (o ++ ("    " ++ "item [" ++ toString (i + 1) ++ "]:\n" ++ "    " ++ "    " ++ "class = \"" ++ "TextTier" ++ "\" \n" ++
      "    " ++ "    " ++ "name = \"" ++ escapeQuotes t.name ++ "\" \n" ++ "    " ++ "    " ++ "xmin = " ++ num t.lo ++ " \n" ++
      "    " ++ "    " ++ "xmax = " ++ num t.hi ++ " \n") ++ "    " ++ "    " ++ "points: size = " ++ toString t.ps.length ++ " \n" ++
      inner).toList =
    o.toList ++ (tabL ++ (itemA ++ (tierHead num i "TextTier".toList t.name t.lo t.hi "points".toList t.ps.length ++
      inner.toList))) := by
  simp only [String.toList_append, escapeQuotes_toList, llTab, llItem, llIdx, llQsn, llName, llXmin, llXmax, llSn, llPtSize,
    tierHead, joinNl, idxL, classRow, sizeRow, numRowL, textRowL, row, q, tab2, List.append_assoc, List.cons_append,
    List.nil_append]

/-- **the long-format emitter at list level** -/
theorem emitLong_toList (num : α → String) (g : Tg α) (lo hi : α) :
    (tgToLong num g lo hi).toList = fileLong num g lo hi := by
  unfold tgToLong
  simp only []
  refine Eq.trans (foldl_zipIdx_toList _ (fun k t => tabL ++ (itemA ++ tierBodyL num k t)) ?_ _ _ _) ?_
  · intro o t i
    cases t with
    | I t =>
      refine Eq.trans (tierStepI num o t i _) (congrArg (fun z => o.toList ++ (tabL ++ (itemA ++
        (tierHead num i "IntervalTier".toList t.name t.lo t.hi "intervals".toList t.es.length ++ z)))) ?_)
      refine Eq.trans (foldl_zipIdx_toList _ (fun j e => tab2 ++ (ivA ++ ivBody num j e)) ?_ _ _ _) ?_
      · intro o x j; exact ivStepL num o x j
      · rw [catIdx_iv]; rfl
    | P t =>
      refine Eq.trans (tierStepP num o t i _) (congrArg (fun z => o.toList ++ (tabL ++ (itemA ++
        (tierHead num i "TextTier".toList t.name t.lo t.hi "points".toList t.ps.length ++ z)))) ?_)
      refine Eq.trans (foldl_zipIdx_toList _ (fun j e => tab2 ++ (ptA ++ ptBody num j e)) ?_ _ _ _) ?_
      · intro o x j; exact ptStepL num o x j
      · rw [catIdx_pt]; rfl
  · rw [catIdx_tiers]
    simp only [String.toList_append, llHdr, llXmin, llXmax, llSn, llTiers, llItem0, fileLong, longHdrSegs, joinNl,
      List.append_assoc, List.cons_append, List.nil_append]

/-! ## `re.split(kw ?\[, text)` on a text whose pieces do not contain the separators -/

theorem splitL_nil (a b cur : List Char) : splitL a b 0 [] cur = [cur.reverse] := rfl

theorem splitL_hit (a b w cur : List Char) (hne : a ≠ []) :
    splitL a b 0 (a ++ w) cur = cur.reverse :: splitL a b 0 w [] := by
  cases hk : a ++ w with
  | nil => simp at hk; exact absurd hk.1 hne
  | cons c cs =>
    have hp : a.isPrefixOf (c :: cs) = true := by rw [← hk]; exact List.isPrefixOf_iff_prefix.2 (List.prefix_append _ _)
    simp only [splitL, hp, if_true]
    rw [splitL_skip]
    congr 2
    have : (c :: cs).drop a.length = w := by rw [← hk]; exact List.drop_left
    cases a with
    | nil => exact absurd rfl hne
    | cons x xs => simpa using this

/-- no separator starts inside `P` when `P` is followed by `w` -/
def NoHit (a b P w : List Char) : Prop :=
  ∀ u v, P = u ++ v → v ≠ [] → a.isPrefixOf (v ++ w) = false ∧ b.isPrefixOf (v ++ w) = false

theorem splitL_noHit (a b P w cur : List Char) (h : NoHit a b P w) :
    splitL a b 0 (P ++ w) cur = splitL a b 0 w (P.reverse ++ cur) := by
  induction P generalizing cur with
  | nil => rfl
  | cons c cs ih =>
    have h0 := h [] (c :: cs) rfl (by simp)
    simp only [List.cons_append] at h0
    simp only [List.cons_append, splitL, h0.1, h0.2, Bool.false_eq_true, if_false]
    rw [ih (c :: cur) (fun u v e hv => h (c :: u) v (by simp [e]) hv)]
    simp

theorem prefix_append_cases (pt v w : List Char) (h : pt <+: v ++ w) :
    pt <+: v ∨ ∃ y, y ≠ [] ∧ pt = v ++ y ∧ y <+: w := by
  induction v generalizing pt with
  | nil =>
    cases pt with
    | nil => exact Or.inl (List.prefix_refl _)
    | cons p ps => exact Or.inr ⟨p :: ps, by simp, rfl, h⟩
  | cons x xs ih =>
    cases pt with
    | nil => exact Or.inl (List.nil_prefix)
    | cons p ps =>
      simp only [List.cons_append, List.cons_prefix_cons] at h
      rcases ih ps h.2 with h1 | ⟨y, hy, he, hw⟩
      · exact Or.inl (by rw [h.1]; exact List.cons_prefix_cons.2 ⟨rfl, h1⟩)
      · exact Or.inr ⟨y, hy, by rw [h.1, he]; rfl, hw⟩

/-- a separator whose first character occurs nowhere else in it cannot straddle the end of a piece that is followed by
a separator (or by the end of the text) -/
theorem noHit_one (c0 : Char) (pt' P w : List Char) (hc : c0 ∉ pt') (hw : w = [] ∨ w.head? = some c0)
    (hP : ¬ (c0 :: pt') <:+: P) : ∀ u v, P = u ++ v → v ≠ [] → (c0 :: pt').isPrefixOf (v ++ w) = false := by
  intro u v e hv
  cases hp : (c0 :: pt').isPrefixOf (v ++ w) with
  | false => rfl
  | true =>
    exfalso
    rcases prefix_append_cases _ v w (List.isPrefixOf_iff_prefix.1 hp) with h1 | ⟨y, hy, he, hyw⟩
    · obtain ⟨z, hz⟩ := h1
      exact hP ⟨u, z, by rw [e, ← hz]; simp⟩
    · cases v with
      | nil => exact hv rfl
      | cons x xs =>
        simp only [List.cons_append, List.cons.injEq] at he
        have hy' : y.head? = some c0 := by
          rcases hw with rfl | hw
          · exact absurd (List.prefix_nil.1 hyw) hy
          · cases y with
            | nil => exact absurd rfl hy
            | cons y0 ys =>
              cases w with
              | nil => simp at hw
              | cons w0 ws =>
                simp only [List.head?_cons, Option.some.injEq] at hw
                have := (List.cons_prefix_cons.1 hyw).1
                simp [this, hw]
        cases y with
        | nil => exact absurd rfl hy
        | cons y0 ys =>
          simp only [List.head?_cons, Option.some.injEq] at hy'
          apply hc
          rw [he.2, hy']
          simp

theorem noHit_of_not_infix (c0 : Char) (a' b' P w : List Char) (ha : c0 ∉ a') (hb : c0 ∉ b')
    (hw : w = [] ∨ w.head? = some c0) (hPa : ¬ (c0 :: a') <:+: P) (hPb : ¬ (c0 :: b') <:+: P) :
    NoHit (c0 :: a') (c0 :: b') P w :=
  fun u v e hv => ⟨noHit_one c0 a' P w ha hw hPa u v e hv, noHit_one c0 b' P w hb hw hPb u v e hv⟩

/-- a pattern without newline that occurs in a text made of lines occurs in one of the lines (or in the unfinished
last line) -/
theorem infix_lines (pat : List Char) (segs : List (List Char)) (tail : List Char) (hn : '\n' ∉ pat) (hne : pat ≠ [])
    (h : pat <:+: joinNl segs ++ tail) : (∃ s ∈ segs, pat <:+: s) ∨ pat <:+: tail := by
  induction segs with
  | nil => exact Or.inr h
  | cons s ss ih =>
    have h1 := infix_of_occs pat _ hne h 0
    simp only [joinNl, List.append_assoc, List.cons_append] at h1
    rw [occs_append_sep '\n' pat s _ 0 hn hne] at h1
    by_cases hs : occs pat 0 s = []
    · rw [hs, List.nil_append] at h1
      rcases ih (infix_of_occs_ne_nil _ _ _ h1) with ⟨x, hx, hi⟩ | ht
      · exact Or.inl ⟨x, List.mem_cons_of_mem _ hx, hi⟩
      · exact Or.inr ht
    · exact Or.inl ⟨s, by simp, infix_of_occs_ne_nil _ _ _ hs⟩

/-! ## one entry -/

/-- a quote-free keyword that starts inside a segment ending at a quote lies inside the segment -/
theorem prefix_of_seg (kw u rest : List Char) (hq : '"' ∉ kw) (h : kw.isPrefixOf (u ++ '"' :: rest) = true) : kw <+: u := by
  induction kw generalizing u with
  | nil => exact List.nil_prefix
  | cons k ks ih =>
    cases u with
    | nil =>
      simp only [List.nil_append, List.isPrefixOf, Bool.and_eq_true, beq_iff_eq] at h
      exact absurd (by rw [h.1]; simp) hq
    | cons c cs =>
      simp only [List.cons_append, List.isPrefixOf, Bool.and_eq_true, beq_iff_eq] at h
      obtain ⟨rfl, h2⟩ := h
      have := ih cs (fun hm => hq (List.mem_cons_of_mem _ hm)) h2
      exact List.cons_prefix_cons.2 ⟨rfl, this⟩

/-- a segment (ending at a quote) that does not contain the quote-free keyword is skipped, whatever it contains — line
breaks included -/
theorem scanL_free {β : Type} (k0 : Char) (ks : List Char) (f : List Char → Option β) (u rest : List Char)
    (hq : '"' ∉ k0 :: ks) (hfree : ¬ (k0 :: ks) <:+: u) :
    scanL (k0 :: ks) f (u ++ '"' :: rest) = scanL (k0 :: ks) f rest := by
  induction u with
  | nil =>
    have : (k0 == '"') = false := by simpa using fun e : k0 = '"' => hq (by simp [e])
    simp [scanL, List.isPrefixOf, this]
  | cons c cs ih =>
    have hp : (k0 :: ks).isPrefixOf ((c :: cs) ++ '"' :: rest) = false := by
      cases hb : (k0 :: ks).isPrefixOf ((c :: cs) ++ '"' :: rest) with
      | false => rfl
      | true => exact absurd (prefix_of_seg _ _ _ hq hb).isInfix hfree
    rw [List.cons_append] at hp ⊢
    rw [scanL_fail _ _ _ _ hp]
    exact ih (fun h => hfree (by obtain ⟨a, b, e⟩ := h; exact ⟨c :: a, b, by simp [← e]⟩))

theorem scanL_after {β : Type} (k0 : Char) (ks A tail : List Char) (f : List Char → Option β) (x : β) (hA : k0 ∉ A)
    (h : f tail = some x) : scanL (k0 :: ks) f (A ++ ((k0 :: ks) ++ tail)) = some x := by
  rw [scanL_skip k0 ks A _ f hA]
  exact scanL_hit _ _ _ _ (by simp) h

theorem notMem_idxL (c : Char) (j : Nat) (h1 : c.isDigit = false) (h2 : c ≠ ']') (h3 : c ≠ ':') : c ∉ idxL j := by
  intro h
  simp only [idxL, List.mem_append, List.mem_cons, List.not_mem_nil, or_false] at h
  rcases h with h | h | h
  · rw [count_toList] at h
    have := Nat.isDigit_of_mem_toDigits (by decide) (by decide) h
    rw [this] at h1; cases h1
  · exact h2 h
  · exact h3 h

theorem notMem_num (w : List Char) (h : LongNum w) (c : Char) (hc : numChar c = false) : c ∉ w := by
  intro hm
  rw [h.chars c hm] at hc; cases hc

theorem mem_tabL (c : Char) (h : c ∈ tabL) : c = ' ' := by
  simp only [tabL] at h
  have : "    ".toList = [' ', ' ', ' ', ' '] := by rfl
  rw [this] at h
  simp at h; exact h
theorem mem_tab2 (c : Char) (h : c ∈ tab2) : c = ' ' := by
  simp only [tab2, List.mem_append] at h
  rcases h with h | h <;> exact mem_tabL c h
theorem mem_tab3 (c : Char) (h : c ∈ tab3) : c = ' ' := by
  simp only [tab3, List.mem_append] at h
  rcases h with h | h | h <;> exact mem_tabL c h

theorem lit_xmin : (lit "xmin").toList = 'x' :: ['m', 'i', 'n'] := by rfl
theorem lit_xmax : (lit "xmax").toList = 'x' :: ['m', 'a', 'x'] := by rfl
theorem lit_text : (lit "text").toList = 't' :: ['e', 'x', 't'] := by rfl
theorem lit_number : (lit "number").toList = 'n' :: ['u', 'm', 'b', 'e', 'r'] := by rfl
theorem lit_mark : (lit "mark").toList = 'm' :: ['a', 'r', 'k'] := by rfl
theorem lit_name : (lit "name").toList = 'n' :: ['a', 'm', 'e'] := by rfl

theorem ivBody_shape (num : α → String) (j : Nat) (e : Iv α) (ws : List Char) :
    ivBody num j e ++ ws =
      (idxL j ++ '\n' :: tab3) ++ (('x' :: ['m', 'i', 'n']) ++ (' ' :: '=' :: ' ' :: ((num e.s).toList ++ ' ' :: '\n' ::
        (tab3 ++ (('x' :: ['m', 'a', 'x']) ++ (' ' :: '=' :: ' ' :: ((num e.e).toList ++ ' ' :: '\n' ::
          (tab3 ++ (('t' :: ['e', 'x', 't']) ++ (' ' :: '=' :: ' ' :: '"' :: (escapeL e.l.toList ++ '"' :: ' ' :: '\n' :: ws))))))))))) := by
  have e1 : "xmin".toList = 'x' :: ['m', 'i', 'n'] := by rfl
  have e2 : "xmax".toList = 'x' :: ['m', 'a', 'x'] := by rfl
  have e3 : "text".toList = 't' :: ['e', 'x', 't'] := by rfl
  simp only [ivBody, joinNl, numRowL, textRowL, eqL, row, q, e1, e2, e3, List.append_assoc, List.cons_append, List.nil_append]

theorem ptBody_shape (num : α → String) (j : Nat) (p : Pt α) (ws : List Char) :
    ptBody num j p ++ ws =
      (idxL j ++ '\n' :: tab3) ++ (('n' :: ['u', 'm', 'b', 'e', 'r']) ++ (' ' :: '=' :: ' ' :: ((num p.t).toList ++ ' ' :: '\n' ::
        (tab3 ++ (('m' :: ['a', 'r', 'k']) ++ (' ' :: '=' :: ' ' :: '"' :: (escapeL p.l.toList ++ '"' :: ' ' :: '\n' :: ws))))))) := by
  have e1 : "number".toList = 'n' :: ['u', 'm', 'b', 'e', 'r'] := by rfl
  have e3 : "mark".toList = 'm' :: ['a', 'r', 'k'] := by rfl
  simp only [ptBody, joinNl, numRowL, textRowL, eqL, row, q, e1, e3, List.append_assoc, List.cons_append, List.nil_append]

theorem unescape_label (l : String) (hs : NoEdgeSpace l.toList) :
    toStr (replace (strip (escapeL l.toList).toArray) (lit "\"\"") (lit "\"")) = l := by
  unfold toStr
  rw [replace_qq, strip_toArray, List.toList_toArray, word_written l.toList hs, String.ofList_toList]

/-- what the long-format reader makes of a written label: `label.strip()`, then un-doubling — the STRIPPED label, for EVERY label -/
theorem unescape_label_strip (l : String) :
    toStr (replace (strip (escapeL l.toList).toArray) (lit "\"\"") (lit "\"")) = pyStrip l := by
  unfold toStr
  rw [replace_qq, strip_toArray, List.toList_toArray, word_written_strip l.toList]
  rfl

theorem notMem_tab3 (c : Char) (h : c ≠ ' ') : c ∉ tab3 := fun hm => h (mem_tab3 c hm)
theorem notMem_tab2 (c : Char) (h : c ≠ ' ') : c ∉ tab2 := fun hm => h (mem_tab2 c hm)

/-- **one written interval entry is read back** with its label STRIPPED (`str.strip()`), for EVERY label (numerals matching the
reader's pattern) -/
theorem readEntry_iv_strip (num : α → String) (hnum : ∀ x, LongNum (num x).toList) (j : Nat) (e : Iv α) (ws : List Char)
    (hws : ∀ c ∈ ws, c = ' ') :
    readEntryLong true (ivBody num j e ++ ws).toArray = .ok [num e.s, num e.e, pyStrip e.l] := by
  have ix := notMem_idxL 'x' j (by decide) (by decide) (by decide)
  have it := notMem_idxL 't' j (by decide) (by decide) (by decide)
  have tx := notMem_tab3 'x' (by decide)
  have tt := notMem_tab3 't' (by decide)
  have sx := notMem_num _ (hnum e.s) 'x' (by decide)
  have st := notMem_num _ (hnum e.s) 't' (by decide)
  have et := notMem_num _ (hnum e.e) 't' (by decide)
  have h1 : matchNum (ivBody num j e ++ ws).toArray (lit "xmin") true = some (num e.s).toList.toArray := by
    rw [matchNum_eq _ _ _ (by decide), lit_xmin, List.toList_toArray, ivBody_shape,
      scanL_after 'x' _ _ _ _ _ (by simp [ix, tx]) (numAfter_written _ _ (hnum e.s))]
    rfl
  have h2 : matchNum (ivBody num j e ++ ws).toArray (lit "xmax") true = some (num e.e).toList.toArray := by
    rw [matchNum_eq _ _ _ (by decide), lit_xmax, List.toList_toArray, ivBody_shape,
      scanL_skip 'x' _ _ _ _ (by simp [ix, tx])]
    rw [List.cons_append, scanL_fail _ _ _ _ (by simp [List.isPrefixOf])]
    have hC : 'x' ∉ ['m', 'i', 'n'] ++ (' ' :: '=' :: ' ' :: ((num e.s).toList ++ ' ' :: '\n' :: tab3)) := by
      simp [sx, tx]
    have e1 : ∀ T : List Char, ['m', 'i', 'n'] ++ (' ' :: '=' :: ' ' :: ((num e.s).toList ++ ' ' :: '\n' :: (tab3 ++ T))) =
        (['m', 'i', 'n'] ++ (' ' :: '=' :: ' ' :: ((num e.s).toList ++ ' ' :: '\n' :: tab3))) ++ T := by
      intro T; simp only [List.append_assoc, List.cons_append, List.nil_append]
    rw [e1, scanL_after 'x' ['m', 'a', 'x'] _ _ (numAfter true) _ hC (numAfter_written _ _ (hnum e.e))]
    rfl
  have h3 : matchText (ivBody num j e ++ ws).toArray (lit "text") true = some (escapeL e.l.toList).toArray := by
    rw [matchText_eq _ _ _ (by decide), lit_text, List.toList_toArray, ivBody_shape]
    have hC : 't' ∉ (idxL j ++ '\n' :: tab3) ++ (('x' :: ['m', 'i', 'n']) ++ (' ' :: '=' :: ' ' :: ((num e.s).toList ++ ' ' :: '\n' ::
        (tab3 ++ (('x' :: ['m', 'a', 'x']) ++ (' ' :: '=' :: ' ' :: ((num e.e).toList ++ ' ' :: '\n' :: tab3))))))) := by
      simp [it, tt, st, et]
    have e1 : ∀ T : List Char, (idxL j ++ '\n' :: tab3) ++ (('x' :: ['m', 'i', 'n']) ++ (' ' :: '=' :: ' ' :: ((num e.s).toList ++ ' ' :: '\n' ::
        (tab3 ++ (('x' :: ['m', 'a', 'x']) ++ (' ' :: '=' :: ' ' :: ((num e.e).toList ++ ' ' :: '\n' :: (tab3 ++ T)))))))) =
        ((idxL j ++ '\n' :: tab3) ++ (('x' :: ['m', 'i', 'n']) ++ (' ' :: '=' :: ' ' :: ((num e.s).toList ++ ' ' :: '\n' ::
        (tab3 ++ (('x' :: ['m', 'a', 'x']) ++ (' ' :: '=' :: ' ' :: ((num e.e).toList ++ ' ' :: '\n' :: tab3)))))))) ++ T := by
      intro T; simp only [List.append_assoc, List.cons_append, List.nil_append]
    rw [e1, scanL_after 't' ['e', 'x', 't'] _ _ (textAfter true) _ hC (textAfter_dotall (escapeL e.l.toList) ws hws)]
    rfl
  simp only [readEntryLong, if_true, h1, h2, h3, need, bind, Except.bind, pure, Except.pure, toStr_toArray, unescape_label_strip]

/-- **one written interval entry is read back** (every strip-invariant label: the corollary of `readEntry_iv_strip`) -/
theorem readEntry_iv (num : α → String) (hnum : ∀ x, LongNum (num x).toList) (j : Nat) (e : Iv α) (ws : List Char)
    (hws : ∀ c ∈ ws, c = ' ') (hl : NoEdgeSpace e.l.toList) :
    readEntryLong true (ivBody num j e ++ ws).toArray = .ok [num e.s, num e.e, e.l] := by
  rw [readEntry_iv_strip num hnum j e ws hws, (pyStrip_eq_iff e.l).2 hl]

/-- **one written point entry is read back** with its mark STRIPPED, for EVERY mark -/
theorem readEntry_pt_strip (num : α → String) (hnum : ∀ x, LongNum (num x).toList) (j : Nat) (p : Pt α) (ws : List Char)
    (hws : ∀ c ∈ ws, c = ' ') :
    readEntryLong false (ptBody num j p ++ ws).toArray = .ok [num p.t, pyStrip p.l] := by
  have i_n := notMem_idxL 'n' j (by decide) (by decide) (by decide)
  have i_m := notMem_idxL 'm' j (by decide) (by decide) (by decide)
  have t_n := notMem_tab3 'n' (by decide)
  have t_m := notMem_tab3 'm' (by decide)
  have s_m := notMem_num _ (hnum p.t) 'm' (by decide)
  have h1 : matchNum (ptBody num j p ++ ws).toArray (lit "number") true = some (num p.t).toList.toArray := by
    rw [matchNum_eq _ _ _ (by decide), lit_number, List.toList_toArray, ptBody_shape,
      scanL_after 'n' _ _ _ _ _ (by simp [i_n, t_n]) (numAfter_written _ _ (hnum p.t))]
    rfl
  have h3 : matchText (ptBody num j p ++ ws).toArray (lit "mark") true = some (escapeL p.l.toList).toArray := by
    rw [matchText_eq _ _ _ (by decide), lit_mark, List.toList_toArray, ptBody_shape,
      scanL_skip 'm' _ _ _ _ (by simp [i_m, t_m])]
    -- the `m` of `number` is not the start of `mark`
    have e1 : ('n' :: ['u', 'm', 'b', 'e', 'r']) ++ (' ' :: '=' :: ' ' :: ((num p.t).toList ++ ' ' :: '\n' ::
        (tab3 ++ (('m' :: ['a', 'r', 'k']) ++ (' ' :: '=' :: ' ' :: '"' :: (escapeL p.l.toList ++ '"' :: ' ' :: '\n' :: ws)))))) =
        ['n', 'u'] ++ ('m' :: (['b', 'e', 'r'] ++ (' ' :: '=' :: ' ' :: ((num p.t).toList ++ ' ' :: '\n' :: tab3)) ++
          (('m' :: ['a', 'r', 'k']) ++ (' ' :: '=' :: ' ' :: '"' :: (escapeL p.l.toList ++ '"' :: ' ' :: '\n' :: ws))))) := by
      simp only [List.append_assoc, List.cons_append, List.nil_append]
    rw [e1, scanL_skip 'm' _ _ _ _ (by simp), scanL_fail _ _ _ _ (by simp [List.isPrefixOf])]
    have hC : 'm' ∉ ['b', 'e', 'r'] ++ (' ' :: '=' :: ' ' :: ((num p.t).toList ++ ' ' :: '\n' :: tab3)) := by
      simp [s_m, t_m]
    rw [scanL_after 'm' ['a', 'r', 'k'] _ _ (textAfter true) _ hC (textAfter_dotall (escapeL p.l.toList) ws hws)]
    rfl
  simp only [readEntryLong, Bool.false_eq_true, if_false, h1, h3, need, bind, Except.bind, pure, Except.pure, toStr_toArray,
    unescape_label_strip]

/-- **one written point entry is read back** (every strip-invariant mark) -/
theorem readEntry_pt (num : α → String) (hnum : ∀ x, LongNum (num x).toList) (j : Nat) (p : Pt α) (ws : List Char)
    (hws : ∀ c ∈ ws, c = ' ') (hl : NoEdgeSpace p.l.toList) :
    readEntryLong false (ptBody num j p ++ ws).toArray = .ok [num p.t, p.l] := by
  rw [readEntry_pt_strip num hnum j p ws hws, (pyStrip_eq_iff p.l).2 hl]

/-! ## splitting a text of the shape  X sep KW B₁ sep KW B₂ … trail -/

def itemsL (sep a : List Char) : List (List Char) → List Char
  | [] => []
  | B :: Bs => sep ++ (a ++ (B ++ itemsL sep a Bs))

def piecesL (sep X : List Char) : List (List Char) → List Char → List (List Char)
  | [], trail => [X ++ trail]
  | B :: Bs, trail => (X ++ sep) :: piecesL sep B Bs trail

/-- `Z` (followed by the blanks `sep` or `trail`) contains neither form of the separator -/
def Clean (a b sep trail Z : List Char) : Prop :=
  ∀ ws, ws = sep ∨ ws = trail → ¬ a <:+: Z ++ ws ∧ ¬ b <:+: Z ++ ws

theorem splitL_items (c0 : Char) (a' b' sep X : List Char) (Bs : List (List Char)) (trail : List Char)
    (ha : c0 ∉ a') (hb : c0 ∉ b') (hclean : ∀ Z ∈ X :: Bs, Clean (c0 :: a') (c0 :: b') sep trail Z) :
    splitL (c0 :: a') (c0 :: b') 0 (X ++ (itemsL sep (c0 :: a') Bs ++ trail)) [] = piecesL sep X Bs trail := by
  induction Bs generalizing X with
  | nil =>
    have hc := hclean X (by simp) trail (Or.inr rfl)
    have e : X ++ (itemsL sep (c0 :: a') [] ++ trail) = (X ++ trail) ++ [] := by simp [itemsL]
    rw [e, splitL_noHit _ _ _ _ _ (noHit_of_not_infix c0 a' b' _ [] ha hb (Or.inl rfl) hc.1 hc.2)]
    simp [splitL_nil, piecesL]
  | cons B Bs ih =>
    have hc := hclean X (by simp) sep (Or.inl rfl)
    have e : X ++ (itemsL sep (c0 :: a') (B :: Bs) ++ trail) =
        (X ++ sep) ++ ((c0 :: a') ++ (B ++ (itemsL sep (c0 :: a') Bs ++ trail))) := by
      simp only [itemsL, List.append_assoc]
    rw [e, splitL_noHit _ _ _ _ _ (noHit_of_not_infix c0 a' b' _ _ ha hb (Or.inr rfl) hc.1 hc.2),
      splitL_hit _ _ _ _ (by simp), ih B (fun Z hZ => hclean Z (by
        simp only [List.mem_cons] at hZ ⊢
        rcases hZ with rfl | hZ
        · exact Or.inr (Or.inl rfl)
        · exact Or.inr (Or.inr hZ)))]
    simp [piecesL]

/-- a text made of lines is clean when every line is, for separators that contain `[` and no newline -/
theorem clean_lines (a b sep trail : List Char) (segs : List (List Char)) (hna : '\n' ∉ a) (hnb : '\n' ∉ b)
    (hba : '[' ∈ a) (hbb : '[' ∈ b) (hsep : '[' ∉ sep) (htrail : '[' ∉ trail)
    (h : ∀ s ∈ segs, ¬ a <:+: s ∧ ¬ b <:+: s) : Clean a b sep trail (joinNl segs) := by
  intro ws hws
  have hw : '[' ∉ ws := by rcases hws with rfl | rfl <;> assumption
  constructor
  · intro hi
    rcases infix_lines a segs ws hna (by intro e; rw [e] at hba; simp at hba) hi with ⟨s, hs, hin⟩ | hin
    · exact (h s hs).1 hin
    · exact not_infix_of_not_mem '[' a ws hba hw hin
  · intro hi
    rcases infix_lines b segs ws hnb (by intro e; rw [e] at hbb; simp at hbb) hi with ⟨s, hs, hin⟩ | hin
    · exact (h s hs).2 hin
    · exact not_infix_of_not_mem '[' b ws hbb hw hin

/-! ## the lines of a tier -/

def ivLines (num : α → String) : Nat → List (Iv α) → List (List Char)
  | _, [] => []
  | j, e :: es => (tab2 ++ (ivA ++ idxL j)) :: numRowL tab3 "xmin".toList (num e.s) :: numRowL tab3 "xmax".toList (num e.e) ::
      textRowL tab3 "text".toList e.l :: ivLines num (j + 1) es
def ptLines (num : α → String) : Nat → List (Pt α) → List (List Char)
  | _, [] => []
  | j, p :: ps => (tab2 ++ (ptA ++ idxL j)) :: numRowL tab3 "number".toList (num p.t) :: textRowL tab3 "mark".toList p.l ::
      ptLines num (j + 1) ps

theorem ivItems_lines (num : α → String) (j : Nat) (es : List (Iv α)) : ivItems num j es = joinNl (ivLines num j es) := by
  induction es generalizing j with
  | nil => rfl
  | cons e es ih => simp only [ivItems, ivLines, ivBody, joinNl, ih, List.append_assoc, List.cons_append, List.nil_append]
theorem ptItems_lines (num : α → String) (j : Nat) (ps : List (Pt α)) : ptItems num j ps = joinNl (ptLines num j ps) := by
  induction ps generalizing j with
  | nil => rfl
  | cons p ps ih => simp only [ptItems, ptLines, ptBody, joinNl, ih, List.append_assoc, List.cons_append, List.nil_append]

def headLines (num : α → String) (k : Nat) (cls : List Char) (name : String) (lo hi : α) (cnt : List Char) (n : Nat) :
    List (List Char) :=
  [idxL k, classRow cls, textRowL tab2 "name".toList name, numRowL tab2 "xmin".toList (num lo),
    numRowL tab2 "xmax".toList (num hi), sizeRow cnt n]

def tierLines (num : α → String) (k : Nat) : AnyTier α → List (List Char)
  | .I t => headLines num k "IntervalTier".toList t.name t.lo t.hi "intervals".toList t.es.length ++ ivLines num 0 t.es
  | .P t => headLines num k "TextTier".toList t.name t.lo t.hi "points".toList t.ps.length ++ ptLines num 0 t.ps

theorem tierBodyL_lines (num : α → String) (k : Nat) (t : AnyTier α) : tierBodyL num k t = joinNl (tierLines num k t) := by
  cases t with
  | I t => simp only [tierBodyL, tierLines, tierHead, headLines, joinNl_append, ivItems_lines]
  | P t => simp only [tierBodyL, tierLines, tierHead, headLines, joinNl_append, ptItems_lines]

/-! ## which lines can contain a separator -/

theorem infix_sep (c : Char) (pat X Y : List Char) (hc : c ∉ pat) (hne : pat ≠ []) (h : pat <:+: X ++ c :: Y) :
    pat <:+: X ∨ pat <:+: Y := by
  have h1 := infix_of_occs pat _ hne h 0
  rw [occs_append_sep c pat X Y 0 hc hne] at h1
  by_cases hx : occs pat 0 X = []
  · rw [hx, List.nil_append] at h1
    exact Or.inr (infix_of_occs_ne_nil _ _ _ h1)
  · exact Or.inl (infix_of_occs_ne_nil _ _ _ hx)

theorem prefix_escape_quote_free (pat s : List Char) (hq : q ∉ pat) (h : pat <+: escapeL s) : pat <+: s := by
  induction pat generalizing s with
  | nil => exact List.nil_prefix
  | cons p ps ih =>
    have hp : p ≠ q := fun e => hq (by simp [e])
    cases s with
    | nil => simp [escapeL] at h
    | cons c cs =>
      by_cases hc : c = q
      · simp only [escapeL, hc, if_true, List.cons_prefix_cons] at h
        exact absurd h.1 hp
      · simp only [escapeL, hc, if_false, List.cons_prefix_cons] at h
        exact List.cons_prefix_cons.2 ⟨h.1, ih cs (fun e => hq (List.mem_cons_of_mem _ e)) h.2⟩

/-- quote doubling creates no new occurrence of a pattern without quotes -/
theorem infix_escape_quote_free (pat s : List Char) (hq : q ∉ pat) (hne : pat ≠ []) (h : pat <:+: escapeL s) :
    pat <:+: s := by
  induction s with
  | nil => simpa [escapeL] using h
  | cons c cs ih =>
    obtain ⟨p, ps, rfl⟩ : ∃ p ps, pat = p :: ps := by
      cases pat with
      | nil => exact absurd rfl hne
      | cons p ps => exact ⟨p, ps, rfl⟩
    have hp : p ≠ q := fun e => hq (by simp [e])
    by_cases hc : c = q
    · simp only [escapeL, hc, if_true, List.infix_cons_iff, List.cons_prefix_cons] at h
      rcases h with h | h | h
      · exact absurd h.1 hp
      · exact absurd h.1 hp
      · exact List.infix_cons (ih h)
    · have hh := h
      simp only [escapeL, hc, if_false] at hh
      rcases List.infix_cons_iff.1 hh with h1 | h1
      · have : p :: ps <+: escapeL (c :: cs) := by simpa [escapeL, hc] using h1
        exact (prefix_escape_quote_free _ _ hq this).isInfix
      · exact List.infix_cons (ih h1)

theorem textRow_free (pat ind key : List Char) (s : String) (hq : q ∉ pat) (hb : '[' ∈ pat) (hind : '[' ∉ ind)
    (hkey : '[' ∉ key) (hs : ¬ pat <:+: s.toList) : ¬ pat <:+: textRowL ind key s := by
  have hne : pat ≠ [] := by intro e; rw [e] at hb; simp at hb
  intro h
  have e : textRowL ind key s = (ind ++ (key ++ eqL)) ++ q :: (escapeL s.toList ++ q :: [' ']) := by
    simp only [textRowL, row, List.append_assoc, List.cons_append, List.nil_append]
  rw [e] at h
  rcases infix_sep q pat _ _ hq hne h with h1 | h1
  · refine not_infix_of_not_mem '[' pat _ hb ?_ h1
    simp only [List.mem_append, eqL, List.mem_cons, List.not_mem_nil, or_false, not_or]
    exact ⟨hind, hkey, by decide, by decide, by decide⟩
  · rcases infix_sep q pat _ _ hq hne h1 with h2 | h2
    · exact hs (infix_escape_quote_free pat _ hq hne h2)
    · exact not_infix_of_not_mem '[' pat _ hb (by decide) h2

theorem notMem_tabL (c : Char) (h : c ≠ ' ') : c ∉ tabL := fun hm => h (mem_tabL c hm)

theorem numRow_noBracket (ind key : List Char) (w : String) (hw : LongNum w.toList) (hind : '[' ∉ ind) (hkey : '[' ∉ key) :
    '[' ∉ numRowL ind key w := by
  simp only [numRowL, eqL, List.mem_append, List.mem_cons, List.not_mem_nil, or_false, not_or]
  exact ⟨hind, hkey, ⟨by decide, by decide, by decide⟩, notMem_num _ hw '[' (by decide), by decide⟩

theorem idxL_noBracket (k : Nat) : '[' ∉ idxL k := notMem_idxL '[' k (by decide) (by decide) (by decide)

theorem sizeRow_noBracket (cnt : List Char) (n : Nat) (h : '[' ∉ cnt) : '[' ∉ sizeRow cnt n := by
  simp only [sizeRow, List.mem_append, List.mem_cons, List.not_mem_nil, or_false, not_or]
  refine ⟨notMem_tab2 _ (by decide), h, by decide, ?_, by decide⟩
  intro hm
  rw [count_toList] at hm
  exact absurd (Nat.isDigit_of_mem_toDigits (by decide) (by decide) hm) (by decide)

theorem classRow_noBracket (cls : List Char) (h : '[' ∉ cls) : '[' ∉ classRow cls := by
  simp only [classRow, List.mem_append, List.mem_cons, List.not_mem_nil, or_false, not_or]
  exact ⟨notMem_tab2 _ (by decide), by decide, h, by decide, by decide⟩

/-! ## the tier header: `name`, `xmin`, `xmax` -/

theorem tierHead_shape (num : α → String) (k : Nat) (cls : List Char) (name : String) (lo hi : α) (cnt : List Char) (n : Nat)
    (ws : List Char) :
    tierHead num k cls name lo hi cnt n ++ ws =
      (idxL k ++ ['\n']) ++ ((tab2 ++ "class = ".toList) ++ '"' :: (cls ++ '"' :: ([' ', '\n'] ++
        ((tab2 ++ ('n' :: ['a', 'm', 'e'] ++ eqL)) ++ '"' :: (escapeL name.toList ++ '"' :: ((' ' :: '\n' :: tab2) ++
          (('x' :: ['m', 'i', 'n']) ++ (' ' :: '=' :: ' ' :: ((num lo).toList ++ ' ' :: '\n' :: (tab2 ++
            (('x' :: ['m', 'a', 'x']) ++ (' ' :: '=' :: ' ' :: ((num hi).toList ++ ' ' :: '\n' ::
              (sizeRow cnt n ++ '\n' :: ws)))))))))))))) := by
  have e0 : "class = \"".toList = "class = ".toList ++ ['"'] := by rfl
  have e1 : "xmin".toList = 'x' :: ['m', 'i', 'n'] := by rfl
  have e2 : "xmax".toList = 'x' :: ['m', 'a', 'x'] := by rfl
  have e3 : "name".toList = 'n' :: ['a', 'm', 'e'] := by rfl
  simp only [tierHead, joinNl, classRow, numRowL, textRowL, eqL, row, q, e0, e1, e2, e3, List.append_assoc, List.cons_append,
    List.nil_append]

theorem notMem_escape (c : Char) (l : List Char) (hc : c ≠ q) (h : c ∉ l) : c ∉ escapeL l := by
  intro hm
  rcases mem_escapeL c l hm with h1 | h1
  · exact h h1
  · exact hc h1

/-- what `_parseNormalTextgrid` keeps of a written tier header once the name is read (`header[nameMatch.end(1):]`, fix A33): the
name's closing quote and the rows behind it -/
def hdrRest (num : α → String) (lo hi : α) (cnt : List Char) (n : Nat) (ws : List Char) : List Char :=
  '"' :: ' ' :: '\n' :: (numRowL tab2 "xmin".toList (num lo) ++ '\n' :: (numRowL tab2 "xmax".toList (num hi) ++ '\n' ::
    (sizeRow cnt n ++ '\n' :: ws)))

theorem hdrRest_shape (num : α → String) (lo hi : α) (cnt : List Char) (n : Nat) (ws : List Char) :
    hdrRest num lo hi cnt n ws =
      ('"' :: ' ' :: '\n' :: tab2) ++
          (('x' :: ['m', 'i', 'n']) ++ (' ' :: '=' :: ' ' :: ((num lo).toList ++ ' ' :: '\n' :: (tab2 ++
            (('x' :: ['m', 'a', 'x']) ++ (' ' :: '=' :: ' ' :: ((num hi).toList ++ ' ' :: '\n' ::
              (sizeRow cnt n ++ '\n' :: ws)))))))) := by
  have e1 : "xmin".toList = 'x' :: ['m', 'i', 'n'] := by rfl
  have e2 : "xmax".toList = 'x' :: ['m', 'a', 'x'] := by rfl
  simp only [hdrRest, numRowL, eqL, e1, e2, List.append_assoc, List.cons_append, List.nil_append]

/-- `xmin` and `xmax` of the tier header are searched in the rest of the header BEHIND the name (fix A33), where they are the
first occurrences of these words: no hypothesis on the name -/
theorem rest_nums (num : α → String) (hnum : ∀ x, LongNum (num x).toList) (lo hi : α) (cnt : List Char) (n : Nat)
    (ws : List Char) :
    matchNum (hdrRest num lo hi cnt n ws).toArray (lit "xmin") true = some (num lo).toList.toArray ∧
    matchNum (hdrRest num lo hi cnt n ws).toArray (lit "xmax") true = some (num hi).toList.toArray := by
  have hsk : 'x' ∉ '"' :: ' ' :: '\n' :: tab2 := by simp [notMem_tab2 'x' (by decide)]
  constructor
  · rw [matchNum_eq _ _ _ (by decide), lit_xmin, List.toList_toArray, hdrRest_shape,
      scanL_after 'x' ['m', 'i', 'n'] _ _ (numAfter true) _ hsk (numAfter_written _ _ (hnum lo))]
    rfl
  · rw [matchNum_eq _ _ _ (by decide), lit_xmax, List.toList_toArray, hdrRest_shape, scanL_skip 'x' _ _ _ _ hsk]
    rw [List.cons_append, scanL_fail _ _ _ _ (by simp [List.isPrefixOf])]
    have hC : 'x' ∉ ['m', 'i', 'n'] ++ (' ' :: '=' :: ' ' :: ((num lo).toList ++ ' ' :: '\n' :: tab2)) := by
      simp [notMem_num _ (hnum lo) 'x' (by decide), notMem_tab2 'x' (by decide)]
    have e1 : ∀ T : List Char, ['m', 'i', 'n'] ++ (' ' :: '=' :: ' ' :: ((num lo).toList ++ ' ' :: '\n' :: (tab2 ++ T))) =
        (['m', 'i', 'n'] ++ (' ' :: '=' :: ' ' :: ((num lo).toList ++ ' ' :: '\n' :: tab2))) ++ T := by
      intro T; simp only [List.append_assoc, List.cons_append, List.nil_append]
    rw [e1, scanL_after 'x' ['m', 'a', 'x'] _ _ (numAfter true) _ hC (numAfter_written _ _ (hnum hi))]
    rfl

/-- the name row with the rest: ` = "esc" \n` followed by a quote-free tail yields the escaped text and the suffix that
starts at its closing quote -/
theorem textAfterR_dotall_tail (esc tail : List Char) (ht : '"' ∉ tail) :
    textAfterR true (' ' :: '=' :: ' ' :: '"' :: (esc ++ '"' :: ' ' :: '\n' :: tail)) = some (esc, '"' :: ' ' :: '\n' :: tail) := by
  unfold textAfterR
  rw [headLen_eq, textAfter_dotall_tail esc tail ht]
  simp only [Option.map_some, Option.some.injEq, Prod.mk.injEq, true_and]
  have e : ' ' :: '=' :: ' ' :: '"' :: (esc ++ '"' :: ' ' :: '\n' :: tail) =
      ([' ', '=', ' ', '"'] ++ esc) ++ ('"' :: ' ' :: '\n' :: tail) := by simp
  rw [e, List.drop_left' (by simp only [List.length_append, List.length_cons, List.length_nil])]

theorem tierHead_shapeN (num : α → String) (k : Nat) (cls : List Char) (name : String) (lo hi : α) (cnt : List Char) (n : Nat)
    (ws : List Char) :
    tierHead num k cls name lo hi cnt n ++ ws =
      ((idxL k ++ ['\n']) ++ (tab2 ++ ("class = \"".toList ++ (cls ++ ('"' :: ' ' :: '\n' :: tab2))))) ++
        (('n' :: ['a', 'm', 'e']) ++ (' ' :: '=' :: ' ' :: '"' :: (escapeL name.toList ++ '"' :: ' ' :: '\n' ::
          (numRowL tab2 "xmin".toList (num lo) ++ '\n' :: (numRowL tab2 "xmax".toList (num hi) ++ '\n' ::
            (sizeRow cnt n ++ '\n' :: ws)))))) := by
  have e3 : "name".toList = 'n' :: ['a', 'm', 'e'] := by rfl
  simp only [tierHead, joinNl, classRow, textRowL, eqL, row, q, e3, List.append_assoc, List.cons_append, List.nil_append]

/-- `name` of the tier header, both classes, EVERY name (pattern with DOTALL since fix A32): the rest of the header holds no
quote, so the greedy match ends at the name's closing quote; what the reader goes on with is `hdrRest` (fix A33) -/
theorem head_name (num : α → String) (hnum : ∀ x, LongNum (num x).toList) (k : Nat) (isI : Bool) (name : String) (lo hi : α)
    (cnt : List Char) (n : Nat) (ws : List Char) (hcnt : '"' ∉ cnt) (hws : '"' ∉ ws) :
    matchTextRest (tierHead num k (if isI then "IntervalTier".toList else "TextTier".toList) name lo hi cnt n ++ ws).toArray
      (lit "name") true = some ((escapeL name.toList).toArray, (hdrRest num lo hi cnt n ws).toArray) := by
  have htail : '"' ∉ numRowL tab2 "xmin".toList (num lo) ++ '\n' :: (numRowL tab2 "xmax".toList (num hi) ++ '\n' ::
      (sizeRow cnt n ++ '\n' :: ws)) := by
    have t2 := notMem_tab2 '"' (by decide)
    have hd : '"' ∉ (toString n).toList := fun hm => by
      rw [count_toList] at hm
      exact absurd (Nat.isDigit_of_mem_toDigits (by decide) (by decide) hm) (by decide)
    simp only [numRowL, sizeRow, eqL, List.mem_append, List.mem_cons, List.not_mem_nil, or_false, not_or]
    exact ⟨⟨t2, by decide, by decide, notMem_num _ (hnum lo) '"' (by decide), by decide⟩, by decide,
      ⟨t2, by decide, by decide, notMem_num _ (hnum hi) '"' (by decide), by decide⟩, by decide,
      ⟨t2, hcnt, by decide, hd, by decide⟩, by decide, hws⟩
  have i_n : 'n' ∉ idxL k := notMem_idxL 'n' k (by decide) (by decide) (by decide)
  have t_n := notMem_tab2 'n' (by decide)
  rw [matchTextRest_eq _ _ _ (by decide), lit_name, List.toList_toArray, tierHead_shapeN]
  cases isI with
  | false =>
    have hA : 'n' ∉ (idxL k ++ ['\n']) ++ (tab2 ++ ("class = \"".toList ++ ("TextTier".toList ++ ('"' :: ' ' :: '\n' :: tab2)))) := by
      have c1 : 'n' ∉ "class = \"".toList := by decide
      have c2 : 'n' ∉ "TextTier".toList := by decide
      simp only [List.mem_append, List.mem_cons, not_or]
      exact ⟨⟨i_n, by decide, by simp⟩, t_n, c1, c2, by decide, by decide, by decide, t_n⟩
    simp only [Bool.false_eq_true, if_false]
    rw [scanL_after 'n' ['a', 'm', 'e'] _ _ (textAfterR true) _ hA (textAfterR_dotall_tail _ _ htail)]
    rfl
  | true =>
    have e1 : (idxL k ++ ['\n']) ++ (tab2 ++ ("class = \"".toList ++ ("IntervalTier".toList ++ ('"' :: ' ' :: '\n' :: tab2)))) =
        ((idxL k ++ ['\n']) ++ (tab2 ++ ("class = \"".toList ++ ['I']))) ++ ('n' :: ("tervalTier".toList ++ ('"' :: ' ' :: '\n' :: tab2))) := by
      have : "IntervalTier".toList = 'I' :: 'n' :: "tervalTier".toList := by rfl
      simp only [this, List.append_assoc, List.cons_append, List.nil_append]
    have hA1 : 'n' ∉ (idxL k ++ ['\n']) ++ (tab2 ++ ("class = \"".toList ++ ['I'])) := by
      have c1 : 'n' ∉ "class = \"".toList := by decide
      simp only [List.mem_append, List.mem_cons, List.not_mem_nil, or_false, not_or]
      exact ⟨⟨i_n, by decide⟩, t_n, c1, by decide⟩
    have hA2 : 'n' ∉ "tervalTier".toList ++ ('"' :: ' ' :: '\n' :: tab2) := by
      have c2 : 'n' ∉ "tervalTier".toList := by decide
      simp only [List.mem_append, List.mem_cons, not_or]
      exact ⟨c2, by decide, by decide, by decide, t_n⟩
    simp only [if_true]
    rw [e1, List.append_assoc, scanL_skip 'n' _ _ _ _ hA1, List.cons_append, scanL_fail _ _ _ _ (by
      have : "tervalTier".toList = 't' :: "ervalTier".toList := by rfl
      simp [List.isPrefixOf, this]),
      scanL_after 'n' ['a', 'm', 'e'] _ _ (textAfterR true) _ hA2 (textAfterR_dotall_tail _ _ htail)]
    rfl

/-! ## one tier -/

def ivBodies (num : α → String) : Nat → List (Iv α) → List (List Char)
  | _, [] => []
  | j, e :: es => ivBody num j e :: ivBodies num (j + 1) es
def ptBodies (num : α → String) : Nat → List (Pt α) → List (List Char)
  | _, [] => []
  | j, p :: ps => ptBody num j p :: ptBodies num (j + 1) ps

theorem ivItems_items (num : α → String) (j : Nat) (es : List (Iv α)) :
    ivItems num j es = itemsL tab2 ivA (ivBodies num j es) := by
  induction es generalizing j with
  | nil => rfl
  | cons e es ih => simp only [ivItems, ivBodies, itemsL, ih]
theorem ptItems_items (num : α → String) (j : Nat) (ps : List (Pt α)) :
    ptItems num j ps = itemsL tab2 ptA (ptBodies num j ps) := by
  induction ps generalizing j with
  | nil => rfl
  | cons p ps ih => simp only [ptItems, ptBodies, itemsL, ih]

/-- every piece is its body followed by blanks only -/
theorem piecesL_shape (sep X : List Char) (Bs : List (List Char)) (trail : List Char) :
    ∃ ws rest, (ws = sep ∨ ws = trail) ∧ piecesL sep X Bs trail = (X ++ ws) :: rest ∧
      rest = (match Bs with | [] => [] | B :: Bs' => piecesL sep B Bs' trail) := by
  cases Bs with
  | nil => exact ⟨trail, [], Or.inr rfl, rfl, rfl⟩
  | cons B Bs' => exact ⟨sep, _, Or.inl rfl, rfl, rfl⟩

theorem mapM_entries_iv (num : α → String) (hnum : ∀ x, LongNum (num x).toList) (trail : List Char)
    (htrail : ∀ c ∈ trail, c = ' ') (j : Nat) (e : Iv α) (es : List (Iv α)) :
    ((piecesL tab2 (ivBody num j e) (ivBodies num (j + 1) es) trail).map List.toArray).mapM (readEntryLong true) =
      .ok ((e :: es).map fun e => [num e.s, num e.e, pyStrip e.l]) := by
  induction es generalizing j e with
  | nil =>
    simp only [ivBodies, piecesL, List.map_cons, List.map_nil, List.mapM_cons, List.mapM_nil,
      readEntry_iv_strip num hnum j e trail htrail, bind, Except.bind, pure, Except.pure]
  | cons e2 es ih =>
    have h2 := ih (j + 1) e2
    simp only [ivBodies, piecesL, List.map_cons, List.mapM_cons,
      readEntry_iv_strip num hnum j e tab2 mem_tab2, bind, Except.bind, pure, Except.pure] at h2 ⊢
    rw [h2]

theorem mapM_entries_pt (num : α → String) (hnum : ∀ x, LongNum (num x).toList) (trail : List Char)
    (htrail : ∀ c ∈ trail, c = ' ') (j : Nat) (p : Pt α) (ps : List (Pt α)) :
    ((piecesL tab2 (ptBody num j p) (ptBodies num (j + 1) ps) trail).map List.toArray).mapM (readEntryLong false) =
      .ok ((p :: ps).map fun p => [num p.t, pyStrip p.l]) := by
  induction ps generalizing j p with
  | nil =>
    simp only [ptBodies, piecesL, List.map_cons, List.map_nil, List.mapM_cons, List.mapM_nil,
      readEntry_pt_strip num hnum j p trail htrail, bind, Except.bind, pure, Except.pure]
  | cons p2 ps ih =>
    have h2 := ih (j + 1) p2
    simp only [ptBodies, piecesL, List.map_cons, List.mapM_cons,
      readEntry_pt_strip num hnum j p tab2 mem_tab2, bind, Except.bind, pure, Except.pure] at h2 ⊢
    rw [h2]

/-! ## hypotheses on names and labels for the long format -/

def itA : List Char := 'i' :: ['t', 'e', 'm', ' ', '[']
def itB : List Char := 'i' :: ['t', 'e', 'm', '[']
def ivSA : List Char := 'i' :: "ntervals [".toList
def ivSB : List Char := 'i' :: "ntervals[".toList
def ptSA : List Char := 'p' :: "oints [".toList
def ptSB : List Char := 'p' :: "oints[".toList

/-- the separators the reader splits a tier of this class with: `intervals [`, `intervals[` / `points [`, `points[` -/
def entrySeps : AnyTier α → List (List Char)
  | .I _ => [ivSA, ivSB]
  | .P _ => [ptSA, ptSB]

/-- **the keyword hypothesis of the long format (A10)**: no name or label of the tier contains `item [`, `item[`, or the
entry separator of the tier's own class (`intervals [`, `intervals[` in an interval tier; `points [`, `points[` in a
point tier).  Plain substrings of the label itself: quote doubling does not matter, the patterns have no quote. -/
def NoKwLong (t : AnyTier α) : Prop := ∀ s ∈ texts t, ∀ p ∈ itA :: itB :: entrySeps t, ¬ p <:+: s.toList

theorem headLines_free (pat : List Char) (num : α → String) (hnum : ∀ x, LongNum (num x).toList) (k : Nat) (cls : List Char)
    (name : String) (lo hi : α) (cnt : List Char) (n : Nat) (hq : q ∉ pat) (hb : '[' ∈ pat) (hcls : '[' ∉ cls)
    (hcnt : '[' ∉ cnt) (hname : ¬ pat <:+: name.toList) :
    ∀ s ∈ headLines num k cls name lo hi cnt n, ¬ pat <:+: s := by
  intro s hs
  simp only [headLines, List.mem_cons, List.not_mem_nil, or_false] at hs
  have t2 := notMem_tab2 '[' (by decide)
  rcases hs with rfl | rfl | rfl | rfl | rfl | rfl
  · exact not_infix_of_not_mem '[' _ _ hb (idxL_noBracket k)
  · exact not_infix_of_not_mem '[' _ _ hb (classRow_noBracket cls hcls)
  · exact textRow_free pat _ _ name hq hb t2 (by decide) hname
  · exact not_infix_of_not_mem '[' _ _ hb (numRow_noBracket _ _ _ (hnum lo) t2 (by decide))
  · exact not_infix_of_not_mem '[' _ _ hb (numRow_noBracket _ _ _ (hnum hi) t2 (by decide))
  · exact not_infix_of_not_mem '[' _ _ hb (sizeRow_noBracket cnt n hcnt)

theorem ivBody_free (pat : List Char) (num : α → String) (hnum : ∀ x, LongNum (num x).toList) (j : Nat) (e : Iv α)
    (hq : q ∉ pat) (hb : '[' ∈ pat) (hl : ¬ pat <:+: e.l.toList) :
    ∀ s ∈ [idxL j, numRowL tab3 "xmin".toList (num e.s), numRowL tab3 "xmax".toList (num e.e), textRowL tab3 "text".toList e.l],
      ¬ pat <:+: s := by
  intro s hs
  simp only [List.mem_cons, List.not_mem_nil, or_false] at hs
  have t3 := notMem_tab3 '[' (by decide)
  rcases hs with rfl | rfl | rfl | rfl
  · exact not_infix_of_not_mem '[' _ _ hb (idxL_noBracket j)
  · exact not_infix_of_not_mem '[' _ _ hb (numRow_noBracket _ _ _ (hnum e.s) t3 (by decide))
  · exact not_infix_of_not_mem '[' _ _ hb (numRow_noBracket _ _ _ (hnum e.e) t3 (by decide))
  · exact textRow_free pat _ _ e.l hq hb t3 (by decide) hl

theorem ptBody_free (pat : List Char) (num : α → String) (hnum : ∀ x, LongNum (num x).toList) (j : Nat) (p : Pt α)
    (hq : q ∉ pat) (hb : '[' ∈ pat) (hl : ¬ pat <:+: p.l.toList) :
    ∀ s ∈ [idxL j, numRowL tab3 "number".toList (num p.t), textRowL tab3 "mark".toList p.l], ¬ pat <:+: s := by
  intro s hs
  simp only [List.mem_cons, List.not_mem_nil, or_false] at hs
  have t3 := notMem_tab3 '[' (by decide)
  rcases hs with rfl | rfl | rfl
  · exact not_infix_of_not_mem '[' _ _ hb (idxL_noBracket j)
  · exact not_infix_of_not_mem '[' _ _ hb (numRow_noBracket _ _ _ (hnum p.t) t3 (by decide))
  · exact textRow_free pat _ _ p.l hq hb t3 (by decide) hl

theorem mem_ivBodies (num : α → String) (j : Nat) (es : List (Iv α)) (Z : List Char) (h : Z ∈ ivBodies num j es) :
    ∃ j' e, e ∈ es ∧ Z = ivBody num j' e := by
  induction es generalizing j with
  | nil => simp [ivBodies] at h
  | cons e es ih =>
    simp only [ivBodies, List.mem_cons] at h
    rcases h with rfl | h
    · exact ⟨j, e, by simp, rfl⟩
    · obtain ⟨j', e', he, hz⟩ := ih (j + 1) h
      exact ⟨j', e', List.mem_cons_of_mem _ he, hz⟩

theorem mem_ptBodies (num : α → String) (j : Nat) (ps : List (Pt α)) (Z : List Char) (h : Z ∈ ptBodies num j ps) :
    ∃ j' p, p ∈ ps ∧ Z = ptBody num j' p := by
  induction ps generalizing j with
  | nil => simp [ptBodies] at h
  | cons p ps ih =>
    simp only [ptBodies, List.mem_cons] at h
    rcases h with rfl | h
    · exact ⟨j, p, by simp, rfl⟩
    · obtain ⟨j', p', hp, hz⟩ := ih (j + 1) h
      exact ⟨j', p', List.mem_cons_of_mem _ hp, hz⟩

theorem unescape_name (name : String) :
    toStr (replace (escapeL name.toList).toArray (lit "\"\"") (lit "\"")) = name := by
  unfold toStr
  rw [replace_qq, List.toList_toArray, unescape_escape, String.ofList_toList]

theorem findL_isSome_of_infix (pat l : List Char) (hne : pat ≠ []) (h : pat <:+: l) : (findL pat l).isSome = true := by
  cases hf : findL pat l with
  | some j => rfl
  | none => exact absurd (occs_of_findL_none pat l 0 hf) (infix_of_occs pat l hne h 0)

theorem findL_none_of_not_infix (pat l : List Char) (h : ¬ pat <:+: l) : (findL pat l).isSome = false := by
  cases hf : findL pat l with
  | none => rfl
  | some j =>
    have := occs_of_findL_some pat l 0 j hf
    have h0 := occs_nil_of_not_infix pat l 0 h
    rw [h0] at this; cases this

theorem lit_ivSA : (lit "intervals").toList ++ [' ', '['] = ivSA := by rfl
theorem lit_ivSB : (lit "intervals").toList ++ ['['] = ivSB := by rfl
theorem lit_ptSA : (lit "points").toList ++ [' ', '['] = ptSA := by rfl
theorem lit_ptSB : (lit "points").toList ++ ['['] = ptSB := by rfl
theorem ivA_eq : ivA = ivSA := by rfl
theorem ptA_eq : ptA = ptSA := by rfl
/-! the class test `class ?= ?"IntervalTier"` (after fix A22): positive side -/

/-- ` ?= ?` in one of its four forms -/
def eqOf (b a : Bool) : List Char := (if b then [' '] else []) ++ '=' :: (if a then [' '] else [])
theorem headLen_eqOf (b a : Bool) (X : List Char) (hX : X.head? ≠ some ' ') :
    headLen (eqOf b a ++ X) = some (eqOf b a).length := by
  have hx : (X.head? == some ' ') = false := by
    cases h : (X.head? == some ' ') with
    | false => rfl
    | true => exact absurd (by simpa using h) hX
  unfold eqOf
  cases b <;> cases a <;> simp [headLen, spLen, hx]

theorem classAfter_written (b a : Bool) (rest : List Char) : classAfter (eqOf b a ++ (iqL ++ rest)) = some () := by
  unfold classAfter
  rw [headLen_eqOf b a _ (by
    have : iqL = '"' :: "IntervalTier\"".toList := by rfl
    rw [this]; simp)]
  simp only [Option.bind_some, List.drop_left]
  have : iqL.isPrefixOf (iqL ++ rest) = true := List.isPrefixOf_iff_prefix.2 (List.prefix_append _ _)
  rw [if_pos this]

/-- **(b) one written interval tier is read back** from its `tierTxt` (the text between two `item [`) -/
theorem readTier_iv (num : α → String) (hnum : ∀ x, LongNum (num x).toList) (k : Nat) (t : ITier α) (trail : List Char)
    (htrail : ∀ c ∈ trail, c = ' ') (hkw : NoKwLong (.I t)) :
    readTierLong (tierBodyL num k (.I t) ++ trail).toArray = .ok (rawTier num (stripT (.I t))) := by
  have hkn : ∀ p ∈ [ivSA, ivSB], ¬ p <:+: t.name.toList := fun p hp =>
    hkw t.name (by simp [texts]) p (List.mem_cons_of_mem _ (List.mem_cons_of_mem _ hp))
  have hke : ∀ e ∈ t.es, ∀ p ∈ [ivSA, ivSB], ¬ p <:+: e.l.toList := fun e he p hp =>
    hkw e.l (by simp only [texts, List.mem_cons, List.mem_map]; exact Or.inr ⟨e, he, rfl⟩) p
      (List.mem_cons_of_mem _ (List.mem_cons_of_mem _ hp))
  have htb : '[' ∉ trail := fun h => absurd (htrail _ h) (by decide)
  -- the class
  have hI : matchClass (tierBodyL num k (.I t) ++ trail).toArray = true := by
    rw [matchClass_eq, List.toList_toArray]
    have e : tierBodyL num k (.I t) ++ trail = (idxL k ++ '\n' :: tab2) ++ (('c' :: ['l', 'a', 's', 's']) ++ (eqOf true true ++ (iqL ++
        ([' '] ++ '\n' :: (joinNl (List.drop 2 (headLines num k "IntervalTier".toList t.name t.lo t.hi "intervals".toList t.es.length)) ++
          ivItems num 0 t.es ++ trail))))) := by
      have e0 : "class = \"".toList = ('c' :: ['l', 'a', 's', 's']) ++ (eqOf true true ++ ['"']) := by rfl
      have e1 : iqL = '"' :: ("IntervalTier".toList ++ ['"']) := by rfl
      simp only [e0, e1, tierBodyL, tierHead, headLines, joinNl, classRow, List.drop_succ_cons, List.drop_zero, List.append_assoc,
        List.cons_append, List.nil_append]
    have hlit : classKw = 'c' :: ['l', 'a', 's', 's'] := by rfl
    rw [e, hlit, scanL_after 'c' _ _ _ _ () (by
      simp only [List.mem_append, List.mem_cons, not_or]
      exact ⟨notMem_idxL 'c' k (by decide) (by decide) (by decide), by decide, notMem_tab2 'c' (by decide)⟩)
      (classAfter_written true true _)]
    rfl
  -- the split at `intervals [`
  have hsplit : splitKw (tierBodyL num k (.I t) ++ trail).toArray (lit "intervals") =
      (piecesL tab2 (tierHead num k "IntervalTier".toList t.name t.lo t.hi "intervals".toList t.es.length)
        (ivBodies num 0 t.es) trail).map List.toArray := by
    rw [splitKw_eq, lit_ivSA, lit_ivSB, List.toList_toArray]
    have e : tierBodyL num k (.I t) ++ trail =
        tierHead num k "IntervalTier".toList t.name t.lo t.hi "intervals".toList t.es.length ++
          (itemsL tab2 ivSA (ivBodies num 0 t.es) ++ trail) := by
      simp only [tierBodyL, ivItems_items, ivA_eq, List.append_assoc]
    rw [e]
    congr 1
    apply splitL_items 'i' _ _ tab2 _ _ trail (by decide) (by decide)
    intro Z hZ
    simp only [List.mem_cons] at hZ
    rcases hZ with rfl | hZ
    · apply clean_lines _ _ _ _ _ (by decide) (by decide) (by decide) (by decide) (notMem_tab2 _ (by decide)) htb
      intro s hs
      exact ⟨headLines_free ivSA num hnum k _ t.name t.lo t.hi _ _ (by decide) (by decide) (by decide) (by decide)
          (hkn _ (by simp)) s hs,
        headLines_free ivSB num hnum k _ t.name t.lo t.hi _ _ (by decide) (by decide) (by decide) (by decide)
          (hkn _ (by simp)) s hs⟩
    · obtain ⟨j', e', he', rfl⟩ := mem_ivBodies num 0 t.es Z hZ
      apply clean_lines _ _ _ _ _ (by decide) (by decide) (by decide) (by decide) (notMem_tab2 _ (by decide)) htb
      intro s hs
      exact ⟨ivBody_free ivSA num hnum j' e' (by decide) (by decide) (hke e' he' _ (by simp)) s hs,
        ivBody_free ivSB num hnum j' e' (by decide) (by decide) (hke e' he' _ (by simp)) s hs⟩
  obtain ⟨ws, rest, hws, hp, hrest⟩ := piecesL_shape tab2
    (tierHead num k "IntervalTier".toList t.name t.lo t.hi "intervals".toList t.es.length) (ivBodies num 0 t.es) trail
  have hwsp : ∀ c ∈ ws, c = ' ' := by rcases hws with rfl | rfl; exact mem_tab2; exact htrail
  have hn := head_name num hnum k true t.name t.lo t.hi "intervals".toList t.es.length ws (by decide)
    (fun hm => absurd (hwsp _ hm) (by decide))
  simp only [if_true] at hn
  obtain ⟨hx1, hx2⟩ := rest_nums num hnum t.lo t.hi "intervals".toList t.es.length ws
  have hents : (rest.map List.toArray).mapM (readEntryLong true) = .ok (t.es.map fun e => [num e.s, num e.e, pyStrip e.l]) := by
    rw [hrest]
    cases hes : t.es with
    | nil => rfl
    | cons e es =>
      simp only [ivBodies]
      exact mapM_entries_iv num hnum trail htrail 0 e es
  simp only [readTierLong, hI, if_true, hsplit, hp, List.map_cons, List.headD_cons, List.drop_succ_cons, List.drop_zero,
    hn, hx1, hx2, hents, need, needP, bind, Except.bind, pure, Except.pure, unescape_name, toStr_toArray, rawTier, stripT,
    List.map_map, Function.comp_def]

/-! ## the class test `'class = "IntervalTier"' in tierTxt` cannot be fooled by a name or label

In a written row every quote of the text is doubled, so the only quotes with a non-quote on both sides are the two outer
ones; `class = "IntervalTier"` needs such a quote preceded by `s = `, and the rows are `name = "`, `mark = "`. -/

theorem escape_head_q (cs r : List Char) (h : escapeL cs = q :: r) : ∃ r', r = q :: r' := by
  cases cs with
  | nil => simp [escapeL] at h
  | cons c cs' =>
    by_cases hc : c = q
    · simp only [escapeL, hc, if_true, List.cons.injEq, true_and] at h
      exact ⟨_, h.symm⟩
    · simp only [escapeL, hc, if_false, List.cons.injEq] at h
      exact h.1.elim

theorem isolated_quote_escape (x y : Char) (s : List Char) (h : [x, q, y] <:+: escapeL s) : x = q ∨ y = q := by
  induction s with
  | nil => have := h.length_le; simp [escapeL] at this
  | cons c cs ih =>
    by_cases hc : c = q
    · simp only [escapeL, hc, if_true, List.infix_cons_iff, List.cons_prefix_cons] at h
      rcases h with h | h | h
      · exact Or.inl h.1
      · exact Or.inl h.1
      · exact ih h
    · simp only [escapeL, hc, if_false] at h
      rcases List.infix_cons_iff.1 h with h1 | h1
      · simp only [List.cons_prefix_cons] at h1
        cases he : escapeL cs with
        | nil => rw [he] at h1; simp at h1
        | cons d ds =>
          rw [he] at h1
          simp only [List.cons_prefix_cons] at h1
          have hd : d = q := h1.2.1.symm
          subst hd
          obtain ⟨r', hr'⟩ := escape_head_q cs ds he
          rw [hr'] at h1
          simp only [List.cons_prefix_cons] at h1
          exact Or.inr h1.2.2.1
      · exact ih h1

theorem infix_cons_split (c : Char) (pat X Y : List Char) (h : pat <:+: X ++ c :: Y) :
    pat <:+: X ∨ pat <:+: Y ∨ ∃ p1 p2, pat = p1 ++ c :: p2 ∧ p1 <:+ X ∧ p2 <+: Y := by
  induction X with
  | nil =>
    rcases List.infix_cons_iff.1 h with h1 | h1
    · cases pat with
      | nil => exact Or.inl (List.nil_infix)
      | cons p ps =>
        simp only [List.cons_prefix_cons] at h1
        exact Or.inr (Or.inr ⟨[], ps, by simp [h1.1], List.suffix_refl _, h1.2⟩)
    · exact Or.inr (Or.inl h1)
  | cons x xs ih =>
    rcases List.infix_cons_iff.1 h with h1 | h1
    · rcases prefix_append_cases pat (x :: xs) (c :: Y) h1 with h2 | ⟨y, hy, he, hyw⟩
      · exact Or.inl h2.isInfix
      · cases y with
        | nil => exact absurd rfl hy
        | cons y0 ys =>
          simp only [List.cons_prefix_cons] at hyw
          exact Or.inr (Or.inr ⟨x :: xs, ys, by rw [he, hyw.1], List.suffix_refl _, hyw.2⟩)
    · rcases ih h1 with h2 | h2 | ⟨p1, p2, he, hs, hp⟩
      · exact Or.inl (List.infix_cons h2)
      · exact Or.inr (Or.inl h2)
      · exact Or.inr (Or.inr ⟨p1, p2, he, hs.trans (List.suffix_cons _ _), hp⟩)

theorem split_unique (c : Char) (a b a' b' : List Char) (h : a ++ c :: b = a' ++ c :: b') (ha : c ∉ a) (ha' : c ∉ a') :
    a = a' ∧ b = b' := by
  induction a generalizing a' with
  | nil =>
    cases a' with
    | nil => simpa using h
    | cons x xs => simp only [List.nil_append, List.cons_append, List.cons.injEq] at h; exact absurd h.1 (fun e => ha' (by simp [e]))
  | cons y ys ih =>
    cases a' with
    | nil => simp only [List.nil_append, List.cons_append, List.cons.injEq] at h; exact absurd h.1.symm (fun e => ha (by simp [e]))
    | cons x xs =>
      simp only [List.cons_append, List.cons.injEq] at h
      obtain ⟨e1, e2⟩ := ih xs h.2 (fun e => ha (List.mem_cons_of_mem _ e)) (fun e => ha' (List.mem_cons_of_mem _ e))
      exact ⟨by rw [h.1, e1], e2⟩

/-! the class test, negative side: `class ?= ?"IntervalTier"` cannot match inside a written row -/

/-- the four literal forms the pattern `class ?= ?"IntervalTier"` matches -/
def pcG (b a : Bool) : List Char := classKw ++ (eqOf b a ++ iqL)
/-- the window `s ?= ?"I` of the pattern -/
def clsWG (b a : Bool) : List Char := ('s' :: eqOf b a) ++ '"' :: ['I']

theorem clsWG_infix (b a : Bool) : clsWG b a <:+: pcG b a := by
  cases b <;> cases a <;> exact ⟨"clas".toList, "ntervalTier\"".toList, by decide⟩

theorem scanL_some {β : Type} (kw : List Char) (f : List Char → Option β) (l : List Char) (x : β)
    (h : scanL kw f l = some x) : ∃ u v, l = u ++ (kw ++ v) ∧ f v = some x := by
  induction l with
  | nil => simp [scanL] at h
  | cons c cs ih =>
    simp only [scanL] at h
    split at h
    · rename_i hp
      cases hf : f ((c :: cs).drop kw.length) with
      | some y =>
        rw [hf] at h
        cases h
        refine ⟨[], (c :: cs).drop kw.length, ?_, hf⟩
        obtain ⟨t, ht⟩ := List.isPrefixOf_iff_prefix.1 hp
        rw [← ht]; simp
      | none =>
        rw [hf] at h
        obtain ⟨u, v, e, hv⟩ := ih h
        exact ⟨c :: u, v, by rw [e]; rfl, hv⟩
    · obtain ⟨u, v, e, hv⟩ := ih h
      exact ⟨c :: u, v, by rw [e]; rfl, hv⟩

theorem headLen_some (v : List Char) (h : Nat) (hh : headLen v = some h) : ∃ b a, v = eqOf b a ++ v.drop h := by
  cases v with
  | nil => simp [headLen, spLen] at hh
  | cons c v1 =>
    by_cases hc : c = ' '
    · subst hc
      cases v1 with
      | nil => simp [headLen, spLen] at hh
      | cons d v2 =>
        by_cases hd : d = '='
        · subst hd
          cases v2 with
          | nil => simp [headLen, spLen] at hh; subst hh; exact ⟨true, false, by simp [eqOf]⟩
          | cons e v3 =>
            by_cases he : e = ' '
            · subst he; simp [headLen, spLen] at hh; subst hh; exact ⟨true, true, by simp [eqOf]⟩
            · simp [headLen, spLen, he] at hh; subst hh; exact ⟨true, false, by simp [eqOf]⟩
        · simp [headLen, spLen, hd] at hh
    · by_cases hd : c = '='
      · subst hd
        cases v1 with
        | nil => simp [headLen, spLen] at hh; subst hh; exact ⟨false, false, by simp [eqOf]⟩
        | cons e v3 =>
          by_cases he : e = ' '
          · subst he; simp [headLen, spLen] at hh; subst hh; exact ⟨false, true, by simp [eqOf]⟩
          · simp [headLen, spLen, he] at hh; subst hh; exact ⟨false, false, by simp [eqOf]⟩
      · simp [headLen, spLen, hc, hd] at hh

/-- if no literal form of the pattern occurs, the class test fails -/
theorem classScan_none (l : List Char) (h : ∀ b a, ¬ pcG b a <:+: l) : scanL classKw classAfter l = none := by
  cases hs : scanL classKw classAfter l with
  | none => rfl
  | some x =>
    exfalso
    obtain ⟨u, v, e, hv⟩ := scanL_some _ _ _ _ hs
    unfold classAfter at hv
    cases hh : headLen v with
    | none => rw [hh] at hv; cases hv
    | some n =>
      rw [hh, Option.bind_some] at hv
      by_cases hp : iqL.isPrefixOf (v.drop n) = true
      · obtain ⟨b, a, hv2⟩ := headLen_some v n hh
        obtain ⟨t, ht⟩ := List.isPrefixOf_iff_prefix.1 hp
        refine h b a ⟨u, t, ?_⟩
        rw [e, hv2, ← ht]
        simp only [pcG, List.append_assoc]
      · rw [if_neg hp] at hv
        cases hv

/-- **the class pattern cannot match inside a written text row**: `pre key ?= ?"escaped text" tr`, for any of the forms
of ` ?= ?` in the pattern and in the row (every quote of the text is doubled; the row's key does not end in `s`) -/
theorem classPat_not_in_row (b a B A : Bool) (pre key : List Char) (s : String) (tr : List Char) (hpre : q ∉ pre)
    (hk : q ∉ key) (kl : Char) (kr : List Char) (hkey : key.reverse = kl :: kr) (hkl1 : kl ≠ 's') (hkl2 : kl ≠ ' ')
    (_hkl3 : kl ≠ '=') (htr : q ∉ tr) (htrI : 'I' ∉ tr) :
    ¬ pcG b a <:+: (pre ++ (key ++ eqOf B A)) ++ q :: (escapeL s.toList ++ q :: tr) := by
  intro hpc
  have hw := List.IsInfix.trans (clsWG_infix b a) hpc
  have hqe : ∀ x y : Bool, q ∉ eqOf x y := by intro x y; cases x <;> cases y <;> decide
  have hqX : q ∉ pre ++ (key ++ eqOf B A) := by
    simp only [List.mem_append, not_or]; exact ⟨hpre, hk, hqe B A⟩
  have hq1 : q ∉ 's' :: eqOf b a := by
    simp only [List.mem_cons, not_or]; exact ⟨by decide, hqe b a⟩
  have hlastI : (clsWG b a).getLast? = some 'I' := by cases b <;> cases a <;> decide
  rcases infix_cons_split q (clsWG b a) _ _ hw with h1 | h1 | ⟨p1, p2, he, hs, hp⟩
  · exact hqX (h1.subset (by simp [clsWG, q]))
  · rcases infix_cons_split q (clsWG b a) _ _ h1 with h2 | h2 | ⟨p1, p2, he, hs, hp⟩
    · -- inside the escaped text: a quote with a non-quote on both sides
      obtain ⟨x, front, hx, hxq⟩ : ∃ x front, clsWG b a = front ++ [x, q, 'I'] ∧ x ≠ q := by
        cases b <;> cases a
        · exact ⟨'=', ['s'], by decide, by decide⟩
        · exact ⟨' ', ['s', '='], by decide, by decide⟩
        · exact ⟨'=', ['s', ' '], by decide, by decide⟩
        · exact ⟨' ', ['s', ' ', '='], by decide, by decide⟩
      have h3 : [x, q, 'I'] <:+: escapeL s.toList := List.IsInfix.trans ⟨front, [], by rw [hx]; simp⟩ h2
      rcases isolated_quote_escape _ _ _ h3 with h4 | h4
      · exact hxq h4
      · exact absurd h4 (by decide)
    · exact htr (h2.subset (by simp [clsWG, q]))
    · have hl : (clsWG b a).getLast? = (p1 ++ q :: p2).getLast? := by rw [he]
      rw [List.getLast?_append, hlastI] at hl
      cases p2 with
      | nil => simp at hl; exact absurd hl (by decide)
      | cons y ys =>
        have hlast : ((q :: y :: ys).getLast?) = (y :: ys).getLast? := List.getLast?_cons_cons
        rw [hlast] at hl
        cases hyl : (y :: ys).getLast? with
        | none => simp at hyl
        | some z =>
          rw [hyl] at hl
          simp at hl
          have hz2 : z ∈ tr := hp.subset (List.mem_of_getLast? hyl)
          rw [← hl] at hz2
          exact htrI hz2
  · have hqp1 : q ∉ p1 := fun hm => hqX (hs.subset hm)
    have he' : ('s' :: eqOf b a) ++ q :: ['I'] = p1 ++ q :: p2 := he
    obtain ⟨e1, _⟩ := split_unique q _ _ _ _ he' hq1 hqp1
    subst e1
    obtain ⟨u, hu⟩ := hs
    have hrev : (eqOf b a).reverse ++ ['s'] <+: (eqOf B A).reverse ++ (kl :: (kr ++ pre.reverse)) := by
      have h1 : (pre ++ (key ++ eqOf B A)).reverse = (eqOf B A).reverse ++ (kl :: (kr ++ pre.reverse)) := by
        simp only [List.reverse_append, hkey, List.append_assoc, List.cons_append]
      rw [← h1, ← hu]
      simp
    unfold eqOf at hrev
    cases b <;> cases a <;> cases B <;> cases A <;> simp [List.cons_prefix_cons] at hrev
    all_goals first
      | exact hkl1 hrev.symm
      | exact hkl1 hrev.1.symm
      | exact hkl2 hrev.symm
      | exact hkl2 hrev.1.symm
      | exact hkl2 hrev.2.1.symm
      | exact hkl1 hrev.2.1.symm

/-- the class pattern does not match the class row of a point tier, `pre class ?= ?"TextTier" tr` -/
theorem classPat_not_in_textTierRow (b a B A : Bool) (pre tr : List Char) (hpre : q ∉ pre) (htr : q ∉ tr) (htrI : 'I' ∉ tr) :
    ¬ pcG b a <:+: (pre ++ (classKw ++ eqOf B A)) ++ q :: ("TextTier".toList ++ q :: tr) := by
  intro hpc
  have hw := List.IsInfix.trans (clsWG_infix b a) hpc
  have hqe : ∀ x y : Bool, q ∉ eqOf x y := by intro x y; cases x <;> cases y <;> decide
  have hqX : q ∉ pre ++ (classKw ++ eqOf B A) := by
    simp only [List.mem_append, not_or]; exact ⟨hpre, by decide, hqe B A⟩
  have hq1 : q ∉ 's' :: eqOf b a := by
    simp only [List.mem_cons, not_or]; exact ⟨by decide, hqe b a⟩
  have hqw : q ∈ clsWG b a := by simp [clsWG, q]
  have hT : "TextTier".toList = 'T' :: "extTier".toList := by rfl
  rcases infix_cons_split q (clsWG b a) _ _ hw with h1 | h1 | ⟨p1, p2, he, hs, hp⟩
  · exact hqX (h1.subset hqw)
  · rcases infix_cons_split q (clsWG b a) _ _ h1 with h2 | h2 | ⟨p1, p2, he, hs, hp⟩
    · exact absurd (h2.subset hqw) (by decide)
    · exact htr (h2.subset hqw)
    · have hqp1 : q ∉ p1 := fun hm => absurd (hs.subset hm) (by decide)
      have he' : ('s' :: eqOf b a) ++ q :: ['I'] = p1 ++ q :: p2 := he
      obtain ⟨_, e2⟩ := split_unique q _ _ _ _ he' hq1 hqp1
      subst e2
      exact htrI (hp.subset (by simp))
  · have hqp1 : q ∉ p1 := fun hm => hqX (hs.subset hm)
    have he' : ('s' :: eqOf b a) ++ q :: ['I'] = p1 ++ q :: p2 := he
    obtain ⟨_, e2⟩ := split_unique q _ _ _ _ he' hq1 hqp1
    subst e2
    rw [hT] at hp
    simp only [List.cons_append, List.cons_prefix_cons] at hp
    exact absurd hp.1 (by decide)

theorem mem_ptLines (num : α → String) (j : Nat) (ps : List (Pt α)) (s : List Char) (h : s ∈ ptLines num j ps) :
    ∃ j' p, p ∈ ps ∧ (s = tab2 ++ (ptA ++ idxL j') ∨ s = numRowL tab3 "number".toList (num p.t) ∨
      s = textRowL tab3 "mark".toList p.l) := by
  induction ps generalizing j with
  | nil => simp [ptLines] at h
  | cons p ps ih =>
    simp only [ptLines, List.mem_cons] at h
    rcases h with rfl | rfl | rfl | h
    · exact ⟨j, p, by simp, Or.inl rfl⟩
    · exact ⟨j, p, by simp, Or.inr (Or.inl rfl)⟩
    · exact ⟨j, p, by simp, Or.inr (Or.inr rfl)⟩
    · obtain ⟨j', p', hp, hs⟩ := ih (j + 1) h
      exact ⟨j', p', List.mem_cons_of_mem _ hp, hs⟩

theorem numRow_no_c (ind key : List Char) (w : String) (hw : LongNum w.toList) (hind : 'c' ∉ ind) (hkey : 'c' ∉ key) :
    'c' ∉ numRowL ind key w := by
  simp only [numRowL, eqL, List.mem_append, List.mem_cons, List.not_mem_nil, or_false, not_or]
  exact ⟨hind, hkey, ⟨by decide, by decide, by decide⟩, notMem_num _ hw 'c' (by decide), by decide⟩

/-- a point tier's text never matches `class ?= ?"IntervalTier"`, whatever its name and marks are -/
theorem class_not_in_point (num : α → String) (hnum : ∀ x, LongNum (num x).toList) (k : Nat) (t : PTier α) (trail : List Char)
    (htrail : ∀ c ∈ trail, c = ' ') : scanL classKw classAfter (tierBodyL num k (.P t) ++ trail) = none := by
  apply classScan_none
  intro b a h
  rw [tierBodyL_lines] at h
  have hc : 'c' ∈ pcG b a := by cases b <;> cases a <;> decide
  have hnl : '\n' ∉ pcG b a := by cases b <;> cases a <;> decide
  have hne : pcG b a ≠ [] := by cases b <;> cases a <;> decide
  rcases infix_lines (pcG b a) _ _ hnl hne h with ⟨s, hs, hin⟩ | hin
  · simp only [tierLines, headLines, List.cons_append, List.nil_append, List.mem_cons] at hs
    have t2 := notMem_tab2 'c' (by decide)
    have t3 := notMem_tab3 'c' (by decide)
    rcases hs with rfl | rfl | rfl | rfl | rfl | rfl | hs
    · exact not_infix_of_not_mem 'c' _ _ hc (notMem_idxL 'c' k (by decide) (by decide) (by decide)) hin
    · have e : classRow "TextTier".toList = (tab2 ++ (classKw ++ eqOf true true)) ++ q :: ("TextTier".toList ++ q :: [' ']) := by
        have e0 : "class = \"".toList = classKw ++ (eqOf true true ++ [q]) := by rfl
        simp only [classRow, e0, List.append_assoc, List.cons_append, List.nil_append]
        rfl
      rw [e] at hin
      exact classPat_not_in_textTierRow b a true true tab2 [' '] (notMem_tab2 _ (by decide)) (by decide) (by decide) hin
    · have e : textRowL tab2 "name".toList t.name =
          (tab2 ++ ("name".toList ++ eqOf true true)) ++ q :: (escapeL t.name.toList ++ q :: [' ']) := by
        simp only [textRowL, row, eqL, eqOf, if_true, List.append_assoc, List.cons_append, List.nil_append]
      rw [e] at hin
      exact classPat_not_in_row b a true true tab2 _ t.name [' '] (notMem_tab2 _ (by decide)) (by decide) 'e' ['m', 'a', 'n']
        (by decide) (by decide) (by decide) (by decide) (by decide) (by decide) hin
    · exact not_infix_of_not_mem 'c' _ _ hc (numRow_no_c _ _ _ (hnum t.lo) t2 (by decide)) hin
    · exact not_infix_of_not_mem 'c' _ _ hc (numRow_no_c _ _ _ (hnum t.hi) t2 (by decide)) hin
    · refine not_infix_of_not_mem 'c' _ _ hc ?_ hin
      simp only [sizeRow, List.mem_append, List.mem_cons, List.not_mem_nil, or_false, not_or]
      refine ⟨t2, by decide, by decide, ?_, by decide⟩
      intro hm
      rw [count_toList] at hm
      exact absurd (Nat.isDigit_of_mem_toDigits (by decide) (by decide) hm) (by decide)
    · obtain ⟨j', p, hp, hs | hs | hs⟩ := mem_ptLines num 0 t.ps s hs
      · subst hs
        refine not_infix_of_not_mem 'c' _ _ hc ?_ hin
        simp only [List.mem_append, not_or]
        exact ⟨t2, by decide, notMem_idxL 'c' j' (by decide) (by decide) (by decide)⟩
      · subst hs
        exact not_infix_of_not_mem 'c' _ _ hc (numRow_no_c _ _ _ (hnum p.t) t3 (by decide)) hin
      · subst hs
        have e : textRowL tab3 "mark".toList p.l =
            (tab3 ++ ("mark".toList ++ eqOf true true)) ++ q :: (escapeL p.l.toList ++ q :: [' ']) := by
          simp only [textRowL, row, eqL, eqOf, if_true, List.append_assoc, List.cons_append, List.nil_append]
        rw [e] at hin
        exact classPat_not_in_row b a true true tab3 _ p.l [' '] (notMem_tab3 _ (by decide)) (by decide) 'k' ['r', 'a', 'm']
          (by decide) (by decide) (by decide) (by decide) (by decide) (by decide) hin
  · exact not_infix_of_not_mem 'c' _ _ hc (fun hm => absurd (htrail _ hm) (by decide)) hin

/-- **(b) one written point tier is read back** from its `tierTxt` -/
theorem readTier_pt (num : α → String) (hnum : ∀ x, LongNum (num x).toList) (k : Nat) (t : PTier α) (trail : List Char)
    (htrail : ∀ c ∈ trail, c = ' ') (hkw : NoKwLong (.P t)) :
    readTierLong (tierBodyL num k (.P t) ++ trail).toArray = .ok (rawTier num (stripT (.P t))) := by
  have hkn : ∀ p ∈ [ptSA, ptSB], ¬ p <:+: t.name.toList := fun p hp =>
    hkw t.name (by simp [texts]) p (List.mem_cons_of_mem _ (List.mem_cons_of_mem _ hp))
  have hke : ∀ e ∈ t.ps, ∀ p ∈ [ptSA, ptSB], ¬ p <:+: e.l.toList := fun e he p hp =>
    hkw e.l (by simp only [texts, List.mem_cons, List.mem_map]; exact Or.inr ⟨e, he, rfl⟩) p
      (List.mem_cons_of_mem _ (List.mem_cons_of_mem _ hp))
  have htb : '[' ∉ trail := fun h => absurd (htrail _ h) (by decide)
  have hI : matchClass (tierBodyL num k (.P t) ++ trail).toArray = false := by
    rw [matchClass_eq, List.toList_toArray, class_not_in_point num hnum k t trail htrail]
    rfl
  have hsplit : splitKw (tierBodyL num k (.P t) ++ trail).toArray (lit "points") =
      (piecesL tab2 (tierHead num k "TextTier".toList t.name t.lo t.hi "points".toList t.ps.length)
        (ptBodies num 0 t.ps) trail).map List.toArray := by
    rw [splitKw_eq, lit_ptSA, lit_ptSB, List.toList_toArray]
    have e : tierBodyL num k (.P t) ++ trail =
        tierHead num k "TextTier".toList t.name t.lo t.hi "points".toList t.ps.length ++
          (itemsL tab2 ptSA (ptBodies num 0 t.ps) ++ trail) := by
      simp only [tierBodyL, ptItems_items, ptA_eq, List.append_assoc]
    rw [e]
    congr 1
    apply splitL_items 'p' _ _ tab2 _ _ trail (by decide) (by decide)
    intro Z hZ
    simp only [List.mem_cons] at hZ
    rcases hZ with rfl | hZ
    · apply clean_lines _ _ _ _ _ (by decide) (by decide) (by decide) (by decide) (notMem_tab2 _ (by decide)) htb
      intro s hs
      exact ⟨headLines_free ptSA num hnum k _ t.name t.lo t.hi _ _ (by decide) (by decide) (by decide) (by decide)
          (hkn _ (by simp)) s hs,
        headLines_free ptSB num hnum k _ t.name t.lo t.hi _ _ (by decide) (by decide) (by decide) (by decide)
          (hkn _ (by simp)) s hs⟩
    · obtain ⟨j', e', he', rfl⟩ := mem_ptBodies num 0 t.ps Z hZ
      apply clean_lines _ _ _ _ _ (by decide) (by decide) (by decide) (by decide) (notMem_tab2 _ (by decide)) htb
      intro s hs
      exact ⟨ptBody_free ptSA num hnum j' e' (by decide) (by decide) (hke e' he' _ (by simp)) s hs,
        ptBody_free ptSB num hnum j' e' (by decide) (by decide) (hke e' he' _ (by simp)) s hs⟩
  obtain ⟨ws, rest, hws, hp, hrest⟩ := piecesL_shape tab2
    (tierHead num k "TextTier".toList t.name t.lo t.hi "points".toList t.ps.length) (ptBodies num 0 t.ps) trail
  have hwsp : ∀ c ∈ ws, c = ' ' := by rcases hws with rfl | rfl; exact mem_tab2; exact htrail
  have hn := head_name num hnum k false t.name t.lo t.hi "points".toList t.ps.length ws (by decide)
    (fun hm => absurd (hwsp _ hm) (by decide))
  simp only [Bool.false_eq_true, if_false] at hn
  obtain ⟨hx1, hx2⟩ := rest_nums num hnum t.lo t.hi "points".toList t.ps.length ws
  have hents : (rest.map List.toArray).mapM (readEntryLong false) = .ok (t.ps.map fun p => [num p.t, pyStrip p.l]) := by
    rw [hrest]
    cases hes : t.ps with
    | nil => rfl
    | cons e es =>
      simp only [ptBodies]
      exact mapM_entries_pt num hnum trail htrail 0 e es
  simp only [readTierLong, hI, Bool.false_eq_true, if_false, hsplit, hp, List.map_cons, List.headD_cons, List.drop_succ_cons,
    List.drop_zero, hn, hx1, hx2, hents, need, needP, bind, Except.bind, pure, Except.pure, unescape_name, toStr_toArray, rawTier,
    stripT, List.map_map, Function.comp_def]

/-! ## the whole file: no `\r\n`, the header fields, the split at `item [` -/

theorem hasCRLF_pre (A B : List Char) (hA : '\r' ∉ A) : hasCRLF (A ++ B) = hasCRLF B := by
  induction A with
  | nil => rfl
  | cons c cs ih =>
    have hc : (c == '\r') = false := by simpa using fun e : c = '\r' => hA (by simp [e])
    rw [List.cons_append, hasCRLF_cons, hc, Bool.false_and, Bool.false_or]
    exact ih (fun e => hA (List.mem_cons_of_mem _ e))

theorem hasCRLF_lines_append (segs : List (List Char)) (B : List Char) (h : ∀ s ∈ segs, CrOK s) :
    hasCRLF (joinNl segs ++ B) = hasCRLF B := by
  induction segs with
  | nil => rfl
  | cons s ss ih =>
    simp only [joinNl, List.append_assoc, List.cons_append]
    rw [hasCRLF_line, h s (by simp), Bool.false_or]
    exact ih (fun x hx => h x (List.mem_cons_of_mem _ hx))

theorem crOK_textRow (ind key : List Char) (s : String) (hi : '\r' ∉ ind) (hk : '\r' ∉ key) (hs : hasCRLF s.toList = false) :
    CrOK (textRowL ind key s) := by
  unfold CrOK
  have e : textRowL ind key s ++ ['\n'] = (ind ++ (key ++ eqL)) ++ (q :: (escapeL s.toList ++ q :: [' ', '\n'])) := by
    simp only [textRowL, row, List.append_assoc, List.cons_append, List.nil_append]
  rw [e, hasCRLF_pre _ _ (by
    simp only [List.mem_append, not_or]; exact ⟨hi, hk, by decide⟩), hasCRLF_cons, hasCRLF_escape _ _ hs]
  simp [show (q == '\r') = false by decide, show hasCRLF [q, ' ', '\n'] = false by decide]

theorem numRow_no_cr (ind key : List Char) (w : String) (hw : LongNum w.toList) (hind : '\r' ∉ ind) (hkey : '\r' ∉ key) :
    '\r' ∉ numRowL ind key w := by
  simp only [numRowL, eqL, List.mem_append, List.mem_cons, List.not_mem_nil, or_false, not_or]
  exact ⟨hind, hkey, ⟨by decide, by decide, by decide⟩, notMem_num _ hw '\r' (by decide), by decide⟩

theorem mem_ivLines (num : α → String) (j : Nat) (es : List (Iv α)) (s : List Char) (h : s ∈ ivLines num j es) :
    ∃ j' e, e ∈ es ∧ (s = tab2 ++ (ivA ++ idxL j') ∨ s = numRowL tab3 "xmin".toList (num e.s) ∨
      s = numRowL tab3 "xmax".toList (num e.e) ∨ s = textRowL tab3 "text".toList e.l) := by
  induction es generalizing j with
  | nil => simp [ivLines] at h
  | cons e es ih =>
    simp only [ivLines, List.mem_cons] at h
    rcases h with rfl | rfl | rfl | rfl | h
    · exact ⟨j, e, by simp, Or.inl rfl⟩
    · exact ⟨j, e, by simp, Or.inr (Or.inl rfl)⟩
    · exact ⟨j, e, by simp, Or.inr (Or.inr (Or.inl rfl))⟩
    · exact ⟨j, e, by simp, Or.inr (Or.inr (Or.inr rfl))⟩
    · obtain ⟨j', e', he, hs⟩ := ih (j + 1) h
      exact ⟨j', e', List.mem_cons_of_mem _ he, hs⟩

/-- every line of a tier is: an index line, the class line, the size line, an entry header, a numeral row, or the row of a
name / label of the tier -/
theorem tierLines_all (num : α → String) (k : Nat) (t : AnyTier α) (P : List Char → Prop)
    (hidx : ∀ j, P (idxL j)) (hcls : P (classRow "IntervalTier".toList) ∧ P (classRow "TextTier".toList))
    (hsize : ∀ n, P (sizeRow "intervals".toList n) ∧ P (sizeRow "points".toList n))
    (hent : ∀ j, P (tab2 ++ (ivA ++ idxL j)) ∧ P (tab2 ++ (ptA ++ idxL j)))
    (hnumr : ∀ ind key x, (ind = tab2 ∨ ind = tab3) → key ∈ ["xmin".toList, "xmax".toList, "number".toList] →
      P (numRowL ind key (num x)))
    (htext : ∀ ind key s, (ind = tab2 ∨ ind = tab3) → key ∈ ["name".toList, "text".toList, "mark".toList] → s ∈ texts t →
      P (textRowL ind key s)) :
    ∀ s ∈ tierLines num k t, P s := by
  intro s hs
  cases t with
  | I t =>
    simp only [tierLines, headLines, List.cons_append, List.nil_append, List.mem_cons] at hs
    rcases hs with rfl | rfl | rfl | rfl | rfl | rfl | hs
    · exact hidx k
    · exact hcls.1
    · exact htext _ _ _ (Or.inl rfl) (by simp) (by simp [texts])
    · exact hnumr _ _ _ (Or.inl rfl) (by simp)
    · exact hnumr _ _ _ (Or.inl rfl) (by simp)
    · exact (hsize _).1
    · obtain ⟨j', e, he, hs | hs | hs | hs⟩ := mem_ivLines num 0 t.es s hs
      · subst hs; exact (hent j').1
      · subst hs; exact hnumr _ _ _ (Or.inr rfl) (by simp)
      · subst hs; exact hnumr _ _ _ (Or.inr rfl) (by simp)
      · subst hs; exact htext _ _ _ (Or.inr rfl) (by simp)
          (by simp only [texts, List.mem_cons, List.mem_map]; exact Or.inr ⟨e, he, rfl⟩)
  | P t =>
    simp only [tierLines, headLines, List.cons_append, List.nil_append, List.mem_cons] at hs
    rcases hs with rfl | rfl | rfl | rfl | rfl | rfl | hs
    · exact hidx k
    · exact hcls.2
    · exact htext _ _ _ (Or.inl rfl) (by simp) (by simp [texts])
    · exact hnumr _ _ _ (Or.inl rfl) (by simp)
    · exact hnumr _ _ _ (Or.inl rfl) (by simp)
    · exact (hsize _).2
    · obtain ⟨j', p, hp, hs | hs | hs⟩ := mem_ptLines num 0 t.ps s hs
      · subst hs; exact (hent j').2
      · subst hs; exact hnumr _ _ _ (Or.inr rfl) (by simp)
      · subst hs; exact htext _ _ _ (Or.inr rfl) (by simp)
          (by simp only [texts, List.mem_cons, List.mem_map]; exact Or.inr ⟨p, hp, rfl⟩)

theorem digits_no (c : Char) (n : Nat) (hc : c.isDigit = false) : c ∉ (toString n).toList := by
  intro hm
  rw [count_toList] at hm
  rw [Nat.isDigit_of_mem_toDigits (by decide) (by decide) hm] at hc
  cases hc

theorem tierLines_crOK (num : α → String) (hnum : ∀ x, LongNum (num x).toList) (k : Nat) (t : AnyTier α) (hcr : NoCRLF t) :
    ∀ s ∈ tierLines num k t, CrOK s := by
  have t2 := notMem_tab2 '\r' (by decide)
  have t3 := notMem_tab3 '\r' (by decide)
  have ix : ∀ j, '\r' ∉ idxL j := fun j => notMem_idxL '\r' j (by decide) (by decide) (by decide)
  apply tierLines_all num k t CrOK
  · exact fun j => crOK_of_no_cr _ (ix j)
  · exact ⟨crOK_of_no_cr _ (by decide), crOK_of_no_cr _ (by decide)⟩
  · intro n
    constructor <;> apply crOK_of_no_cr <;>
      simp only [sizeRow, List.mem_append, List.mem_cons, List.not_mem_nil, or_false, not_or] <;>
      exact ⟨t2, by decide, by decide, digits_no _ n (by decide), by decide⟩
  · intro j
    constructor <;> apply crOK_of_no_cr <;> simp only [List.mem_append, not_or] <;> exact ⟨t2, by decide, ix j⟩
  · intro ind key x hind hkey
    apply crOK_of_no_cr
    apply numRow_no_cr _ _ _ (hnum x)
    · rcases hind with rfl | rfl <;> assumption
    · simp only [List.mem_cons, List.not_mem_nil, or_false] at hkey
      rcases hkey with rfl | rfl | rfl <;> decide
  · intro ind key s hind hkey hs
    apply crOK_textRow _ _ _ _ _ (hcr s hs)
    · rcases hind with rfl | rfl <;> assumption
    · simp only [List.mem_cons, List.not_mem_nil, or_false] at hkey
      rcases hkey with rfl | rfl | rfl <;> decide

theorem tierLines_itemFree (num : α → String) (hnum : ∀ x, LongNum (num x).toList) (k : Nat) (t : AnyTier α)
    (hkw : NoKwLong t) : ∀ s ∈ tierLines num k t, ¬ itA <:+: s ∧ ¬ itB <:+: s := by
  have t2 := notMem_tab2 '[' (by decide)
  have t3 := notMem_tab3 '[' (by decide)
  have hbA : '[' ∈ itA := by decide
  have hbB : '[' ∈ itB := by decide
  have hmA : 'm' ∈ itA := by decide
  have hmB : 'm' ∈ itB := by decide
  apply tierLines_all num k t (fun s => ¬ itA <:+: s ∧ ¬ itB <:+: s)
  · exact fun j => ⟨not_infix_of_not_mem '[' _ _ hbA (idxL_noBracket j), not_infix_of_not_mem '[' _ _ hbB (idxL_noBracket j)⟩
  · exact ⟨⟨not_infix_of_not_mem '[' _ _ hbA (by decide), not_infix_of_not_mem '[' _ _ hbB (by decide)⟩,
      ⟨not_infix_of_not_mem '[' _ _ hbA (by decide), not_infix_of_not_mem '[' _ _ hbB (by decide)⟩⟩
  · intro n
    exact ⟨⟨not_infix_of_not_mem '[' _ _ hbA (sizeRow_noBracket _ n (by decide)),
        not_infix_of_not_mem '[' _ _ hbB (sizeRow_noBracket _ n (by decide))⟩,
      ⟨not_infix_of_not_mem '[' _ _ hbA (sizeRow_noBracket _ n (by decide)),
        not_infix_of_not_mem '[' _ _ hbB (sizeRow_noBracket _ n (by decide))⟩⟩
  · intro j
    have im := notMem_idxL 'm' j (by decide) (by decide) (by decide)
    have tm := notMem_tab2 'm' (by decide)
    have h1 : 'm' ∉ tab2 ++ (ivA ++ idxL j) := by simp only [List.mem_append, not_or]; exact ⟨tm, by decide, im⟩
    have h2 : 'm' ∉ tab2 ++ (ptA ++ idxL j) := by simp only [List.mem_append, not_or]; exact ⟨tm, by decide, im⟩
    exact ⟨⟨not_infix_of_not_mem 'm' _ _ hmA h1, not_infix_of_not_mem 'm' _ _ hmB h1⟩,
      ⟨not_infix_of_not_mem 'm' _ _ hmA h2, not_infix_of_not_mem 'm' _ _ hmB h2⟩⟩
  · intro ind key x hind hkey
    have hi : '[' ∉ ind := by rcases hind with rfl | rfl <;> assumption
    have hk : '[' ∉ key := by
      simp only [List.mem_cons, List.not_mem_nil, or_false] at hkey
      rcases hkey with rfl | rfl | rfl <;> decide
    exact ⟨not_infix_of_not_mem '[' _ _ hbA (numRow_noBracket _ _ _ (hnum x) hi hk),
      not_infix_of_not_mem '[' _ _ hbB (numRow_noBracket _ _ _ (hnum x) hi hk)⟩
  · intro ind key s hind hkey hs
    have hi : '[' ∉ ind := by rcases hind with rfl | rfl <;> assumption
    have hk : '[' ∉ key := by
      simp only [List.mem_cons, List.not_mem_nil, or_false] at hkey
      rcases hkey with rfl | rfl | rfl <;> decide
    exact ⟨textRow_free itA _ _ s (by decide) hbA hi hk (hkw s hs itA (by simp)),
      textRow_free itB _ _ s (by decide) hbB hi hk (hkw s hs itB (by simp))⟩

theorem tiersL_noCRLF (num : α → String) (hnum : ∀ x, LongNum (num x).toList) (k : Nat) (ts : List (AnyTier α))
    (hcr : ∀ t ∈ ts, NoCRLF t) : hasCRLF (tiersL num k ts) = false := by
  induction ts generalizing k with
  | nil => rfl
  | cons t ts ih =>
    simp only [tiersL]
    rw [← List.append_assoc, hasCRLF_pre _ _ (by
      simp only [List.mem_append, not_or]; exact ⟨notMem_tabL _ (by decide), by decide⟩),
      tierBodyL_lines, hasCRLF_lines_append _ _ (tierLines_crOK num hnum k t (hcr t (by simp)))]
    exact ih (k + 1) (fun x hx => hcr x (List.mem_cons_of_mem _ hx))

theorem longHdr_crOK (num : α → String) (hnum : ∀ x, LongNum (num x).toList) (lo hi : α) (n : Nat) :
    ∀ s ∈ longHdrSegs num lo hi n, CrOK s := by
  intro s hs
  simp only [longHdrSegs, List.mem_cons, List.not_mem_nil, or_false] at hs
  rcases hs with rfl | rfl | rfl | rfl | rfl | rfl | rfl
  · exact crOK_of_no_cr _ (by decide)
  · exact crOK_of_no_cr _ (by decide)
  · exact crOK_of_no_cr _ (by decide)
  · apply crOK_of_no_cr
    simp only [eqL, List.mem_append, List.mem_cons, List.not_mem_nil, or_false, not_or]
    exact ⟨by decide, ⟨by decide, by decide, by decide⟩, notMem_num _ (hnum lo) _ (by decide), by decide⟩
  · apply crOK_of_no_cr
    simp only [eqL, List.mem_append, List.mem_cons, List.not_mem_nil, or_false, not_or]
    exact ⟨by decide, ⟨by decide, by decide, by decide⟩, notMem_num _ (hnum hi) _ (by decide), by decide⟩
  · exact crOK_of_no_cr _ (by decide)
  · apply crOK_of_no_cr
    simp only [List.mem_append, List.mem_cons, List.not_mem_nil, or_false, not_or]
    exact ⟨by decide, digits_no _ n (by decide), by decide⟩

/-- a written long-format file contains no `\r\n` -/
theorem fileLong_noCRLF (num : α → String) (hnum : ∀ x, LongNum (num x).toList) (g : Tg α) (lo hi : α)
    (hcr : ∀ t ∈ g.tiers, NoCRLF t) : hasCRLF (fileLong num g lo hi) = false := by
  unfold fileLong
  rw [hasCRLF_lines_append _ _ (longHdr_crOK num hnum lo hi _), ← List.append_assoc, hasCRLF_pre _ _ (by decide)]
  exact tiersL_noCRLF num hnum 0 g.tiers hcr

/-! ## header fields -/

theorem splitChar_go_nosep (sep : Char) (l cur : List Char) (acc : List Txt) (h : sep ∉ l) :
    splitChar.go sep l cur acc = ((cur.reverse ++ l).toArray :: acc).reverse := by
  induction l generalizing cur with
  | nil => simp [splitChar.go]
  | cons x xs ih =>
    have hx : (x == sep) = false := by simpa using fun e : x = sep => h (by simp [e])
    simp only [splitChar.go, hx, Bool.false_eq_true, if_false]
    rw [ih (x :: cur) (fun e => h (List.mem_cons_of_mem _ e))]
    simp

theorem splitChar_two (sep : Char) (X Y : List Char) (hX : sep ∉ X) (hY : sep ∉ Y) :
    splitChar (X ++ sep :: Y).toArray sep = [X.toArray, Y.toArray] := by
  unfold splitChar
  rw [List.toList_toArray, splitChar_go_seg sep X Y [] [] hX, splitChar_go_nosep sep Y [] _ hY]
  simp

theorem stripList_pad (w : List Char) (hne : w ≠ []) (hw : NoEdgeSpace w) : stripList (' ' :: (w ++ [' '])) = w := by
  unfold stripList
  obtain ⟨a, as, rfl⟩ : ∃ a as, w = a :: as := by
    cases w with
    | nil => exact absurd rfl hne
    | cons a as => exact ⟨a, as, rfl⟩
  have h1 : stripL (' ' :: (a :: as ++ [' '])) = a :: as ++ [' '] := by
    simp only [stripL, show pyIsSpace ' ' = true by decide, if_true, List.cons_append, hw.1 a as rfl, Bool.false_eq_true,
      if_false]
  rw [h1]
  have h2 : (a :: as ++ [' ']).reverse = ' ' :: (a :: as).reverse := by simp
  rw [h2]
  cases hr : (a :: as).reverse with
  | nil => simp at hr
  | cons d ds =>
    have hd : (a :: as).getLast? = some d := by
      have := List.head?_reverse (l := a :: as); rw [hr] at this; simpa using this.symm
    simp only [stripL, show pyIsSpace ' ' = true by decide, if_true, hw.2 d hd, Bool.false_eq_true, if_false]
    rw [← hr, List.reverse_reverse]

theorem LongNum.noEdge {w : List Char} (h : LongNum w) : NoEdgeSpace w :=
  noEdge_of_all w fun c hc => by
    have := h.chars c hc
    cases hs : pyIsSpace c with
    | false => rfl
    | true =>
      exfalso
      simp only [numChar, Bool.or_eq_true, beq_iff_eq] at this
      rcases this with ((((h1 | h1) | h1) | h1) | h1) | h1
      · rw [digit_not_space c h1] at hs; cases hs
      all_goals (subst h1; exact absurd hs (by decide))

/-- `headerList[k].split("=")[1].strip()` on a written `xmin = W ` / `xmax = W ` line -/
theorem headerField_written (hl : List Txt) (k : Nat) (key : List Char) (w : String) (hw : LongNum w.toList)
    (hk : '=' ∉ key) (hline : hl[k]? = some (key ++ (eqL ++ (w.toList ++ [' ']))).toArray) :
    headerField hl k = .ok w.toList.toArray := by
  have e : key ++ (eqL ++ (w.toList ++ [' '])) = (key ++ [' ']) ++ '=' :: (' ' :: (w.toList ++ [' '])) := by
    simp [eqL]
  have h1 : '=' ∉ key ++ [' '] := by simp only [List.mem_append, List.mem_cons, List.not_mem_nil, or_false, not_or]; exact ⟨hk, by decide⟩
  have h2 : '=' ∉ ' ' :: (w.toList ++ [' ']) := by
    simp only [List.mem_cons, List.mem_append, List.not_mem_nil, or_false, not_or]
    exact ⟨by decide, notMem_num _ hw '=' (by decide), by decide⟩
  simp only [headerField, nth?, hline, bind, Except.bind, pure, Except.pure]
  rw [e, splitChar_two '=' _ _ h1 h2]
  simp only [List.getElem?_cons_succ, List.getElem?_cons_zero, strip_toArray, stripList_pad _ hw.ne_nil hw.noEdge]

/-! ## the split at `item [` and the assembly -/

def tierBodies (num : α → String) : Nat → List (AnyTier α) → List (List Char)
  | _, [] => []
  | k, t :: ts => tierBodyL num k t :: tierBodies num (k + 1) ts

theorem itemA_eq : itemA = itA := by rfl
theorem lit_itA : (lit "item").toList ++ [' ', '['] = itA := by rfl
theorem lit_itB : (lit "item").toList ++ ['['] = itB := by rfl

theorem tiersL_items (num : α → String) (k : Nat) (ts : List (AnyTier α)) :
    tiersL num k ts = itemsL tabL itA (tierBodies num k ts) := by
  induction ts generalizing k with
  | nil => rfl
  | cons t ts ih => simp only [tiersL, tierBodies, itemsL, ih, itemA_eq]

theorem mem_tierBodies (num : α → String) (k : Nat) (ts : List (AnyTier α)) (Z : List Char) (h : Z ∈ tierBodies num k ts) :
    ∃ k' t, t ∈ ts ∧ Z = tierBodyL num k' t := by
  induction ts generalizing k with
  | nil => simp [tierBodies] at h
  | cons t ts ih =>
    simp only [tierBodies, List.mem_cons] at h
    rcases h with rfl | h
    · exact ⟨k, t, by simp, rfl⟩
    · obtain ⟨k', t', ht, hz⟩ := ih (k + 1) h
      exact ⟨k', t', List.mem_cons_of_mem _ ht, hz⟩

/-- **(b) any written tier is read back** from its `tierTxt` with every label STRIPPED (`str.strip()`: the reader's
`label.strip()`), name and everything else unchanged — no hypothesis on labels -/
theorem readTier_written_strip (num : α → String) (hnum : ∀ x, LongNum (num x).toList) (k : Nat) (t : AnyTier α) (trail : List Char)
    (htrail : ∀ c ∈ trail, c = ' ') (hkw : NoKwLong t) :
    readTierLong (tierBodyL num k t ++ trail).toArray = .ok (rawTier num (stripT t)) := by
  cases t with
  | I t => exact readTier_iv num hnum k t trail htrail hkw
  | P t => exact readTier_pt num hnum k t trail htrail hkw

/-- **(b) any written tier is read back** from its `tierTxt` (strip-invariant labels: the corollary) -/
theorem readTier_written (num : α → String) (hnum : ∀ x, LongNum (num x).toList) (k : Nat) (t : AnyTier α) (trail : List Char)
    (htrail : ∀ c ∈ trail, c = ' ') (hkw : NoKwLong t) (hlab : StrippedLabels t) :
    readTierLong (tierBodyL num k t ++ trail).toArray = .ok (rawTier num t) := by
  rw [readTier_written_strip num hnum k t trail htrail hkw, stripT_of_stripped t hlab]

theorem mapM_tiers (num : α → String) (hnum : ∀ x, LongNum (num x).toList) (k : Nat) (t : AnyTier α) (ts : List (AnyTier α))
    (hkw : ∀ x ∈ t :: ts, NoKwLong x) :
    ((piecesL tabL (tierBodyL num k t) (tierBodies num (k + 1) ts) []).map List.toArray).mapM readTierLong =
      .ok ((t :: ts).map fun t => rawTier num (stripT t)) := by
  induction ts generalizing k t with
  | nil =>
    simp only [tierBodies, piecesL, List.map_cons, List.map_nil, List.mapM_cons, List.mapM_nil,
      readTier_written_strip num hnum k t [] (by simp) (hkw t (by simp)), bind, Except.bind,
      pure, Except.pure]
  | cons t2 ts ih =>
    have h2 := ih (k + 1) t2 (fun x hx => hkw x (List.mem_cons_of_mem _ hx))
    simp only [tierBodies, piecesL, List.map_cons, List.mapM_cons,
      readTier_written_strip num hnum k t tabL mem_tabL (hkw t (by simp)), bind, Except.bind,
      pure, Except.pure] at h2 ⊢
    rw [h2]

theorem longHdr_itemFree (num : α → String) (hnum : ∀ x, LongNum (num x).toList) (lo hi : α) (n : Nat) :
    ∀ s ∈ longHdrSegs num lo hi n, ¬ itA <:+: s ∧ ¬ itB <:+: s := by
  intro s hs
  have hbA : '[' ∈ itA := by decide
  have hbB : '[' ∈ itB := by decide
  have key : '[' ∉ s := by
    simp only [longHdrSegs, List.mem_cons, List.not_mem_nil, or_false] at hs
    rcases hs with rfl | rfl | rfl | rfl | rfl | rfl | rfl
    · decide
    · decide
    · decide
    · simp only [eqL, List.mem_append, List.mem_cons, List.not_mem_nil, or_false, not_or]
      exact ⟨by decide, ⟨by decide, by decide, by decide⟩, notMem_num _ (hnum lo) _ (by decide), by decide⟩
    · simp only [eqL, List.mem_append, List.mem_cons, List.not_mem_nil, or_false, not_or]
      exact ⟨by decide, ⟨by decide, by decide, by decide⟩, notMem_num _ (hnum hi) _ (by decide), by decide⟩
    · decide
    · simp only [List.mem_append, List.mem_cons, List.not_mem_nil, or_false, not_or]
      exact ⟨by decide, digits_no _ n (by decide), by decide⟩
  exact ⟨not_infix_of_not_mem '[' _ _ hbA key, not_infix_of_not_mem '[' _ _ hbB key⟩

theorem longHdr_noNl (num : α → String) (hnum : ∀ x, LongNum (num x).toList) (lo hi : α) (n : Nat) :
    ∀ s ∈ longHdrSegs num lo hi n, '\n' ∉ s := by
  intro s hs
  simp only [longHdrSegs, List.mem_cons, List.not_mem_nil, or_false] at hs
  rcases hs with rfl | rfl | rfl | rfl | rfl | rfl | rfl
  · decide
  · decide
  · decide
  · simp only [eqL, List.mem_append, List.mem_cons, List.not_mem_nil, or_false, not_or]
    exact ⟨by decide, ⟨by decide, by decide, by decide⟩, notMem_num _ (hnum lo) _ (by decide), by decide⟩
  · simp only [eqL, List.mem_append, List.mem_cons, List.not_mem_nil, or_false, not_or]
    exact ⟨by decide, ⟨by decide, by decide, by decide⟩, notMem_num _ (hnum hi) _ (by decide), by decide⟩
  · decide
  · simp only [List.mem_append, List.mem_cons, List.not_mem_nil, or_false, not_or]
    exact ⟨by decide, digits_no _ n (by decide), by decide⟩

def r0L : List Char := "]: \n".toList

/-- **(c) the split at `item [`**: the header, the remainder of the `item []:` line, then one piece per tier -/
theorem split_file (num : α → String) (hnum : ∀ x, LongNum (num x).toList) (g : Tg α) (lo hi : α)
    (hkw : ∀ t ∈ g.tiers, NoKwLong t) :
    splitL itA itB 0 (fileLong num g lo hi) [] =
      joinNl (longHdrSegs num lo hi g.tiers.length) :: piecesL tabL r0L (tierBodies num 0 g.tiers) [] ∧
    splitL itA itB 0 (r0L ++ tiersL num 0 g.tiers) [] = piecesL tabL r0L (tierBodies num 0 g.tiers) [] := by
  have hrest : splitL itA itB 0 (r0L ++ tiersL num 0 g.tiers) [] = piecesL tabL r0L (tierBodies num 0 g.tiers) [] := by
    have e : r0L ++ tiersL num 0 g.tiers = r0L ++ (itemsL tabL itA (tierBodies num 0 g.tiers) ++ []) := by
      rw [tiersL_items, List.append_nil]
    rw [e]
    apply splitL_items 'i' _ _ tabL _ _ [] (by decide) (by decide)
    intro Z hZ
    simp only [List.mem_cons] at hZ
    rcases hZ with rfl | hZ
    · have : r0L = joinNl ["]: ".toList] := by rfl
      rw [this]
      apply clean_lines _ _ _ _ _ (by decide) (by decide) (by decide) (by decide) (notMem_tabL _ (by decide)) (by simp)
      intro s hs
      simp only [List.mem_cons, List.not_mem_nil, or_false] at hs
      subst hs
      exact ⟨not_infix_of_not_mem '[' _ _ (by decide) (by decide), not_infix_of_not_mem '[' _ _ (by decide) (by decide)⟩
    · obtain ⟨k', t, ht, rfl⟩ := mem_tierBodies num 0 g.tiers Z hZ
      rw [tierBodyL_lines]
      apply clean_lines _ _ _ _ _ (by decide) (by decide) (by decide) (by decide) (notMem_tabL _ (by decide)) (by simp)
      exact tierLines_itemFree num hnum k' t (hkw t ht)
  refine ⟨?_, hrest⟩
  unfold fileLong
  rw [itemA_eq]
  have hno : NoHit itA itB (joinNl (longHdrSegs num lo hi g.tiers.length)) (itA ++ (r0L ++ tiersL num 0 g.tiers)) := by
    apply noHit_of_not_infix 'i' _ _ _ _ (by decide) (by decide) (Or.inr rfl)
    · intro h
      have h' : itA <:+: joinNl (longHdrSegs num lo hi g.tiers.length) ++ [] := by rw [List.append_nil]; exact h
      rcases infix_lines itA _ [] (by decide) (by decide) h' with ⟨s, hs, hin⟩ | hin
      · exact (longHdr_itemFree num hnum lo hi _ s hs).1 hin
      · have := hin.length_le; simp [itA] at this
    · intro h
      have h' : itB <:+: joinNl (longHdrSegs num lo hi g.tiers.length) ++ [] := by rw [List.append_nil]; exact h
      rcases infix_lines itB _ [] (by decide) (by decide) h' with ⟨s, hs, hin⟩ | hin
      · exact (longHdr_itemFree num hnum lo hi _ s hs).2 hin
      · have := hin.length_le; simp [itB] at this
  have e0 : "]: \n".toList = r0L := rfl
  rw [e0, splitL_noHit _ _ _ _ _ hno, splitL_hit _ _ _ _ (by decide), hrest]
  simp

theorem slice_to_end (s : Txt) (i : Nat) (a : List Char) (h : s.toList.drop i = a) : slice s i s.size = a.toArray := by
  have h1 := slice_of_drop s i a [] (by rw [h, List.append_nil])
  by_cases hi : i ≤ s.size
  · have : i + a.length = s.size := by
      have := congrArg List.length h
      simp only [List.length_drop, Array.length_toList] at this; omega
    rw [← this]; exact h1
  · have ha : a = [] := by
      rw [← h]; apply List.drop_eq_nil_of_le; simp only [Array.length_toList]; omega
    subst ha
    apply Array.toList_inj.1
    unfold slice
    rw [Array.toList_extract, List.extract_eq_take_drop]
    rw [List.drop_eq_nil_of_le (by simp only [Array.length_toList]; omega)]
    simp

theorem hdr3 (num : α → String) (lo hi : α) (n : Nat) :
    ((longHdrSegs num lo hi n).map List.toArray ++ [#[]])[3]? =
      some ("xmin".toList ++ (eqL ++ ((num lo).toList ++ [' ']))).toArray := rfl
theorem hdr4 (num : α → String) (lo hi : α) (n : Nat) :
    ((longHdrSegs num lo hi n).map List.toArray ++ [#[]])[4]? =
      some ("xmax".toList ++ (eqL ++ ((num hi).toList ++ [' ']))).toArray := rfl

/-- **C01, long format, whole file, EVERY label**: praatio's long-format reader (`_parseNormalTextgrid`) applied to the text
praatio's long-format emitter writes for ANY textgrid (any number of tiers, also none; any number of entries) returns that
textgrid with `str.strip()` applied to every label (`stripTg`: the reader's own `label.strip()`; names verbatim) and nothing else
changed — the same form as the short-format `parseShort_emit_strip`; for the labels of in-memory textgrids, which the tier
constructors strip, that is exactly the textgrid (`parseLong_emit`) — under the hypotheses: numerals match the reader's captured group `-?[\d.]+(?:[eE][-+]?\d+)?`; no name or label
contains `item [`, `item[` or the entry separator of its own tier class (A10); no `\r\n` in names and
labels.  Labels need NOT be strip-invariant.  Tier NAMES are otherwise arbitrary: blanks at either end, line breaks, lines that read like rows of the format.

The hypotheses, classified: `hnum` — a property of the numeral renderer, true of CPython's `repr` / `"%d"` for every finite
float, NEGATIVE ones and `-0.0` included (the sign used to be lost or to raise: defect A30, fixed — see `LongNum`);
`hkw` — known reader defect A10, needed (`parseLong_keyword_counterexample`); the former `hlab`
(labels strip-invariant) is gone: replayed on praatio with a hand-built dictionary, the labels `" x \n"`, `"\t\"q\" "`, `"  m\n\n"`
come back as `x`, `"q"`, `m` from the long AND the short format and nothing else is lost (tier NAMES are not stripped by this
reader, see the `#guard` on `" a "` below); there is no hypothesis on names beyond `hkw`: "names are single-line"
was needed until fix A32 (no DOTALL in the name pattern), its weakening `NameRowFree` until fix A33 (the tier's span rows were
searched from the top of the header, through the name) — `parseLong_name_newline_regression`, `parseLong_name_row_regression`;
`hcr` — C01 quantifies over texts without carriage returns (`NoCRLF` is weaker: a lone `\r` is allowed and survives at
this level — `io.open`'s universal newlines turn it into `\n` when the file is read from disk). -/
theorem parseLong_emit_strip (num : α → String) (hnum : ∀ x, LongNum (num x).toList) (g : Tg α) (lo hi : α)
    (hkw : ∀ t ∈ g.tiers, NoKwLong t)
    (hcr : ∀ t ∈ g.tiers, NoCRLF t) :
    Rd.parseLong (Txt.ofString (tgToLong num g lo hi)) = .ok (rawOf num (stripTg g) lo hi) := by
  have hfile : Txt.ofString (tgToLong num g lo hi) = (fileLong num g lo hi).toArray := by
    unfold Txt.ofString; rw [emitLong_toList]
  rw [hfile]
  obtain ⟨hs1, hs2⟩ := split_file num hnum g lo hi hkw
  obtain ⟨ws, restP, hws, hp, hrestP⟩ := piecesL_shape tabL r0L (tierBodies num 0 g.tiers) []
  generalize hH : joinNl (longHdrSegs num lo hi g.tiers.length) = H0 at hs1
  have hfl : fileLong num g lo hi = H0 ++ (itemA ++ (r0L ++ tiersL num 0 g.tiers)) := by rw [← hH]; rfl
  generalize hdata : (fileLong num g lo hi).toArray = data
  have hdl : data.toList = fileLong num g lo hi := by rw [← hdata]
  have hrep : replace data (lit "\r\n") (lit "\n") = data := by
    apply replace_id _ _ _ (by decide)
    rw [lit_crlf, hdl]
    exact no_crlf_of_hasCRLF _ (fileLong_noCRLF num hnum g lo hi hcr)
  have hsp : splitKw data (lit "item") = H0.toArray :: ((r0L ++ ws).toArray :: restP.map List.toArray) := by
    rw [splitKw_eq, lit_itA, lit_itB, hdl, hs1, hp]; rfl
  have hdrop : data.toList.drop H0.toArray.size = itemA ++ (r0L ++ tiersL num 0 g.tiers) := by
    rw [hdl, hfl, List.size_toArray, List.drop_left]
  have hst : startsAt data (lit "item [") H0.toArray.size = true := by
    rw [startsAt_eq _ _ _ (by
      have := congrArg List.length hdrop
      simp only [List.length_drop, Array.length_toList, List.length_append] at this
      have h6 : itemA.length = 6 := by decide
      omega), hdrop]
    exact List.isPrefixOf_iff_prefix.2 (List.prefix_append _ _)
  have hrest : slice data (H0.toArray.size + 6) data.size = (r0L ++ tiersL num 0 g.tiers).toArray := by
    apply slice_to_end
    have := drop_add_of_drop data.toList H0.toArray.size itemA _ hdrop
    have h6 : itemA.length = 6 := by decide
    rw [h6] at this; exact this
  have hhl : splitChar H0.toArray '\n' = (longHdrSegs num lo hi g.tiers.length).map List.toArray ++ [#[]] := by
    rw [← hH]; exact splitChar_joinNl _ (longHdr_noNl num hnum lo hi _)
  have hf3 := headerField_written _ 3 "xmin".toList (num lo) (hnum lo) (by decide) (hdr3 num lo hi g.tiers.length)
  have hf4 := headerField_written _ 4 "xmax".toList (num hi) (hnum hi) (by decide) (hdr4 num lo hi g.tiers.length)
  have hsp2 : splitKw (r0L ++ tiersL num 0 g.tiers).toArray (lit "item") = (r0L ++ ws).toArray :: restP.map List.toArray := by
    rw [splitKw_eq, lit_itA, lit_itB, List.toList_toArray, hs2, hp]; rfl
  have htiers : (restP.map List.toArray).mapM readTierLong = .ok (g.tiers.map fun t => rawTier num (stripT t)) := by
    rw [hrestP]
    cases hts : g.tiers with
    | nil => rfl
    | cons t ts =>
      simp only [tierBodies]
      exact mapM_tiers num hnum 0 t ts (fun x hx => hkw x (by rw [hts]; exact hx))
  unfold Rd.parseLong
  simp only [hrep, hsp, hst, if_true, hrest, hhl, hf3, hf4, hsp2, List.drop_succ_cons, List.drop_zero, htiers, bind,
    Except.bind, pure, Except.pure, toStr_toArray, rawOf, stripTg, List.map_map, Function.comp_def]

/-- **C01, long format, whole file** for strip-invariant labels (which the tier constructors enforce): the reader returns
exactly the textgrid that was written — the corollary of `parseLong_emit_strip` (`hlab`: enforced by the `IntervalTier` /
`PointTier` constructors and `insertEntry`; without it the labels come back stripped and nothing else changes). -/
theorem parseLong_emit (num : α → String) (hnum : ∀ x, LongNum (num x).toList) (g : Tg α) (lo hi : α)
    (hkw : ∀ t ∈ g.tiers, NoKwLong t) (hlab : ∀ t ∈ g.tiers, StrippedLabels t)
    (hcr : ∀ t ∈ g.tiers, NoCRLF t) :
    Rd.parseLong (Txt.ofString (tgToLong num g lo hi)) = .ok (rawOf num g lo hi) := by
  rw [parseLong_emit_strip num hnum g lo hi hkw hcr, stripTg_of_stripped g hlab]

/-! ## the keyword hypothesis, exactly; non-vacuity; what must be excluded -/

theorem prefix_escape_of_prefix (pat s : List Char) (hq : q ∉ pat) (h : pat <+: s) : pat <+: escapeL s := by
  induction pat generalizing s with
  | nil => exact List.nil_prefix
  | cons p ps ih =>
    have hp : p ≠ q := fun e => hq (by simp [e])
    cases s with
    | nil => simp at h
    | cons c cs =>
      simp only [List.cons_prefix_cons] at h
      have hc : c ≠ q := by rw [← h.1]; exact hp
      simp only [escapeL, hc, if_false, List.cons_prefix_cons]
      exact ⟨h.1, ih cs (fun e => hq (List.mem_cons_of_mem _ e)) h.2⟩

theorem infix_escape_of_infix (pat s : List Char) (hq : q ∉ pat) (h : pat <:+: s) : pat <:+: escapeL s := by
  induction s with
  | nil => simpa [escapeL] using h
  | cons c cs ih =>
    rcases List.infix_cons_iff.1 h with h1 | h1
    · exact (prefix_escape_of_prefix _ _ hq h1).isInfix
    · have := ih h1
      by_cases hc : c = q
      · simp only [escapeL, hc, if_true]; exact List.infix_cons (List.infix_cons this)
      · simp only [escapeL, hc, if_false]; exact List.infix_cons this

/-- **`NoKwLong`, exactly**: a separator (it has no quote) occurs in the WRITTEN row `"` ++ escape s ++ `"` iff it occurs
in the plain name/label `s` -/
theorem sep_in_row_iff (pat : List Char) (s : String) (hq : q ∉ pat) (hne : pat ≠ []) :
    pat <:+: row s ↔ pat <:+: s.toList := by
  constructor
  · intro h
    have e : row s = [] ++ q :: (escapeL s.toList ++ q :: []) := by simp [row]
    rw [e] at h
    rcases infix_sep q pat _ _ hq hne h with h1 | h1
    · exact absurd (List.infix_nil.1 h1) hne
    · rcases infix_sep q pat _ _ hq hne h1 with h2 | h2
      · exact infix_escape_quote_free pat _ hq hne h2
      · exact absurd (List.infix_nil.1 h2) hne
  · intro h
    have := infix_escape_of_infix pat _ hq h
    unfold row
    exact List.infix_cons (List.IsInfix.trans this (List.infix_append' [] _ [q]))

/-- simple sufficient condition: names and labels without an opening square bracket -/
theorem noKwLong_of_no_bracket (t : AnyTier α) (h : ∀ s ∈ texts t, '[' ∉ s.toList) : NoKwLong t := by
  intro s hs p hp
  have hb : '[' ∈ p := by
    cases t <;> simp only [entrySeps, List.mem_cons, List.not_mem_nil, or_false] at hp <;>
      rcases hp with rfl | rfl | rfl | rfl <;> decide
  exact not_infix_of_not_mem '[' p _ hb (h s hs)

theorem numN_long (n : Nat) : LongNum (numN n).toList := by
  apply LongNum.pos
  apply UNum.plain
  · rw [numN, count_toList]; exact Nat.toDigits_ne_nil
  · intro c hc
    rw [numN, count_toList] at hc
    simp [isDigitDot, Nat.isDigit_of_mem_toDigits (by decide) (by decide) hc]

theorem sample_long_hyps :
    (∀ t ∈ sampleTg.tiers, NoKwLong t) ∧ (∀ t ∈ sampleTg.tiers, StrippedLabels t) ∧
      (∀ t ∈ sampleTg.tiers, NoCRLF t) := by
  refine ⟨?_, ?_, sample_hyps.2.2.2⟩
  · intro t ht
    apply noKwLong_of_no_bracket
    simp only [sampleTg, List.mem_cons, List.not_mem_nil, or_false] at ht
    rcases ht with rfl | rfl <;> intro s hs <;>
      simp only [texts, List.map_cons, List.map_nil, List.mem_cons, List.not_mem_nil, or_false] at hs
    · rcases hs with rfl | rfl | rfl | rfl <;> decide
    · rcases hs with rfl | rfl <;> decide
  · intro t ht s hs
    apply sample_hyps.2.2.1 t ht s
    cases t <;> simp only [labelsOf, texts, List.mem_cons] at hs ⊢ <;> exact Or.inr hs

/-- non-vacuity: the whole-file theorem applies to the two-tier sample of C01Full (quotes, doubled quotes, newline) -/
theorem sample_long_read_back :
    Rd.parseLong (Txt.ofString (tgToLong numN sampleTg 0 5)) = .ok (rawOf numN sampleTg 0 5) :=
  parseLong_emit numN numN_long sampleTg 0 5 sample_long_hyps.1 sample_long_hyps.2.1 sample_long_hyps.2.2

def longOK (ts : List (AnyTier Nat)) : Bool :=
  rawEq (Rd.parseLong (Txt.ofString (tgToLong numN ⟨ts, none, none⟩ 0 9))) (rawOf numN ⟨ts, none, none⟩ 0 9)
def ivT (name l : String) : AnyTier Nat := .I ⟨name, [⟨0, 1, l⟩, ⟨1, 2, "z"⟩], 0, 9⟩
def ptT (name l : String) : AnyTier Nat := .P ⟨name, [⟨0, l⟩, ⟨1, "z"⟩], 0, 9⟩

-- running the reader model on emitted text
#guard rawEq (Rd.parseLong (Txt.ofString (tgToLong numN sampleTg 0 5))) (rawOf numN sampleTg 0 5)
#guard longOK [] && longOK [.P ⟨"p", [], 0, 9⟩] && longOK [.I ⟨"a", [], 0, 9⟩, .P ⟨"\"", [], 0, 9⟩]
-- labels that look like rows of the format are harmless (covered by the theorem)
#guard longOK [ivT "a" "x\" \ny"] && longOK [ivT "a" "a\ntext = \"u\""] && longOK [ivT "a" "a\"\nxmin = 5"]
#guard longOK [ptT "a" "a\nnumber = 5"] && longOK [ptT "a" "mark = \"u\""] && longOK [ptT "p" "class = \"IntervalTier\""]
#guard longOK [ivT "xmin = 3" "x"] && longOK [ivT "name = \"u\"" "x"] && longOK [ptT "class = \"IntervalTier\"" "x"]
-- the other class's separator is harmless
#guard longOK [ivT "a" "points ["] && longOK [ptT "a" "intervals ["]
-- A10: `item [`, `item[` anywhere; `intervals [` / `intervals[` in an interval tier; `points [` / `points[` in a point tier
#guard !longOK [ivT "a" "item ["] && !longOK [ptT "a" "an item[3]"] && !longOK [ivT "item [" "x"]
#guard !longOK [ivT "a" "intervals ["] && !longOK [ivT "a" "intervals[1]"] && !longOK [ivT "intervals [" "x"]
#guard !longOK [ptT "a" "points ["] && !longOK [ptT "a" "points[1]"] && !longOK [ptT "points [" "x"]
-- `\r\n` is rewritten; labels must be strip-invariant (they are: the tier constructors strip); names are kept verbatim
#guard !longOK [ivT "a" "x\r\ny"] && longOK [ivT "a" "x\ry"] && longOK [ivT " a " "x"]
-- labels with surrounding white space come back stripped, nothing else changes (`parseLong_emit_strip`)
#guard rawEq (Rd.parseLong (Txt.ofString (tgToLong numN ⟨[ivT "a" " x \n", ptT "p" "\t\"q\" "], none, none⟩ 0 9)))
  (rawOf numN (stripTg ⟨[ivT "a" " x \n", ptT "p" "\t\"q\" "], none, none⟩) 0 9)
#guard (rawOf numN (stripTg ⟨[ivT "a" " x \n", ptT "p" "\t\"q\" "], none, none⟩) 0 9).tiers.map (·.entries) ==
  [[["0", "1", "x"], ["1", "2", "z"]], [["0", "\"q\""], ["1", "z"]]]
-- multi-line names are read (A32, fixed) — leading / trailing line breaks, quotes at line ends, lines that look like other rows
#guard longOK [ivT "a\nb" "x"] && longOK [ptT "\na\n" "x"] && longOK [ivT "a\"\nb\" \n" "x"] && longOK [ivT "a\ntext = \"u\"\nb" "x"]
#guard longOK [ivT "a\nxmin = 1" "x"] && longOK [ivT "a\nxmax = 1\"" "x"] && longOK [ivT "a\nxmins\nb" "x"]
-- … also when a LINE of the name reads like the tier's own `xmin` / `xmax` row (A33, fixed: the rows are searched behind the name)
#guard longOK [ivT "xmin = 1\nb" "x"] && longOK [ptT "a\n  xmax= -2.5e3 \nb" "x"] && longOK [ptT "xmin = 1\nxmax = 0\n" "x"]
-- negative times (regression for A30, fixed): the sign of a negative number is captured, at tier and at entry level
#guard (match Rd.parseLong (Txt.ofString (tgToLong (fun x : Int => toString x) ⟨[.P ⟨"p", [⟨-1, "x"⟩], -1, 9⟩], none, none⟩ (-1) 9)) with
  | .ok r => r.tiers.map (·.entries) == [[["-1", "x"]]] && r.tiers.map (·.xmin) == ["-1"] && r.xmin == "-1"
  | .error _ => false)
#guard (match Rd.parseLong (Txt.ofString (tgToLong (fun x : Int => toString x) ⟨[.I ⟨"a", [⟨-3, -2, "x"⟩], -4, -1⟩], none, none⟩ (-4) (-1))) with
  | .ok r => r.tiers.map (·.entries) == [[["-3", "-2", "x"]]] && r.tiers.map (fun t => (t.xmin, t.xmax)) == [("-4", "-1")]
  | .error _ => false)

/-! ## proved counter-examples (the reader model evaluated by the kernel on the emitted text) -/

def isParsingError (r : Except Err RawTg) : Bool :=
  match r with
  | .error .ParsingError => true
  | _ => false

/-- one interval tier `a` with the single interval (0, 1, `item [`) -/
def badLong : Tg Nat := ⟨[.I ⟨"a", [⟨0, 1, "item ["⟩], 0, 1⟩], some 0, some 1⟩

theorem badLong_parse : isParsingError (Rd.parseLong (Txt.ofString (tgToLong numN badLong 0 1))) = true := by
  have hfile : Txt.ofString (tgToLong numN badLong 0 1) = (fileLong numN badLong 0 1).toArray := by
    unfold Txt.ofString; rw [emitLong_toList]
  -- the reader restated on lists (`Rd.parseLong_eq`), evaluated on the list-level text
  rw [hfile, parseLong_eq, List.toList_toArray]
  decide +kernel

/-- **the keyword hypothesis `NoKwLong` is needed (A10, long format)**: the one-tier textgrid whose only label is `item [`
satisfies every other hypothesis of `parseLong_emit`, and the reader raises `ParsingError` on the file written for it -/
theorem parseLong_keyword_counterexample :
    (∀ t ∈ badLong.tiers, StrippedLabels t) ∧ (∀ t ∈ badLong.tiers, NoCRLF t) ∧
    (¬ ∀ t ∈ badLong.tiers, NoKwLong t) ∧
    Rd.parseLong (Txt.ofString (tgToLong numN badLong 0 1)) = .error .ParsingError ∧
    Rd.parseLong (Txt.ofString (tgToLong numN badLong 0 1)) ≠ .ok (rawOf numN badLong 0 1) := by
  have hp : Rd.parseLong (Txt.ofString (tgToLong numN badLong 0 1)) = .error .ParsingError := by
    have := badLong_parse
    cases h : Rd.parseLong (Txt.ofString (tgToLong numN badLong 0 1)) with
    | ok r => rw [h] at this; cases this
    | error e => rw [h] at this; cases e <;> first | rfl | cases this
  refine ⟨?_, ?_, ?_, hp, by rw [hp]; intro h; cases h⟩
  · intro t ht s hs
    simp only [badLong, List.mem_cons, List.not_mem_nil, or_false] at ht
    subst ht
    simp only [labelsOf, List.map_cons, List.map_nil, List.mem_cons, List.not_mem_nil, or_false] at hs
    subst hs
    rw [pyStrip_eq_iff]; exact noEdge_of_stripList _ (by decide)
  · intro t ht s hs
    simp only [badLong, List.mem_cons, List.not_mem_nil, or_false] at ht
    subst ht
    simp only [texts, List.map_cons, List.map_nil, List.mem_cons, List.not_mem_nil, or_false] at hs
    rcases hs with rfl | rfl <;> decide
  · intro h
    exact h (.I ⟨"a", [⟨0, 1, "item ["⟩], 0, 1⟩) (by simp [badLong]) "item [" (by simp [texts]) itA (by simp)
      ⟨[], [], by decide⟩

/-- one point tier named `a⏎b`, no points -/
def nlNameTgL : Tg Nat := ⟨[.P ⟨"a\nb", [], 0, 1⟩], some 0, some 1⟩

theorem nlName_hyps : (∀ t ∈ nlNameTgL.tiers, NoKwLong t) ∧ (∀ t ∈ nlNameTgL.tiers, StrippedLabels t) ∧
    (∀ t ∈ nlNameTgL.tiers, NoCRLF t) := by
  refine ⟨?_, ?_, ?_⟩ <;> intro t ht <;> simp only [nlNameTgL, List.mem_cons, List.not_mem_nil, or_false] at ht <;> subst ht
  · apply noKwLong_of_no_bracket
    intro s hs
    simp only [texts, List.map_nil, List.mem_cons, List.not_mem_nil, or_false] at hs
    subst hs; decide
  · intro s hs
    simp [labelsOf] at hs
  · intro s hs
    simp only [texts, List.map_nil, List.mem_cons, List.not_mem_nil, or_false] at hs
    subst hs; decide

/-- **multi-line names, regression for A32 (fixed, 2c24cb2)**: a tier named `a⏎b` is written `name = "a⏎b"`; the name pattern
`name ?= ?"(.*)"\s*$` now has DOTALL (like `text` and `mark`) and the whole-file theorem covers the file: it is read back
exactly.  Before the fix the pattern did not cross the line break: `ParsingError: Expected field in Textgrid missing.` on a file
praatio itself had written, while the short and both JSON formats kept the name. -/
theorem parseLong_name_newline_regression :
    Rd.parseLong (Txt.ofString (tgToLong numN nlNameTgL 0 1)) = .ok (rawOf numN nlNameTgL 0 1) :=
  parseLong_emit numN numN_long nlNameTgL 0 1 nlName_hyps.1 nlName_hyps.2.1 nlName_hyps.2.2

/-- one point tier named `xmin = 1⏎b` on [0, 2], no points -/
def rowNameTg : Tg Nat := ⟨[.P ⟨"xmin = 1\nb", [], 0, 2⟩], some 0, some 2⟩

theorem rowName_hyps : (∀ t ∈ rowNameTg.tiers, NoKwLong t) ∧ (∀ t ∈ rowNameTg.tiers, StrippedLabels t) ∧
    (∀ t ∈ rowNameTg.tiers, NoCRLF t) := by
  refine ⟨?_, ?_, ?_⟩ <;> intro t ht <;> simp only [rowNameTg, List.mem_cons, List.not_mem_nil, or_false] at ht <;> subst ht
  · apply noKwLong_of_no_bracket
    intro s hs
    simp only [texts, List.map_nil, List.mem_cons, List.not_mem_nil, or_false] at hs
    subst hs; decide
  · intro s hs
    simp [labelsOf] at hs
  · intro s hs
    simp only [texts, List.map_nil, List.mem_cons, List.not_mem_nil, or_false] at hs
    subst hs; decide

/-- **a name LINE that reads like the tier's span row, regression for A33 (fixed, c86c7a5)**: the first line of the written name
row `name = "xmin = 1⏎b"` ends in `xmin = 1`; the reader now looks for the tier's `xmin` / `xmax` rows BEHIND the name
(`header[nameMatch.end(1):]`), and the whole-file theorem — which has no hypothesis on names beyond the A10 keywords any more —
covers the file: the tier comes back with start `0`.  Before the fix the rows were searched from the top of the tier header and
the tier's start was read as `1`, silently: `PointTier("xmin = 1\nb", [(0.5, "p")], 0, 2)` saved as "long_textgrid"
(includeBlankSpaces False) and reopened had `minTimestamp == 0.5` (the constructor's `min(1, 0.5)`). -/
theorem parseLong_name_row_regression :
    Rd.parseLong (Txt.ofString (tgToLong numN rowNameTg 0 2)) = .ok (rawOf numN rowNameTg 0 2) ∧
    rawEq (Rd.parseLong (Txt.ofString (tgToLong numN rowNameTg 0 2)))
      ⟨"0", "2", [⟨"TextTier", "xmin = 1\nb", "0", "2", []⟩]⟩ = true := by
  have h := parseLong_emit numN numN_long rowNameTg 0 2 rowName_hyps.1 rowName_hyps.2.1 rowName_hyps.2.2
  refine ⟨h, ?_⟩
  rw [h]
  decide +kernel

/-! ## through the format sniffing of `parseTextgridStr` (non-JSON path) -/

/-- `"ooTextFile short"`: a text containing it is read with the short-format reader -/
def sniffL : List Char := "ooTextFile short".toList
theorem lit_sniff : (lit "ooTextFile short").toList = sniffL := rfl

/-- no name or label contains `ooTextFile short` (the format is chosen by searching the whole file for it; A10) -/
def NoSniff (t : AnyTier α) : Prop := ∀ s ∈ texts t, ¬ sniffL <:+: s.toList

theorem textRow_free_c (c : Char) (pat ind key : List Char) (s : String) (hq : q ∉ pat) (hc : c ∈ pat) (hind : c ∉ ind)
    (hkey : c ∉ key) (hc1 : c ≠ ' ') (hc2 : c ≠ '=') (hs : ¬ pat <:+: s.toList) : ¬ pat <:+: textRowL ind key s := by
  have hne : pat ≠ [] := by intro e; rw [e] at hc; simp at hc
  intro h
  have e : textRowL ind key s = (ind ++ (key ++ eqL)) ++ q :: (escapeL s.toList ++ q :: [' ']) := by
    simp only [textRowL, row, List.append_assoc, List.cons_append, List.nil_append]
  rw [e] at h
  rcases infix_sep q pat _ _ hq hne h with h1 | h1
  · refine not_infix_of_not_mem c pat _ hc ?_ h1
    simp only [List.mem_append, eqL, List.mem_cons, List.not_mem_nil, or_false, not_or]
    exact ⟨hind, hkey, hc1, hc2, hc1⟩
  · rcases infix_sep q pat _ _ hq hne h1 with h2 | h2
    · exact hs (infix_escape_quote_free pat _ hq hne h2)
    · exact not_infix_of_not_mem c pat _ hc (by simpa using hc1) h2

theorem tierLines_sniffFree (num : α → String) (hnum : ∀ x, LongNum (num x).toList) (k : Nat) (t : AnyTier α)
    (hsn : NoSniff t) : ∀ s ∈ tierLines num k t, ¬ sniffL <:+: s := by
  have hF : 'F' ∈ sniffL := by decide
  have t2 := notMem_tab2 'F' (by decide)
  have t3 := notMem_tab3 'F' (by decide)
  have ix : ∀ j, 'F' ∉ idxL j := fun j => notMem_idxL 'F' j (by decide) (by decide) (by decide)
  apply tierLines_all num k t (fun s => ¬ sniffL <:+: s)
  · exact fun j => not_infix_of_not_mem 'F' _ _ hF (ix j)
  · exact ⟨not_infix_of_not_mem 'F' _ _ hF (by decide), not_infix_of_not_mem 'F' _ _ hF (by decide)⟩
  · intro n
    constructor <;> apply not_infix_of_not_mem 'F' _ _ hF <;>
      simp only [sizeRow, List.mem_append, List.mem_cons, List.not_mem_nil, or_false, not_or] <;>
      exact ⟨t2, by decide, by decide, digits_no _ n (by decide), by decide⟩
  · intro j
    constructor <;> apply not_infix_of_not_mem 'F' _ _ hF <;> simp only [List.mem_append, not_or] <;>
      exact ⟨t2, by decide, ix j⟩
  · intro ind key x hind hkey
    apply not_infix_of_not_mem 'F' _ _ hF
    simp only [numRowL, eqL, List.mem_append, List.mem_cons, List.not_mem_nil, or_false, not_or]
    refine ⟨by rcases hind with rfl | rfl <;> assumption, ?_, ⟨by decide, by decide, by decide⟩,
      notMem_num _ (hnum x) 'F' (by decide), by decide⟩
    simp only [List.mem_cons, List.not_mem_nil, or_false] at hkey
    rcases hkey with rfl | rfl | rfl <;> decide
  · intro ind key s hind hkey hs
    apply textRow_free_c 'F' sniffL _ _ s (by decide) hF _ _ (by decide) (by decide) (hsn s hs)
    · rcases hind with rfl | rfl <;> assumption
    · simp only [List.mem_cons, List.not_mem_nil, or_false] at hkey
      rcases hkey with rfl | rfl | rfl <;> decide

theorem tierLines_cons (num : α → String) (k : Nat) (t : AnyTier α) :
    ∃ rest, tierLines num k t = idxL k :: rest := by
  cases t <;> exact ⟨_, rfl⟩

theorem tiersL_sniffFree (num : α → String) (hnum : ∀ x, LongNum (num x).toList) (k : Nat) (ts : List (AnyTier α))
    (hsn : ∀ t ∈ ts, NoSniff t) : ¬ sniffL <:+: tiersL num k ts := by
  induction ts generalizing k with
  | nil =>
    intro h
    have := h.length_le
    have h16 : sniffL.length = 16 := by decide
    simp only [tiersL, List.length_nil, h16] at this
    omega
  | cons t ts ih =>
    intro h
    obtain ⟨rest, hrest⟩ := tierLines_cons num k t
    have e : tiersL num k (t :: ts) = joinNl ((tabL ++ (itemA ++ idxL k)) :: rest) ++ tiersL num (k + 1) ts := by
      simp only [tiersL, tierBodyL_lines, hrest, joinNl, List.append_assoc, List.cons_append]
    rw [e] at h
    rcases infix_lines sniffL _ _ (by decide) (by decide) h with ⟨s, hs, hin⟩ | hin
    · simp only [List.mem_cons] at hs
      rcases hs with rfl | hs
      · refine not_infix_of_not_mem 'F' _ _ (by decide) ?_ hin
        simp only [List.mem_append, not_or]
        exact ⟨notMem_tabL _ (by decide), by decide, notMem_idxL 'F' k (by decide) (by decide) (by decide)⟩
      · exact tierLines_sniffFree num hnum k t (hsn t (by simp)) s (by rw [hrest]; exact List.mem_cons_of_mem _ hs) hin
    · exact ih (k + 1) (fun x hx => hsn x (List.mem_cons_of_mem _ hx)) hin

theorem fileLong_sniffFree (num : α → String) (hnum : ∀ x, LongNum (num x).toList) (g : Tg α) (lo hi : α)
    (hsn : ∀ t ∈ g.tiers, NoSniff t) : ¬ sniffL <:+: fileLong num g lo hi := by
  intro h
  have e : fileLong num g lo hi =
      joinNl (longHdrSegs num lo hi g.tiers.length ++ [itemA ++ "]: ".toList]) ++ tiersL num 0 g.tiers := by
    have : "]: \n".toList = "]: ".toList ++ ['\n'] := by rfl
    simp only [fileLong, joinNl_append, joinNl, this, List.append_assoc, List.cons_append, List.nil_append]
  rw [e] at h
  rcases infix_lines sniffL _ _ (by decide) (by decide) h with ⟨s, hs, hin⟩ | hin
  · simp only [List.mem_append, List.mem_cons, List.not_mem_nil, or_false] at hs
    rcases hs with hs | rfl
    · simp only [longHdrSegs, List.mem_cons, List.not_mem_nil, or_false] at hs
      have hF : 'F' ∈ sniffL := by decide
      rcases hs with rfl | rfl | rfl | rfl | rfl | rfl | rfl
      · exact infix_of_occs sniffL _ (by decide) hin 0 (by decide)
      · exact not_infix_of_not_mem 'F' _ _ hF (by decide) hin
      · exact not_infix_of_not_mem 'F' _ _ hF (by decide) hin
      · refine not_infix_of_not_mem 'F' _ _ hF ?_ hin
        simp only [eqL, List.mem_append, List.mem_cons, List.not_mem_nil, or_false, not_or]
        exact ⟨by decide, ⟨by decide, by decide, by decide⟩, notMem_num _ (hnum lo) _ (by decide), by decide⟩
      · refine not_infix_of_not_mem 'F' _ _ hF ?_ hin
        simp only [eqL, List.mem_append, List.mem_cons, List.not_mem_nil, or_false, not_or]
        exact ⟨by decide, ⟨by decide, by decide, by decide⟩, notMem_num _ (hnum hi) _ (by decide), by decide⟩
      · exact not_infix_of_not_mem 'F' _ _ hF (by decide) hin
      · refine not_infix_of_not_mem 'F' _ _ hF ?_ hin
        simp only [List.mem_append, List.mem_cons, List.not_mem_nil, or_false, not_or]
        exact ⟨by decide, digits_no _ g.tiers.length (by decide), by decide⟩
    · exact not_infix_of_not_mem 'F' _ _ (by decide) (by decide) hin
  · exact tiersL_sniffFree num hnum 0 g.tiers hsn hin

/-- `_removeBlanks` on the expected result -/
def dropEmpty (includeEmpty : Bool) (r : RawTg) : RawTg :=
  if includeEmpty then r
  else { r with tiers := r.tiers.map fun t => { t with entries := t.entries.filter fun e => e.getLast? != some "" } }

/-- **through `parseTextgridStr`'s format sniffing**: a written long-format file is recognised as long (it contains
`item [` and — when no name or label contains `ooTextFile short` — not that phrase), read back, and with
`includeEmptyIntervals = False` exactly the entries with empty label are removed.  (`hsn`: known defect A10 — a name or
label containing `ooTextFile short` sends the long file to the short-format reader, see the `#guard` below; replayed on
praatio: `ValueError: could not convert string to float: 'xmin = 0'`; the others as for `parseLong_emit`.) -/
theorem parseText_long_emit_strip (num : α → String) (hnum : ∀ x, LongNum (num x).toList) (g : Tg α) (lo hi : α)
    (hkw : ∀ t ∈ g.tiers, NoKwLong t)
    (hcr : ∀ t ∈ g.tiers, NoCRLF t) (hsn : ∀ t ∈ g.tiers, NoSniff t) (includeEmpty : Bool) :
    Rd.parseText (Txt.ofString (tgToLong num g lo hi)) includeEmpty =
      .ok (dropEmpty includeEmpty (rawOf num (stripTg g) lo hi)) := by
  have hfile : Txt.ofString (tgToLong num g lo hi) = (fileLong num g lo hi).toArray := by
    unfold Txt.ofString; rw [emitLong_toList]
  have hA : Txt.contains (Txt.ofString (tgToLong num g lo hi)) (lit "ooTextFile short") = false := by
    rw [hfile, contains_eq _ _ (by decide), lit_sniff, List.toList_toArray]
    exact findL_none_of_not_infix _ _ (fileLong_sniffFree num hnum g lo hi hsn)
  have hB : Txt.contains (Txt.ofString (tgToLong num g lo hi)) (lit "item [") = true := by
    rw [hfile, contains_eq _ _ (by decide), List.toList_toArray]
    apply findL_isSome_of_infix _ _ (by decide)
    exact ⟨joinNl (longHdrSegs num lo hi g.tiers.length), "]: \n".toList ++ tiersL num 0 g.tiers, by
      simp only [fileLong, List.append_assoc]; rfl⟩
  unfold Rd.parseText
  simp only [hA, hB, Bool.not_true, Bool.or_self, Bool.false_eq_true, if_false,
    parseLong_emit_strip num hnum g lo hi hkw hcr, bind, Except.bind, dropEmpty]
  cases includeEmpty <;> rfl

/-- the long-format file through the sniffing, strip-invariant labels (the corollary of `parseText_long_emit_strip`) -/
theorem parseText_long_emit (num : α → String) (hnum : ∀ x, LongNum (num x).toList) (g : Tg α) (lo hi : α)
    (hkw : ∀ t ∈ g.tiers, NoKwLong t) (hlab : ∀ t ∈ g.tiers, StrippedLabels t)
    (hcr : ∀ t ∈ g.tiers, NoCRLF t) (hsn : ∀ t ∈ g.tiers, NoSniff t) (includeEmpty : Bool) :
    Rd.parseText (Txt.ofString (tgToLong num g lo hi)) includeEmpty = .ok (dropEmpty includeEmpty (rawOf num g lo hi)) := by
  rw [parseText_long_emit_strip num hnum g lo hi hkw hcr hsn includeEmpty, stripTg_of_stripped g hlab]

/-- the short-format file through the sniffing: it is read with the short-format reader as long as it does not contain
`item [` (then `caseB` holds) — names, labels and numerals without `item [`.  (`hnumI`: a property of the renderer, true of
every CPython numeral; `hit`: known defect A10, needed — `parseText_short_item_counterexample`; the others as for
`parseShort_emit`: in particular NO hypothesis on tier names beyond the keywords — surrounding blanks are kept, fix A31.) -/
theorem parseText_short_emit (num : α → String) (hnum : ∀ x, NumWord (num x)) (hnumI : ∀ x, ¬ itA <:+: (num x).toList)
    (g : Tg α) (lo hi : α) (hne : g.tiers ≠ []) (hkw : ∀ t ∈ g.tiers, NoKw t) (hstr : ∀ t ∈ g.tiers, StrippedLabels t)
    (hcr : ∀ t ∈ g.tiers, NoCRLF t) (hit : ∀ t ∈ g.tiers, ∀ s ∈ texts t, ¬ itA <:+: s.toList) (includeEmpty : Bool) :
    Rd.parseText (Txt.ofString (tgToShort num g lo hi)) includeEmpty = .ok (dropEmpty includeEmpty (rawOf num g lo hi)) := by
  have hbA : '[' ∈ itA := by decide
  have hB : Txt.contains (Txt.ofString (tgToShort num g lo hi)) (lit "item [") = false := by
    rw [ofString_emit, contains_eq _ _ (by decide), List.toList_toArray]
    apply findL_none_of_not_infix
    have e : joinNl (hdrSegs num lo hi g.tiers.length) ++ (g.tiers.map (blockOf num)).flatMap blockL =
        joinNl (hdrSegs num lo hi g.tiers.length ++ (g.tiers.map (blockOf num)).flatMap fun b => kw b.1 :: b.2) ++ [] := by
      rw [joinNl_append, joinNl_flatMap, List.append_nil]; rfl
    have e2 : (lit "item [").toList = itA := by rfl
    rw [e, e2]
    intro h
    rcases infix_lines itA _ [] (by decide) (by decide) h with ⟨s, hs, hin⟩ | hin
    · simp only [List.mem_append, List.mem_flatMap, List.mem_map, List.mem_cons] at hs
      rcases hs with hs | ⟨b, ⟨t, ht, rfl⟩, rfl | hs⟩
      · simp only [hdrSegs, List.mem_cons, List.not_mem_nil, or_false] at hs
        rcases hs with rfl | rfl | rfl | rfl | rfl | rfl | rfl
        · exact not_infix_of_not_mem '[' _ _ hbA (by decide) hin
        · exact not_infix_of_not_mem '[' _ _ hbA (by decide) hin
        · exact not_infix_of_not_mem '[' _ _ hbA (by decide) hin
        · exact hnumI lo hin
        · exact hnumI hi hin
        · exact not_infix_of_not_mem '[' _ _ hbA (by decide) hin
        · exact not_infix_of_not_mem '[' _ _ hbA (digits_no _ _ (by decide)) hin
      · refine not_infix_of_not_mem '[' _ _ hbA ?_ hin
        simp only [blockOf]; cases isI t <;> decide
      · exact body_all num t (fun s => ¬ itA <:+: s)
          (fun l hl h' => hit t ht l hl ((sep_in_row_iff itA l (by decide) (by decide)).1 h'))
          hnumI (fun n => not_infix_of_not_mem '[' _ _ hbA (digits_no _ n (by decide))) s hs hin
    · have := hin.length_le; simp [itA] at this
  unfold Rd.parseText
  simp only [hB, Bool.not_false, Bool.or_true, if_true, parseShort_emit num hnum g lo hi hne hkw hstr hcr, bind, Except.bind,
    dropEmpty]
  cases includeEmpty <;> rfl

def isIndexError (r : Except Err RawTg) : Bool :=
  match r with
  | .error .IndexError => true
  | _ => false

/-- one interval tier `a` with the intervals (0, 1, `item [`), (1, 2, `z`) -/
def shortItemTg : Tg Nat := ⟨[ivT "a" "item ["], none, none⟩

/-- **the hypothesis `hit` of `parseText_short_emit` is needed (A10, format sniffing)**: a SHORT-format file with the label
`item [` is taken for a long-format file by `parseTextgridStr` (`caseB` fails) and `_parseNormalTextgrid` raises `IndexError`
(`headerList[3]`) — replayed on praatio: `openTextgrid` of the saved file raises `IndexError: list index out of range` -/
theorem parseText_short_item_counterexample :
    isIndexError (Rd.parseText (Txt.ofString (tgToShort numN shortItemTg 0 9)) true) = true := by
  have hA : Txt.contains (Txt.ofString (tgToShort numN shortItemTg 0 9)) (lit "ooTextFile short") = false := by
    rw [ofString_emit, contains_eq _ _ (by decide), List.toList_toArray]
    decide +kernel
  have hB : Txt.contains (Txt.ofString (tgToShort numN shortItemTg 0 9)) (lit "item [") = true := by
    rw [ofString_emit, contains_eq _ _ (by decide), List.toList_toArray]
    decide +kernel
  unfold Rd.parseText
  simp only [hA, hB, Bool.not_true, Bool.or_self, Bool.false_eq_true, if_false]
  rw [ofString_emit, parseLong_eq, List.toList_toArray]
  decide +kernel

-- the sniffing hypotheses are needed: a label `ooTextFile short` sends a long file to the short-format reader, a label
-- `item [` sends a short file to the long-format reader
#guard !rawEq (Rd.parseText (Txt.ofString (tgToLong numN ⟨[ivT "a" "ooTextFile short"], none, none⟩ 0 9)) true)
  (rawOf numN ⟨[ivT "a" "ooTextFile short"], none, none⟩ 0 9)
#guard !rawEq (Rd.parseText (Txt.ofString (tgToShort numN ⟨[ivT "a" "item ["], none, none⟩ 0 9)) true)
  (rawOf numN ⟨[ivT "a" "item ["], none, none⟩ 0 9)
#guard rawEq (Rd.parseText (Txt.ofString (tgToLong numN sampleTg 0 5)) false) (dropEmpty false (rawOf numN sampleTg 0 5))
#guard rawEq (Rd.parseText (Txt.ofString (tgToShort numN sampleTg 0 5)) false) (dropEmpty false (rawOf numN sampleTg 0 5))

end C01
