import PraatModel.PIMeasures
import PraatModel.Props.C20

/-!
# generatePIMeasures — theorems (registered under C20)

For EVERY arithmetic `A` (whatever `statistics.mean`, `stdev`, `sqrt`, `rms` compute): the control flow, the selection of
samples per labelled interval, the composition with `getPitchMeasures`, and the bookkeeping of `znormWindowFilter`
(zeros are taken out, the rest is filtered, zeros are put back where they were).
-/
namespace PI

variable {α : Type} [Inhabited α] [LT α] [DecidableLT α] [LE α] [DecidableLE α] [BEq α] [Sub α] [Tm α]

/-- asking for both normalisations is refused with NormalizationException before anything else is looked at (the data,
the file, the tier name) -/
theorem pi_normalization_conflict (A : Arith α) (data : List (α × α × α)) (tier : Option (AnyTier α)) (doPitch : Bool)
    (medW : Option Nat) (localW : Nat) (h : 0 < localW) :
    generatePIMeasures A data tier doPitch medW true localW = .error .normalization := by
  simp [generatePIMeasures, h, throw, throwThe, MonadExceptOf.throw, bind, Except.bind]

/-- **no normalisation**: one row per entry of the tier of the opened textgrid, in order; the row of an entry is computed
from exactly the samples with `start ≤ t ≤ end` (`samplesIn`), zeros removed — pitch: `getPitchMeasures` of their f0
values with the requested median filter; intensity: rms of the non-zero values, 0 if there is none -/
theorem pi_rows (A : Arith α) (data : List (α × α × α)) (t : ITier α) (doPitch : Bool) (medW : Option Nat) :
    generatePIMeasures A data (some (.I t)) doPitch medW false 0 =
      .ok (t.es.map fun iv => row A doPitch medW true (samplesIn data iv.s iv.e)) := by
  simp [generatePIMeasures, pure, Except.pure, bind, Except.bind]

theorem row_pitch (A : Arith α) (medW : Option Nat) (fz : Bool) (entries : List (α × α × α)) :
    row A true medW fz entries =
      (let r := Numeric.getPitchMeasures A.pitch (entries.map (·.2.1)) medW fz
       [r.1, r.2.1, r.2.2.1, r.2.2.2.1, r.2.2.2.2.1, r.2.2.2.2.2]) := by
  simp [row]

/-- an interval that contains no sample (or only zeros, when zeros are removed) yields the all-zero pitch row and the
intensity row `[0]` -/
theorem row_empty (A : Arith α) (doPitch : Bool) (medW : Option Nat) (fz : Bool) :
    row A doPitch medW fz [] =
      if doPitch then [Tm.zero, Tm.zero, Tm.zero, Tm.zero, Tm.zero, Tm.zero] else [Tm.zero] := by
  cases doPitch <;> cases medW <;> cases fz <;>
    simp [row, Numeric.getPitchMeasures, Numeric.pitchValues, Numeric.medianFilter, Numeric.stepFilter]

theorem row_width (A : Arith α) (doPitch : Bool) (medW : Option Nat) (fz : Bool) (entries : List (α × α × α)) :
    (row A doPitch medW fz entries).length = if doPitch then 6 else 1 := by
  cases doPitch <;> simp [row]

/-- a point tier is refused (IncompatibleTierError), an absent name raises `getTier`'s KeyError -/
theorem pi_wrong_tier (A : Arith α) (data : List (α × α × α)) (p : PTier α) (doPitch : Bool) (medW : Option Nat) (localW : Nat) :
    generatePIMeasures A data (some (.P p)) doPitch medW false localW = .error .incompatibleTier ∧
    generatePIMeasures A data none doPitch medW false localW = .error .keyError := by
  constructor <;> simp [generatePIMeasures, throw, throwThe, MonadExceptOf.throw, pure, Except.pure, bind, Except.bind]

/-! ## the zero bookkeeping of `znormWindowFilter(…, filterZeroValues=True)` -/

/-- what the re-insertion loop is meant to produce: walk along the original series, take the next filtered value at a
positive element and `0` elsewhere -/
def weave : List α → List α → List α
  | [], out => out
  | d :: ds, out =>
    if Tm.zero < d then
      (match out with
       | o :: os => o :: weave ds os
       | [] => weave ds [])
    else Tm.zero :: weave ds out

def zeroIdxFrom (ds : List α) (k : Nat) : List Nat :=
  ((ds.zipIdx k).filter fun vx => !decide (Tm.zero < vx.1)).map (·.2)

theorem insertIdx_prefix {β} (pre out : List β) (x : β) : (pre ++ out).insertIdx pre.length x = pre ++ x :: out := by
  induction pre with
  | nil => simp
  | cons p ps ih => simp [List.insertIdx_succ_cons, ih]

/-- **the loop `for i in zeroIndexList: filteredOutput.insert(i, 0.0)` restores the original positions**: provided the
filter returned one value per positive element (which `_stepFilter` does: `C20.stepFilter_length`) -/
theorem reinsert_weave : ∀ (ds : List α) (k : Nat) (pre out : List α), pre.length = k →
    (ds.filter fun v => decide (Tm.zero < v)).length ≤ out.length →
    (zeroIdxFrom ds k).foldl (fun acc i => acc.insertIdx i Tm.zero) (pre ++ out) = pre ++ weave ds out := by
  intro ds
  induction ds with
  | nil => intro k pre out _ _; simp [zeroIdxFrom, weave]
  | cons d ds ih =>
    intro k pre out hk hlen
    by_cases hd : Tm.zero < d
    · have hz : zeroIdxFrom (d :: ds) k = zeroIdxFrom ds (k + 1) := by
        simp [zeroIdxFrom, List.zipIdx_cons, List.filter_cons, hd]
      simp only [List.filter_cons, hd, decide_true, if_true, List.length_cons] at hlen
      cases out with
      | nil => simp at hlen
      | cons o os =>
        rw [hz]
        have := ih (k + 1) (pre ++ [o]) os (by simp [hk]) (by simpa using hlen)
        simp only [List.append_assoc, List.singleton_append] at this
        rw [this]
        simp [weave, hd]
    · have hz : zeroIdxFrom (d :: ds) k = k :: zeroIdxFrom ds (k + 1) := by
        simp [zeroIdxFrom, List.zipIdx_cons, List.filter_cons, hd]
      simp only [List.filter_cons, hd, decide_false, Bool.false_eq_true, if_false] at hlen
      rw [hz, List.foldl_cons, ← hk, insertIdx_prefix]
      have := ih (pre.length + 1) (pre ++ [Tm.zero]) out (by simp) hlen
      simp only [List.append_assoc, List.singleton_append] at this
      rw [this]
      simp [weave, hd]

theorem weave_length : ∀ (ds out : List α), out.length = (ds.filter fun v => decide (Tm.zero < v)).length →
    (weave ds out).length = ds.length := by
  intro ds
  induction ds with
  | nil => intro out h; simp at h; simp [weave, h]
  | cons d ds ih =>
    intro out h
    by_cases hd : Tm.zero < d
    · simp only [List.filter_cons, hd, decide_true, if_true, List.length_cons] at h
      cases out with
      | nil => simp at h
      | cons o os => simp [weave, hd, ih os (by simpa using h)]
    · simp only [List.filter_cons, hd, decide_false, Bool.false_eq_true, if_false] at h
      simp [weave, hd, ih out h]

/-- a non-positive element of the series comes back as exactly `0`, at its own position -/
theorem weave_zero : ∀ (ds out : List α) (i : Nat) (d : α), ds[i]? = some d → ¬ Tm.zero < d →
    out.length = (ds.filter fun v => decide (Tm.zero < v)).length → (weave ds out)[i]? = some Tm.zero := by
  intro ds
  induction ds with
  | nil => intro out i d h; simp at h
  | cons x xs ih =>
    intro out i d h hd hlen
    by_cases hx : Tm.zero < x
    · simp only [List.filter_cons, hx, decide_true, if_true, List.length_cons] at hlen
      cases out with
      | nil => simp at hlen
      | cons o os =>
        cases i with
        | zero => simp at h; subst h; exact absurd hx hd
        | succ j =>
          simp only [List.getElem?_cons_succ] at h
          simpa [weave, hx] using ih os j d h hd (by simpa using hlen)
    · simp only [List.filter_cons, hx, decide_false, Bool.false_eq_true, if_false] at hlen
      cases i with
      | zero => simp [weave, hx]
      | succ j =>
        simp only [List.getElem?_cons_succ] at h
        simpa [weave, hx] using ih out j d h hd hlen

theorem mapM_length {β γ : Type} (f : β → Except PIErr γ) : ∀ (l : List β) (r : List γ), l.mapM f = .ok r → r.length = l.length := by
  intro l
  induction l with
  | nil => intro r h; simp [List.mapM_nil, pure, Except.pure] at h; subst h; rfl
  | cons x xs ih =>
    intro r h
    rw [List.mapM_cons] at h
    simp only [bind, Except.bind] at h
    cases hx : f x with
    | error e => rw [hx] at h; cases h
    | ok y =>
      rw [hx] at h
      simp only at h
      cases hxs : xs.mapM f with
      | error e => rw [hxs] at h; cases h
      | ok ys =>
        rw [hxs] at h
        simp only [pure, Except.pure] at h
        cases h
        simp [ih ys hxs]

/-- **`znormWindowFilter(dist, window, True, True)` whenever it returns**: the result has the length of the series, is
the weave of the series with the filtered positive values, and every non-positive element is `0` at its own place —
so the `UnexpectedError` branch of `generatePIMeasures` ("This should hopefully not happen") is unreachable -/
theorem znormWindow_spec (A : Arith α) (dist : List α) (window : Nat) (r : List α)
    (h : znormWindow A dist window = .ok r) :
    r.length = dist.length ∧
    (∀ (i : Nat) (d : α), dist[i]? = some d → ¬ Tm.zero < d → r[i]? = some Tm.zero) ∧
    ∃ out, stepFilterE (zCenter A) (dist.filter fun v => decide (Tm.zero < v)) window = .ok out ∧ r = weave dist out := by
  unfold znormWindow at h
  simp only [bind, Except.bind] at h
  cases ho : stepFilterE (zCenter A) (dist.filter fun v => decide (Tm.zero < v)) window with
  | error e => rw [ho] at h; cases h
  | ok out =>
    rw [ho] at h
    simp only [pure, Except.pure] at h
    cases h
    have hl : out.length = (dist.filter fun v => decide (Tm.zero < v)).length := by
      have := mapM_length _ _ _ ho
      simpa using this
    have hw : reinsertZeros (zeroIdxFrom dist 0) out = weave dist out := by
      have := reinsert_weave dist 0 [] out rfl (by omega)
      simpa [reinsertZeros] using this
    have hw' : reinsertZeros ((dist.zipIdx.filter fun vx => !decide (Tm.zero < vx.1)).map (·.2)) out = weave dist out := hw
    rw [hw']
    exact ⟨weave_length dist out hl, fun i d hi hd => weave_zero dist out i d hi hd hl, out, rfl, rfl⟩

/-! ## `znormWindowFilter` with its inner `znormalizeCenterVal`, all option combinations -/

/-- `znormalizeCenterVal(valList)`: StatisticsError for fewer than two values (`statistics.stdev`), ZeroDivisionError
for a constant window (deviation 0), otherwise the z-score of the centre element `valList[len // 2]` -/
theorem zCenter_spec (A : Arith α) (w : List α) :
    (w.length < 2 → zCenter A w = .error .statistics) ∧
    (2 ≤ w.length → (w.all fun v => v == w.headD default) = true → zCenter A w = .error .zeroDivision) ∧
    (2 ≤ w.length → (w.all fun v => v == w.headD default) = false →
      zCenter A w = .ok (A.z w (w.getD (w.length / 2) default))) := by
  refine ⟨?_, ?_, ?_⟩
  · intro h; simp [zCenter, statGuard, h, bind, Except.bind]
  · intro h hc
    have : ¬ w.length < 2 := by omega
    simp only [zCenter, statGuard, this, if_false, hc, if_true, bind, Except.bind]
  · intro h hc
    have : ¬ w.length < 2 := by omega
    simp only [zCenter, statGuard, this, if_false, hc, bind, Except.bind, pure, Except.pure]
    rfl

/-- with a filter function that never raises, `stepFilterEP` IS the `_stepFilter` of `Numeric.lean` (so
`C20.stepFilter_spec` / `stepFilter_length` describe its windows) -/
theorem stepFilterEP_pure (g : List α → α) (dist : List α) (window : Nat) (pad : Bool) :
    stepFilterEP (fun w => .ok (g w)) dist window pad = .ok (Numeric.stepFilter g dist window pad) := by
  unfold stepFilterEP Numeric.stepFilter
  generalize dist.zipIdx = l
  generalize dist.length = n
  induction l with
  | nil => rfl
  | cons x xs ih =>
    rw [List.mapM_cons, ih]
    simp only [bind, Except.bind, pure, Except.pure, List.map_cons]
    by_cases hc : (pad || decide (window / 2 ≤ x.2) && decide (x.2 + window / 2 < n)) = true
    · rw [if_pos hc, if_pos hc]
    · rw [if_neg hc, if_neg hc]

theorem znormWindowFilter_padded_zero_filtered (A : Arith α) (dist : List α) (window : Nat) :
    znormWindowFilter A dist window true true = znormWindow A dist window := by
  simp [znormWindowFilter, znormWindow, stepFilterEP, stepFilterE]

/-- **whenever `znormWindowFilter` returns** (any window, padding on or off, zero filtering on or off): the result has
the length of the input; with zero filtering every non-positive element comes back as `0` at its own place -/
theorem znormWindowFilter_spec (A : Arith α) (dist : List α) (window : Nat) (pad fz : Bool) (r : List α)
    (h : znormWindowFilter A dist window pad fz = .ok r) :
    r.length = dist.length ∧
    (fz = true → ∀ (i : Nat) (d : α), dist[i]? = some d → ¬ Tm.zero < d → r[i]? = some Tm.zero) := by
  unfold znormWindowFilter at h
  cases fz with
  | false =>
    simp only [Bool.not_false, if_true] at h
    have := mapM_length _ _ _ h
    exact ⟨by simpa using this, by intro h0; cases h0⟩
  | true =>
    simp only [Bool.not_true, Bool.false_eq_true, if_false, bind, Except.bind] at h
    cases ho : stepFilterEP (zCenter A) (dist.filter fun v => decide (Tm.zero < v)) window pad with
    | error e => rw [ho] at h; cases h
    | ok out =>
      rw [ho] at h
      simp only [pure, Except.pure] at h
      cases h
      have hl : out.length = (dist.filter fun v => decide (Tm.zero < v)).length := by
        have := mapM_length _ _ _ ho
        simpa using this
      have hw : reinsertZeros (zeroIdxFrom dist 0) out = weave dist out := by
        have := reinsert_weave dist 0 [] out rfl (by omega)
        simpa [reinsertZeros] using this
      have hw' : reinsertZeros ((dist.zipIdx.filter fun vx => !decide (Tm.zero < vx.1)).map (·.2)) out = weave dist out := hw
      rw [hw']
      exact ⟨weave_length dist out hl, fun _ i d hi hd => weave_zero dist out i d hi hd hl⟩

theorem foldlM_len {β : Type} (f : List (List α) → β → Except PIErr (List (List α)))
    (hf : ∀ a b a', f a b = .ok a' → a'.length = a.length) :
    ∀ (l : List β) (a r : List (List α)), l.foldlM f a = .ok r → r.length = a.length := by
  intro l
  induction l with
  | nil => intro a r h; simp only [List.foldlM, pure, Except.pure, Except.ok.injEq] at h; subst h; rfl
  | cons b l ih =>
    intro a r h
    simp only [List.foldlM, bind, Except.bind] at h
    cases hb : f a b with
    | error e => rw [hb] at h; cases h
    | ok a' => rw [hb] at h; rw [ih a' r h, hf a b a' hb]

/-- the local normalisation never changes the number of rows -/
theorem localNorm_length (A : Arith α) (window : Nat) (rows r : List (List α)) (h : localNorm A window rows = .ok r) :
    r.length = rows.length := by
  unfold localNorm at h
  refine foldlM_len _ ?_ _ rows r h
  intro a c a' hc
  simp only [bind, Except.bind] at hc
  cases hz : znormWindow A (column a c) window with
  | error e => rw [hz] at hc; cases hc
  | ok col =>
    rw [hz] at hc
    simp only [pure, Except.pure] at hc
    cases hc
    have := (znormWindow_spec A (column a c) window col hz).1
    simp [setColumn, column] at this ⊢
    omega

/-- **whatever the options: when `generatePIMeasures` returns, it returns exactly one row per entry of the tier** -/
theorem pi_rows_length (A : Arith α) (data : List (α × α × α)) (t : ITier α) (doPitch : Bool) (medW : Option Nat)
    (gz : Bool) (lw : Nat) (rows : List (List α))
    (h : generatePIMeasures A data (some (.I t)) doPitch medW gz lw = .ok rows) : rows.length = t.es.length := by
  unfold generatePIMeasures at h
  simp only [bind, Except.bind, pure, Except.pure, throw, throwThe, MonadExceptOf.throw] at h
  repeat' split at h
  all_goals first
    | (cases h; done)
    | (have := localNorm_length A lw _ rows h; simpa using this)
    | (cases h; simp)

/-- a concrete series: zeros at 0 and 3 come back in place around the two filtered values -/
example : weave ([0, 5, 7, 0] : List Int) [11, 12] = [0, 11, 12, 0] := by decide
example : reinsertZeros [0, 3] ([11, 12] : List Int) = [0, 11, 12, 0] := by decide

end PI
