import PraatModel.Props.C12Validate
import PraatModel.Props.C11Points

/-!
# C09, textgrid level — the full specification of `Textgrid.appendTextgrid(tg, onlyMatchingNames)`

Exact arithmetic (`Int` timestamps of any size, any number of tiers of either class, entry lists of any length).
All statements are about the model function `Tg.appendTextgrid` of `Textgrid.lean` (compared with the real method on
every run).  `A` = the receiver (`g`), `B` = the argument (`h`), `om` = `onlyMatchingNames`.

| clause | theorem(s) |
|---|---|
| closed form of the result | `appendTg_eq`: `A.appendTextgrid(B, om) = ⟨resultTiers, [A.min, A.max + B.max]⟩` |
| success, span, tier list, tier order, names, well-formedness, look-up by name for the three kinds of names, `validate()` | `appendTg_spec` (reading aids: `mem_resultTiers`, `resultTiers_names`, `joinTier`, `movedTier`) |
| joined point tiers: sorted by (time, label); plain concatenation unless two points meet at the seam in reverse label order | `join_points` |
| valid operands: the result validates iff `om`, or `B` has length 0, or every name of `A` is a name of `B` | `appendTg_valid_operands` |
| refusal: one name, two tier classes → built-in `ValueError` | `appendTg_class_clash`, `appendTg_class_clash_example` |
| FINDING: a tier that only `A` has keeps its old span; the result fails `validate()` | `appendTg_onlyA_counterexample` |
| non-vacuity | `appendTg_onlyMatching_example`, `exA_valid`, `exB_valid` |

What the code does, as proved: the span of the result is `[A.min, A.max + B.max]`.  `B`'s entries are moved by
`A.max` — the TEXTGRID's end, not the end of `A`'s tier of that name (the two differ when the tier is shorter than its
textgrid; the tier-level `appendTier` uses the tier's end).  A tier under a name of both is re-made with
`new(entries = A's ++ moved B's, min, max)`: span `[A.min, A.max + B.max]`.  A tier only `B` has is moved and re-made
with that span.  A tier only `A` has is added AS IT IS (finding).

Hypotheses of `appendTg_spec`, and what happens without them (each excluded case was evaluated on the model, `#guard`s
at the end of the file, and replayed on the real class with the same outcome):
* `A`'s tiers lie inside `A`'s span (an invariant of every textgrid built with addTier/removeTier/renameTier/
  replaceTier, `C12.covered_run`): a tier that sticks out can overlap `B`'s moved entries → `TextgridStateError`.
* `B`'s tiers start at or after 0: an entry of `B` at a negative time lands BETWEEN `A`'s entries (the constructor
  sorts), overlaps one (`TextgridStateError`), or is dropped / clipped at 0 without notice by `editTimestamps`.
* `0 ≤ A.max`: same clipping.  `0 ≤ B.max`, `A.min ≤ A.max`: otherwise the span is not `[A.min, A.max + B.max]`.
* same tier class under a common name: otherwise `appendTg_class_clash`.
* both `maxTimestamp`s known: the model returns `ValueError` when one is `None` (`Textgrid()` without tiers); the real
  code raises `TypeError` (`None + float`) — outside the modelled domain (`Err` has no `TypeError`).

The model is STRICTER than the code in one case that the generators never produce: a name of both with different
classes where `B`'s tier has NO entry — the code concatenates an empty tuple and succeeds (keeping `A`'s tier), the
model's `catTier` answers `ValueError`.  `appendTg_class_clash` is therefore a statement about the code only when
`B`'s clashing tier has an entry.
-/
namespace C09
open C12 (AnyWF subst namesOf insAt widenLo widenHi)

/-! ## the entries of `B` after the move -/

/-- an interval moved by `o` -/
def shiftIv (o : Int) (iv : Iv Int) : Iv Int := ⟨o + iv.s, o + iv.e, iv.l⟩
/-- a point moved by `o` -/
def shiftPt (o : Int) (p : Pt Int) : Pt Int := ⟨p.t + o, p.l⟩

/-- the tier of the result under a name that both textgrids have: `A`'s entries followed by `B`'s entries moved by
`A`'s END (the textgrid's `maxTimestamp`, not the tier's), under `A`'s tier name and the new span; for point tiers the
constructor sorts the list by (time, label) -/
def joinTier (glo ghi hhi : Int) (t u : AnyTier Int) : AnyTier Int :=
  match t, u with
  | .I t, .I u => .I ⟨t.name, t.es ++ u.es.map (shiftIv ghi), glo, ghi + hhi⟩
  | .P t, .P u => .P ⟨t.name, sortPts (t.ps ++ u.ps.map (shiftPt ghi)), glo, ghi + hhi⟩
  | t, _ => t

/-- the tier of the result under a name that only `B` has -/
def movedTier (glo ghi hhi : Int) (u : AnyTier Int) : AnyTier Int :=
  match u with
  | .I u => .I ⟨u.name, u.es.map (shiftIv ghi), glo, ghi + hhi⟩
  | .P u => .P ⟨u.name, u.ps.map (shiftPt ghi), glo, ghi + hhi⟩

theorem joinTier_name (glo ghi hhi : Int) (t u : AnyTier Int) : (joinTier glo ghi hhi t u).name = t.name := by
  cases t <;> cases u <;> rfl

theorem movedTier_name (glo ghi hhi : Int) (u : AnyTier Int) : (movedTier glo ghi hhi u).name = u.name := by
  cases u <;> rfl

/-! ## list helpers -/

theorem find_of_mem : ∀ (l : List (AnyTier Int)), (namesOf l).Nodup → ∀ t ∈ l,
    l.find? (·.name == t.name) = some t := by
  intro l
  induction l with
  | nil => intro _ t ht; cases ht
  | cons a l ih =>
    intro hnd t ht
    have hnd' : a.name ∉ namesOf l ∧ (namesOf l).Nodup := List.nodup_cons.1 hnd
    rw [List.find?_cons]
    by_cases hat : a.name = t.name
    · have hb : (a.name == t.name) = true := by simpa using hat
      rw [hb]
      rcases List.mem_cons.1 ht with rfl | ht
      · rfl
      · exact absurd (hat ▸ List.mem_map_of_mem ht : a.name ∈ namesOf l) hnd'.1
    · have hb : (a.name == t.name) = false := by simpa using hat
      rw [hb]
      rcases List.mem_cons.1 ht with rfl | ht
      · exact absurd rfl hat
      · exact ih hnd'.2 t ht

theorem getTier_of_mem {g : Tg Int} (hnd : g.names.Nodup) {t : AnyTier Int} (ht : t ∈ g.tiers) :
    g.getTier t.name = .ok t := by
  unfold Tg.getTier
  rw [find_of_mem g.tiers hnd t ht]

theorem getTier_absent {g : Tg Int} {n : String} (hn : n ∉ g.names) : g.getTier n = .error .KeyError := by
  unfold Tg.getTier
  cases hf : g.tiers.find? (·.name == n) with
  | none => rfl
  | some t => exact absurd (List.mem_map.2 ⟨t, (C12.find_name hf).1, (C12.find_name hf).2⟩) hn

/-! ## tier level: what `new`, `editTimestamps` and the concatenation do to well-formed tiers -/

theorem inew_span (t : ITier Int) (hp : Pos t.es) (hd : Disj t.es) (hs : Stripped t.es) (lo hi : Int) (hlh : lo ≤ hi) :
    t.new (lo := some lo) (hi := some hi) =
      .ok ⟨t.name, t.es, hullMin (t.es.map (·.s)) lo, hullMax (t.es.map (·.e)) hi⟩ := by
  unfold ITier.new
  simp only [Option.getD_none, Option.getD_some]
  exact mkITier_of_wf t.name t.es lo hi hlh hp hd hs

/-- `tier.new(minTimestamp=lo, maxTimestamp=hi)` followed by `editTimestamps(o)` on a well-formed interval tier none
of whose entries would be moved below 0: the entries moved by `o` (the intermediate span does not matter later) -/
theorem prepI (u : ITier Int) (hu : u.WF) (lo hi o : Int) (hlh : lo ≤ hi) (hnc : ∀ iv ∈ u.es, 0 ≤ o + iv.s) :
    ∃ t1 t2, u.new (lo := some lo) (hi := some hi) = .ok t1 ∧ t1.editTimestamps o .warning = .ok t2 ∧
      t2.WF ∧ t2.name = u.name ∧ t2.es = u.es.map (shiftIv o) := by
  obtain ⟨t1, e1, w1, es1, n1, _, _⟩ := mkITier_wf u.name u.es lo hi hlh hu.pos hu.disj hu.stripped
  have e1' : u.new (lo := some lo) (hi := some hi) = .ok t1 := by
    unfold ITier.new; simp only [Option.getD_none, Option.getD_some]; exact e1
  obtain ⟨t2, e2, w2, n2, _, _, _⟩ := shift_ok t1 w1 o .warning (by decide)
  have hes := shift_noclip t1 w1 o .warning (by decide) (by rw [es1]; exact hnc) t2 e2
  exact ⟨t1, t2, e1', e2, w2, by rw [n2, n1], by rw [hes, es1]; rfl⟩

theorem pnew_span (t : PTier Int) (hsrt : t.ps.Pairwise (fun a b => Pt.le a b = true))
    (hs : ∀ p ∈ t.ps, pyStrip p.l = p.l) (lo hi : Int) :
    t.new (lo := some lo) (hi := some hi) =
      .ok ⟨t.name, t.ps, hullMin (t.ps.map (·.t) ++ [lo]) hi, hullMax (t.ps.map (·.t) ++ [lo]) hi⟩ := by
  unfold PTier.new
  simp only [Option.getD_none, Option.getD_some]
  exact mkPTier_of_wf t.name t.ps lo hi hsrt hs

theorem prepP (u : PTier Int) (hu : u.WF) (lo hi o : Int) (hnc : ∀ p ∈ u.ps, 0 ≤ p.t + o) :
    ∃ t1 t2, u.new (lo := some lo) (hi := some hi) = .ok t1 ∧ t1.editTimestamps o .warning = .ok t2 ∧
      t2.WF ∧ t2.name = u.name ∧ t2.ps = u.ps.map (shiftPt o) := by
  have e1 := pnew_span u hu.sorted hu.stripped lo hi
  have h1 := hullMin_le (u.ps.map (·.t) ++ [lo]) hi
  have h2 := hullMax_ge (u.ps.map (·.t) ++ [lo]) hi
  have w1 : (⟨u.name, u.ps, hullMin (u.ps.map (·.t) ++ [lo]) hi, hullMax (u.ps.map (·.t) ++ [lo]) hi⟩ : PTier Int).WF :=
    { sorted := hu.sorted, stripped := hu.stripped
      inLo := fun p hp => h1.2 _ (List.mem_append_left _ (List.mem_map_of_mem hp))
      inHi := fun p hp => h2.2 _ (List.mem_append_left _ (List.mem_map_of_mem hp))
      span := by simp only; omega }
  obtain ⟨t2, e2, w2, n2, p2, _⟩ := pshift_ok _ w1 o .warning (by decide)
  refine ⟨_, t2, e1, e2, w2, n2, ?_⟩
  rw [p2]
  apply filterMap_eq_map'
  intro p hp
  have := hnc p hp
  rw [if_neg (by omega)]
  rfl

/-- `A`'s entries followed by `B`'s entries moved by `o`, when `A`'s entries end at or before `o` and `B`'s start at
or after 0: still positive, in time order without overlap, labels stripped -/
theorem cat_wf (t u : ITier Int) (ht : t.WF) (hu : u.WF) (o : Int) (hto : t.hi ≤ o) (hulo : 0 ≤ u.lo) :
    Pos (t.es ++ u.es.map (shiftIv o)) ∧ Disj (t.es ++ u.es.map (shiftIv o)) ∧
    Stripped (t.es ++ u.es.map (shiftIv o)) := by
  refine ⟨?_, ?_, ?_⟩
  · intro iv hiv
    rcases List.mem_append.1 hiv with h | h
    · exact ht.pos iv h
    · obtain ⟨iv', hiv', rfl⟩ := List.mem_map.1 h
      have := hu.pos iv' hiv'
      simp only [shiftIv]; omega
  · unfold Disj
    rw [List.pairwise_append]
    refine ⟨ht.disj, ?_, ?_⟩
    · rw [List.pairwise_map]
      exact hu.disj.imp (by intro a b hab; simp only [shiftIv]; omega)
    · intro a ha b hb
      obtain ⟨iv, hiv, rfl⟩ := List.mem_map.1 hb
      have := ht.inHi a ha
      have := hu.inLo iv hiv
      simp only [shiftIv]; omega
  · intro iv hiv
    rcases List.mem_append.1 hiv with h | h
    · exact ht.stripped iv h
    · obtain ⟨iv', hiv', rfl⟩ := List.mem_map.1 h
      exact hu.stripped iv' hiv'

/-- the constructor on a stripped (not necessarily sorted) point list inside `[lo, hi]` -/
theorem mkPTier_inside (name : String) (ps : List (Pt Int)) (lo hi : Int) (hs : ∀ p ∈ ps, pyStrip p.l = p.l)
    (hin : ∀ p ∈ ps, lo ≤ p.t ∧ p.t ≤ hi) (hlh : lo ≤ hi) :
    mkPTier name ps (some lo) (some hi) = .ok ⟨name, sortPts ps, lo, hi⟩ ∧
      (⟨name, sortPts ps, lo, hi⟩ : PTier Int).WF := by
  have hperm := C14.sortPts_perm ps
  have hs' : ∀ p ∈ sortPts ps, pyStrip p.l = p.l := fun p hp => hs p (hperm.mem_iff.1 hp)
  have hin' : ∀ p ∈ sortPts ps, lo ≤ p.t ∧ p.t ≤ hi := fun p hp => hin p (hperm.mem_iff.1 hp)
  obtain ⟨r, e, w, e1, e2, e3, e4⟩ := mkPTier_wf name (sortPts ps) lo hi (C14.sortPts_pairwise ps) hs'
    (fun p hp => (hin' p hp).1) (fun p hp => (hin' p hp).2) hlh
  have hsame : mkPTier name ps (some lo) (some hi) = mkPTier name (sortPts ps) (some lo) (some hi) := by
    unfold mkPTier
    simp only [C14.map_strip_pts ps hs, C14.map_strip_pts (sortPts ps) hs']
    rw [show sortPts (sortPts ps) = sortPts ps from List.mergeSort_of_pairwise (C14.sortPts_pairwise ps)]
  obtain ⟨n', ps', lo', hi'⟩ := r
  simp only at e1 e2 e3 e4
  subst e1 e2 e3 e4
  exact ⟨hsame.trans e, w⟩

/-! ## the two loops of `appendTextgrid` -/

/-- the body of the first loop (`retTG.addTier(self.getTier(tierName))`) -/
def step1 (g : Tg Int) (acc : Tg Int) (n : String) : Except Err (Tg Int) := do
  let t ← g.getTier n
  acc.addTier t none .warning

/-- the body of the second loop -/
def step2 (h : Tg Int) (minT : Option Int) (maxT ghi : Int) (acc : Tg Int) (n : String) : Except Err (Tg Int) := do
  let t ← h.getTier n
  let t1 ← t.renew (lo := minT) (hi := some maxT)
  let t2 ← t1.editTimestamps ghi .warning
  if acc.names.contains n then do
    let cur ← acc.getTier n
    let nt ← Tg.catTier cur t2 minT (some maxT)
    acc.replaceTier n nt .warning
  else do
    let nt ← t2.renew (lo := minT) (hi := some maxT)
    acc.addTier nt none .warning

/-- `finalTierNames` -/
def finalNames (g h : Tg Int) (om : Bool) : List String :=
  if om then (g.names ++ h.names.filter (fun n => !g.names.contains n)).filter
      (fun n => g.names.contains n && h.names.contains n)
  else g.names ++ h.names.filter (fun n => !g.names.contains n)

theorem appendTextgrid_eq (g h : Tg Int) (om : Bool) (ghi hhi : Int) (hg : g.hi = some ghi) (hh : h.hi = some hhi) :
    g.appendTextgrid h om =
      (((finalNames g h om).filter g.names.contains).foldlM (step1 g) (Tg.ofSpan g.lo (some (ghi + hhi))) >>= fun r1 =>
        ((finalNames g h om).filter h.names.contains).foldlM (step2 h g.lo (ghi + hhi) ghi) r1) := by
  unfold Tg.appendTextgrid
  rw [hg, hh]
  rfl

theorem step1_ok (g : Tg Int) (hnd : g.names.Nodup) (lo hi : Int) (acc : List (AnyTier Int)) (t : AnyTier Int)
    (ht : t ∈ g.tiers) (hlo : lo ≤ t.lo) (hhi : t.hi ≤ hi) (hfresh : t.name ∉ namesOf acc) :
    step1 g ⟨acc, some lo, some hi⟩ t.name = .ok ⟨acc ++ [t], some lo, some hi⟩ := by
  unfold step1
  rw [getTier_of_mem hnd ht]
  show Tg.addTier ⟨acc, some lo, some hi⟩ t none .warning = _
  rw [C12.addTier_fresh _ _ _ _ hfresh, if_neg (by simp)]
  have m1 : widenLo (some lo) t.lo = lo := by simp only [widenLo]; omega
  have m2 : widenHi (some hi) t.hi = hi := by simp only [widenHi]; omega
  simp only [m1, m2, insAt]

theorem loop1 (g : Tg Int) (hnd : g.names.Nodup) (lo hi : Int) :
    ∀ (ts acc : List (AnyTier Int)), (∀ t ∈ ts, t ∈ g.tiers ∧ lo ≤ t.lo ∧ t.hi ≤ hi) →
      (namesOf acc ++ namesOf ts).Nodup →
      (namesOf ts).foldlM (step1 g) ⟨acc, some lo, some hi⟩ = .ok ⟨acc ++ ts, some lo, some hi⟩ := by
  intro ts
  induction ts with
  | nil => intro acc _ _; simp [namesOf]; rfl
  | cons t ts ih =>
    intro acc hts hnd2
    obtain ⟨h1, h2, h3⟩ := hts t (by simp)
    have hfresh : t.name ∉ namesOf acc := by
      intro hm
      exact (List.nodup_append.1 hnd2).2.2 _ hm t.name (by simp [namesOf]) rfl
    show (t.name :: namesOf ts).foldlM (step1 g) _ = _
    rw [List.foldlM_cons, step1_ok g hnd lo hi acc t h1 h2 h3 hfresh]
    show (namesOf ts).foldlM (step1 g) ⟨acc ++ [t], some lo, some hi⟩ = _
    rw [ih (acc ++ [t]) (fun t' ht' => hts t' (List.mem_cons_of_mem _ ht'))
      (by simpa [namesOf, List.append_assoc] using hnd2)]
    simp

/-- a class-independent reading of "the moved entries of `u`" -/
def MovedOf (ghi : Int) (u t2 : AnyTier Int) : Prop :=
  match u, t2 with
  | .I u, .I t2 => t2.es = u.es.map (shiftIv ghi)
  | .P u, .P t2 => t2.ps = u.ps.map (shiftPt ghi)
  | _, _ => False

/-- what `new` / `editTimestamps` make of a tier of `B` before it is joined or added: its entries moved by `ghi`
(some span that plays no role afterwards) -/
theorem prep (u : AnyTier Int) (hu : AnyWF u) (glo maxT ghi : Int) (hlh : glo ≤ maxT) (hnc : 0 ≤ ghi + u.lo) :
    ∃ t1 t2, u.renew (lo := some glo) (hi := some maxT) = .ok t1 ∧ t1.editTimestamps ghi .warning = .ok t2 ∧
      AnyWF t2 ∧ t2.name = u.name ∧
      MovedOf ghi u t2 := by
  cases u with
  | I u =>
    have hu : u.WF := hu
    obtain ⟨t1, t2, e1, e2, w2, n2, es2⟩ := prepI u hu glo maxT ghi hlh
      (fun iv hiv => by have := hu.inLo iv hiv; have : u.lo = (AnyTier.I u).lo := rfl; omega)
    refine ⟨.I t1, .I t2, ?_, ?_, w2, n2, es2⟩
    · simp only [AnyTier.renew, e1]; rfl
    · simp only [AnyTier.editTimestamps, e2]; rfl
  | P u =>
    have hu : u.WF := hu
    obtain ⟨t1, t2, e1, e2, w2, n2, ps2⟩ := prepP u hu glo maxT ghi
      (fun p hp => by have := hu.inLo p hp; have : u.lo = (AnyTier.P u).lo := rfl; omega)
    refine ⟨.P t1, .P t2, ?_, ?_, w2, n2, ps2⟩
    · simp only [AnyTier.renew, e1]; rfl
    · simp only [AnyTier.editTimestamps, e2]; rfl

/-- joining: `tier.new(entries = A's entries + moved entries of B, minTimestamp, maxTimestamp)` -/
theorem cat_ok (glo ghi hhi : Int) (t u t2 : AnyTier Int)
    (htwf : AnyWF t) (htlo : glo ≤ t.lo) (hthi : t.hi ≤ ghi) (huwf : AnyWF u) (hulo : 0 ≤ u.lo) (huhi : u.hi ≤ hhi)
    (hcls : t.isInterval = u.isInterval) (hgl : glo ≤ ghi) (hh0 : 0 ≤ hhi) (w2 : AnyWF t2)
    (hes : MovedOf ghi u t2) :
    Tg.catTier t t2 (some glo) (some (ghi + hhi)) = .ok (joinTier glo ghi hhi t u) ∧
      AnyWF (joinTier glo ghi hhi t u) := by
  cases t with
  | I t =>
    cases u with
    | P u => cases hcls
    | I u =>
      cases t2 with
      | P t2 => exact (hes : False).elim
      | I t2 =>
        have ht : t.WF := htwf
        have hu : u.WF := huwf
        have hes : t2.es = u.es.map (shiftIv ghi) := hes
        have htlo : glo ≤ t.lo := htlo
        have hthi : t.hi ≤ ghi := hthi
        have hulo : 0 ≤ u.lo := hulo
        have huhi : u.hi ≤ hhi := huhi
        obtain ⟨hp, hd, hs⟩ := cat_wf t u ht hu ghi hthi hulo
        obtain ⟨r, r1, r2, r3, r4, r5, r6⟩ := mkITier_wf t.name (t.es ++ u.es.map (shiftIv ghi)) glo (ghi + hhi)
          (by omega) hp hd hs
        have e5 : r.lo = glo := by
          rw [r5]; apply hullMin_eq_of_le
          intro x hx
          obtain ⟨iv, hiv, rfl⟩ := List.mem_map.1 hx
          rcases List.mem_append.1 hiv with h | h
          · have := ht.inLo iv h; omega
          · obtain ⟨iv', hiv', rfl⟩ := List.mem_map.1 h
            have := hu.inLo iv' hiv'
            simp only [shiftIv]; omega
        have e6 : r.hi = ghi + hhi := by
          rw [r6]; apply hullMax_eq_of_ge
          intro x hx
          obtain ⟨iv, hiv, rfl⟩ := List.mem_map.1 hx
          rcases List.mem_append.1 hiv with h | h
          · have := ht.inHi iv h; omega
          · obtain ⟨iv', hiv', rfl⟩ := List.mem_map.1 h
            have := hu.inHi iv' hiv'
            simp only [shiftIv]; omega
        have hr : r = ⟨t.name, t.es ++ u.es.map (shiftIv ghi), glo, ghi + hhi⟩ := by
          obtain ⟨n', es', lo', hi'⟩ := r
          simp only at r3 r4 e5 e6
          subst r3 r4 e5 e6
          rfl
        constructor
        · simp only [Tg.catTier, ITier.new, Option.getD_none, Option.getD_some, hes, r1, hr]
          rfl
        · show ITier.WF _
          rw [← hr]; exact r2
  | P t =>
    cases u with
    | I u => cases hcls
    | P u =>
      cases t2 with
      | I t2 => exact (hes : False).elim
      | P t2 =>
        have ht : t.WF := htwf
        have hu : u.WF := huwf
        have hes : t2.ps = u.ps.map (shiftPt ghi) := hes
        have htlo : glo ≤ t.lo := htlo
        have hthi : t.hi ≤ ghi := hthi
        have hulo : 0 ≤ u.lo := hulo
        have huhi : u.hi ≤ hhi := huhi
        have hs : ∀ p ∈ t.ps ++ u.ps.map (shiftPt ghi), pyStrip p.l = p.l := by
          intro p hp
          rcases List.mem_append.1 hp with h | h
          · exact ht.stripped p h
          · obtain ⟨q, hq, rfl⟩ := List.mem_map.1 h
            exact hu.stripped q hq
        have hin : ∀ p ∈ t.ps ++ u.ps.map (shiftPt ghi), glo ≤ p.t ∧ p.t ≤ ghi + hhi := by
          intro p hp
          rcases List.mem_append.1 hp with h | h
          · have := ht.inLo p h; have := ht.inHi p h; omega
          · obtain ⟨q, hq, rfl⟩ := List.mem_map.1 h
            have := hu.inLo q hq; have := hu.inHi q hq
            simp only [shiftPt]; omega
        obtain ⟨e, w⟩ := mkPTier_inside t.name _ glo (ghi + hhi) hs hin (by omega)
        constructor
        · simp only [Tg.catTier, PTier.new, Option.getD_none, Option.getD_some, hes, e]
          rfl
        · exact w

/-- re-spanning the moved tier of `B` (a name that only `B` has) -/
theorem moved_ok (glo ghi hhi : Int) (u t2 : AnyTier Int)
    (huwf : AnyWF u) (hulo : 0 ≤ u.lo) (huhi : u.hi ≤ hhi) (hgl : glo ≤ ghi) (hh0 : 0 ≤ hhi)
    (w2 : AnyWF t2) (hn : t2.name = u.name)
    (hes : MovedOf ghi u t2) :
    t2.renew (lo := some glo) (hi := some (ghi + hhi)) = .ok (movedTier glo ghi hhi u) ∧
      AnyWF (movedTier glo ghi hhi u) := by
  cases u with
  | I u =>
    cases t2 with
    | P t2 => exact (hes : False).elim
    | I t2 =>
      have hu : u.WF := huwf
      have w2 : t2.WF := w2
      have hes : t2.es = u.es.map (shiftIv ghi) := hes
      have hn : t2.name = u.name := hn
      have hulo : 0 ≤ u.lo := hulo
      have huhi : u.hi ≤ hhi := huhi
      obtain ⟨r, r1, r2, r3, r4, r5, r6⟩ := mkITier_wf t2.name t2.es glo (ghi + hhi)
        (by omega) w2.pos w2.disj w2.stripped
      have e5 : r.lo = glo := by
        rw [r5]; apply hullMin_eq_of_le
        intro x hx
        obtain ⟨iv, hiv, rfl⟩ := List.mem_map.1 hx
        rw [hes] at hiv
        obtain ⟨iv', hiv', rfl⟩ := List.mem_map.1 hiv
        have := hu.inLo iv' hiv'
        simp only [shiftIv]; omega
      have e6 : r.hi = ghi + hhi := by
        rw [r6]; apply hullMax_eq_of_ge
        intro x hx
        obtain ⟨iv, hiv, rfl⟩ := List.mem_map.1 hx
        rw [hes] at hiv
        obtain ⟨iv', hiv', rfl⟩ := List.mem_map.1 hiv
        have := hu.inHi iv' hiv'
        simp only [shiftIv]; omega
      have hr : r = ⟨u.name, u.es.map (shiftIv ghi), glo, ghi + hhi⟩ := by
        obtain ⟨n', es', lo', hi'⟩ := r
        simp only at r3 r4 e5 e6
        subst r3 r4 e5 e6
        rw [hes, hn]
      constructor
      · simp only [AnyTier.renew, ITier.new, Option.getD_none, Option.getD_some, r1, hr]
        rfl
      · show ITier.WF _
        rw [← hr]; exact r2
  | P u =>
    cases t2 with
    | I t2 => exact (hes : False).elim
    | P t2 =>
      have hu : u.WF := huwf
      have w2 : t2.WF := w2
      have hes : t2.ps = u.ps.map (shiftPt ghi) := hes
      have hn : t2.name = u.name := hn
      have hulo : 0 ≤ u.lo := hulo
      have huhi : u.hi ≤ hhi := huhi
      have hin : ∀ p ∈ t2.ps, glo ≤ p.t ∧ p.t ≤ ghi + hhi := by
        intro p hp
        rw [hes] at hp
        obtain ⟨q, hq, rfl⟩ := List.mem_map.1 hp
        have := hu.inLo q hq; have := hu.inHi q hq
        simp only [shiftPt]; omega
      obtain ⟨r, r1, r2, r3, r4, r5, r6⟩ := mkPTier_wf t2.name t2.ps glo (ghi + hhi) w2.sorted w2.stripped
        (fun p hp => (hin p hp).1) (fun p hp => (hin p hp).2) (by omega)
      have hr : r = ⟨u.name, u.ps.map (shiftPt ghi), glo, ghi + hhi⟩ := by
        obtain ⟨n', ps', lo', hi'⟩ := r
        simp only at r3 r4 r5 r6
        subst r3 r4 r5 r6
        rw [hes, hn]
      constructor
      · simp only [AnyTier.renew, PTier.new, Option.getD_none, Option.getD_some, r1, hr]
        rfl
      · show PTier.WF _
        rw [← hr]; exact r2

/-- one iteration of the second loop for a name that the result already has -/
theorem step2_matched (h : Tg Int) (hnd : h.names.Nodup) (glo ghi hhi : Int) (cur : List (AnyTier Int))
    (hcn : (namesOf cur).Nodup) (t u : AnyTier Int) (ht : t ∈ cur) (hu : u ∈ h.tiers) (hname : t.name = u.name)
    (htwf : AnyWF t) (htlo : glo ≤ t.lo) (hthi : t.hi ≤ ghi) (huwf : AnyWF u) (hulo : 0 ≤ u.lo) (huhi : u.hi ≤ hhi)
    (hcls : t.isInterval = u.isInterval) (h0 : 0 ≤ ghi) (hgl : glo ≤ ghi) (hh0 : 0 ≤ hhi) :
    step2 h (some glo) (ghi + hhi) ghi ⟨cur, some glo, some (ghi + hhi)⟩ t.name =
      .ok ⟨subst cur t.name (joinTier glo ghi hhi t u), some glo, some (ghi + hhi)⟩ := by
  obtain ⟨t1, t2, e1, e2, w2, n2, es2⟩ := prep u huwf glo (ghi + hhi) ghi (by omega) (by omega)
  obtain ⟨e3, _⟩ := cat_ok glo ghi hhi t u t2 htwf htlo hthi huwf hulo huhi hcls hgl hh0 w2 es2
  have e0 : h.getTier t.name = .ok u := by rw [hname]; exact getTier_of_mem hnd hu
  have hmem : t.name ∈ (⟨cur, some glo, some (ghi + hhi)⟩ : Tg Int).names := List.mem_map_of_mem ht
  have ec : (⟨cur, some glo, some (ghi + hhi)⟩ : Tg Int).names.contains t.name = true :=
    List.contains_iff_mem.2 hmem
  have e4 : (⟨cur, some glo, some (ghi + hhi)⟩ : Tg Int).getTier t.name = .ok t :=
    getTier_of_mem (g := ⟨cur, some glo, some (ghi + hhi)⟩) hcn ht
  have e5 := C12.replaceTier_eq ⟨cur, some glo, some (ghi + hhi)⟩ t.name (joinTier glo ghi hhi t u) .warning hcn
  rw [if_neg (fun hh => hh hmem), if_neg (fun hh => hh.1 (joinTier_name _ _ _ _ _)), if_neg (by simp)] at e5
  have m1 : widenLo (some glo) (joinTier glo ghi hhi t u).lo = glo := by
    have : (joinTier glo ghi hhi t u).lo = glo ∨ (joinTier glo ghi hhi t u).lo = t.lo := by
      cases t <;> cases u <;> simp [joinTier, AnyTier.lo]
    simp only [widenLo]; omega
  have m2 : widenHi (some (ghi + hhi)) (joinTier glo ghi hhi t u).hi = ghi + hhi := by
    have : (joinTier glo ghi hhi t u).hi = ghi + hhi ∨ (joinTier glo ghi hhi t u).hi = t.hi := by
      cases t <;> cases u <;> simp [joinTier, AnyTier.hi]
    simp only [widenHi]; omega
  simp only [m1, m2] at e5
  unfold step2
  simp only [e0, e1, e2, ec, e4, e3, e5, bind, Except.bind, if_true]

/-- one iteration of the second loop for a name that the result does not have yet -/
theorem step2_new (h : Tg Int) (hnd : h.names.Nodup) (glo ghi hhi : Int) (cur : List (AnyTier Int))
    (u : AnyTier Int) (hu : u ∈ h.tiers) (hfresh : u.name ∉ namesOf cur)
    (huwf : AnyWF u) (hulo : 0 ≤ u.lo) (huhi : u.hi ≤ hhi) (h0 : 0 ≤ ghi) (hgl : glo ≤ ghi) (hh0 : 0 ≤ hhi) :
    step2 h (some glo) (ghi + hhi) ghi ⟨cur, some glo, some (ghi + hhi)⟩ u.name =
      .ok ⟨cur ++ [movedTier glo ghi hhi u], some glo, some (ghi + hhi)⟩ := by
  obtain ⟨t1, t2, e1, e2, w2, n2, es2⟩ := prep u huwf glo (ghi + hhi) ghi (by omega) (by omega)
  obtain ⟨e3, _⟩ := moved_ok glo ghi hhi u t2 huwf hulo huhi hgl hh0 w2 n2 es2
  have e0 : h.getTier u.name = .ok u := getTier_of_mem hnd hu
  have ec : (⟨cur, some glo, some (ghi + hhi)⟩ : Tg Int).names.contains u.name = false := by
    have : ¬ ((⟨cur, some glo, some (ghi + hhi)⟩ : Tg Int).names.contains u.name = true) := by
      rw [List.contains_iff_mem]; exact hfresh
    simpa using this
  have e5 := C12.addTier_fresh ⟨cur, some glo, some (ghi + hhi)⟩ (movedTier glo ghi hhi u) none .warning
    (by rw [movedTier_name]; exact hfresh)
  rw [if_neg (by simp)] at e5
  have m1 : widenLo (some glo) (movedTier glo ghi hhi u).lo = glo := by
    have : (movedTier glo ghi hhi u).lo = glo := by cases u <;> rfl
    simp only [widenLo]; omega
  have m2 : widenHi (some (ghi + hhi)) (movedTier glo ghi hhi u).hi = ghi + hhi := by
    have : (movedTier glo ghi hhi u).hi = ghi + hhi := by cases u <;> rfl
    simp only [widenHi]; omega
  simp only [m1, m2, insAt] at e5
  unfold step2
  simp only [e0, e1, e2, ec, e3, e5, bind, Except.bind, Bool.false_eq_true, if_false]

/-- the tier of the result that stands where `A`'s tier `t` stood: joined with `B`'s tier of that name if there is one -/
def joinOf (h : Tg Int) (glo ghi hhi : Int) (t : AnyTier Int) : AnyTier Int :=
  match h.tiers.find? (·.name == t.name) with
  | some u => joinTier glo ghi hhi t u
  | none => t

theorem joinOf_name (h : Tg Int) (glo ghi hhi : Int) (t : AnyTier Int) : (joinOf h glo ghi hhi t).name = t.name := by
  unfold joinOf
  split
  · exact joinTier_name _ _ _ _ _
  · rfl

theorem joinOf_partner {h : Tg Int} (hnd : h.names.Nodup) (glo ghi hhi : Int) {t u : AnyTier Int}
    (hu : u ∈ h.tiers) (hn : t.name = u.name) : joinOf h glo ghi hhi t = joinTier glo ghi hhi t u := by
  unfold joinOf
  rw [hn, find_of_mem h.tiers hnd u hu]

theorem joinOf_alone {h : Tg Int} (glo ghi hhi : Int) {t : AnyTier Int} (hn : t.name ∉ h.names) :
    joinOf h glo ghi hhi t = t := by
  unfold joinOf
  cases hf : h.tiers.find? (·.name == t.name) with
  | none => rfl
  | some u => exact absurd (List.mem_map.2 ⟨u, (C12.find_name hf).1, (C12.find_name hf).2⟩) hn

theorem names_subst_same (l : List (AnyTier Int)) (n : String) (t : AnyTier Int) (ht : t.name = n) :
    namesOf (subst l n t) = namesOf l := by
  unfold namesOf subst
  rw [List.map_map]
  apply List.map_congr_left
  intro u _
  simp only [Function.comp]
  split
  · rename_i hu; rw [ht, hu]
  · rfl

theorem eq_of_name {l : List (AnyTier Int)} (hnd : (namesOf l).Nodup) {a b : AnyTier Int} (ha : a ∈ l) (hb : b ∈ l)
    (hn : a.name = b.name) : a = b := by
  have h1 := find_of_mem l hnd a ha
  have h2 := find_of_mem l hnd b hb
  rw [hn, h2] at h1
  exact (Option.some.inj h1).symm

/-- the hypotheses on a tier of `A` that has a partner in `B` -/
def GoodPair (h : Tg Int) (glo ghi hhi : Int) (t : AnyTier Int) : Prop :=
  AnyWF t ∧ glo ≤ t.lo ∧ t.hi ≤ ghi ∧
    ∃ u ∈ h.tiers, t.name = u.name ∧ AnyWF u ∧ 0 ≤ u.lo ∧ u.hi ≤ hhi ∧ t.isInterval = u.isInterval

/-- the second loop over names that the result already has: every such tier is replaced, in place, by the joined tier -/
theorem loop2_matched (h : Tg Int) (hnd : h.names.Nodup) (glo ghi hhi : Int)
    (h0 : 0 ≤ ghi) (hgl : glo ≤ ghi) (hh0 : 0 ≤ hhi) :
    ∀ (M cur : List (AnyTier Int)), (namesOf cur).Nodup → (namesOf M).Nodup →
      (∀ t ∈ M, t ∈ cur ∧ GoodPair h glo ghi hhi t) →
      (namesOf M).foldlM (step2 h (some glo) (ghi + hhi) ghi) ⟨cur, some glo, some (ghi + hhi)⟩ =
        .ok ⟨cur.map (fun x => if x.name ∈ namesOf M then joinOf h glo ghi hhi x else x),
             some glo, some (ghi + hhi)⟩ := by
  intro M
  induction M with
  | nil =>
    intro cur _ _ _
    simp [namesOf]; rfl
  | cons t M ih =>
    intro cur hcn hmn hM
    obtain ⟨htc, htwf, htlo, hthi, u, hu, hname, huwf, hulo, huhi, hcls⟩ := hM t (by simp)
    obtain ⟨htM, hmn'⟩ : t.name ∉ namesOf M ∧ (namesOf M).Nodup := List.nodup_cons.1 hmn
    show (t.name :: namesOf M).foldlM _ _ = _
    rw [List.foldlM_cons, step2_matched h hnd glo ghi hhi cur hcn t u htc hu hname htwf htlo hthi huwf hulo huhi
      hcls h0 hgl hh0]
    show (namesOf M).foldlM _ _ = _
    have hJ : joinTier glo ghi hhi t u = joinOf h glo ghi hhi t := (joinOf_partner hnd glo ghi hhi hu hname).symm
    rw [hJ]
    have hcn' : (namesOf (subst cur t.name (joinOf h glo ghi hhi t))).Nodup := by
      rw [names_subst_same _ _ _ (joinOf_name _ _ _ _ _)]; exact hcn
    rw [ih _ hcn' hmn' (by
      intro t' ht'
      refine ⟨?_, (hM t' (List.mem_cons_of_mem _ ht')).2⟩
      have hne : t'.name ≠ t.name := fun e => htM (e ▸ List.mem_map_of_mem ht')
      unfold subst
      exact List.mem_map.2 ⟨t', (hM t' (List.mem_cons_of_mem _ ht')).1, by rw [if_neg hne]⟩)]
    congr 2
    unfold subst
    rw [List.map_map]
    apply List.map_congr_left
    intro x hx
    simp only [Function.comp]
    by_cases hxt : x.name = t.name
    · have : x = t := eq_of_name hcn hx htc hxt
      subst this
      rw [if_pos rfl, joinOf_name, if_neg htM, if_pos (by simp [namesOf])]
    · rw [if_neg hxt]
      have : x.name ∈ namesOf (t :: M) ↔ x.name ∈ namesOf M := by
        simp [namesOf, hxt]
      by_cases hxm : x.name ∈ namesOf M
      · rw [if_pos hxm, if_pos (this.2 hxm)]
      · rw [if_neg hxm, if_neg (fun hh => hxm (this.1 hh))]

/-- the second loop over names that only `B` has: the moved tiers are added at the end, in `B`'s order -/
theorem loop2_new (h : Tg Int) (hnd : h.names.Nodup) (glo ghi hhi : Int)
    (h0 : 0 ≤ ghi) (hgl : glo ≤ ghi) (hh0 : 0 ≤ hhi) :
    ∀ (us cur : List (AnyTier Int)), (namesOf cur ++ namesOf us).Nodup →
      (∀ u ∈ us, u ∈ h.tiers ∧ AnyWF u ∧ 0 ≤ u.lo ∧ u.hi ≤ hhi) →
      (namesOf us).foldlM (step2 h (some glo) (ghi + hhi) ghi) ⟨cur, some glo, some (ghi + hhi)⟩ =
        .ok ⟨cur ++ us.map (movedTier glo ghi hhi), some glo, some (ghi + hhi)⟩ := by
  intro us
  induction us with
  | nil => intro cur _ _; simp [namesOf]; rfl
  | cons u us ih =>
    intro cur hnd2 hus
    obtain ⟨hu, huwf, hulo, huhi⟩ := hus u (by simp)
    have hfresh : u.name ∉ namesOf cur := by
      intro hm
      exact (List.nodup_append.1 hnd2).2.2 _ hm u.name (by simp [namesOf]) rfl
    show (u.name :: namesOf us).foldlM _ _ = _
    rw [List.foldlM_cons, step2_new h hnd glo ghi hhi cur u hu hfresh huwf hulo huhi h0 hgl hh0]
    show (namesOf us).foldlM _ _ = _
    rw [ih (cur ++ [movedTier glo ghi hhi u]) (by
        simpa [namesOf, List.append_assoc, movedTier_name] using hnd2)
      (fun u' hu' => hus u' (List.mem_cons_of_mem _ hu'))]
    simp

/-! ## the result, in closed form -/

/-- the tier list of `A.appendTextgrid(B, onlyMatchingNames)`: `A`'s tiers in `A`'s order — each joined with `B`'s
tier of the same name if there is one, otherwise left as it is (`onlyMatchingNames = False`) or dropped (`True`) —
followed (`False` only) by `B`'s tiers under names `A` does not have, moved, in `B`'s order -/
def resultTiers (g h : Tg Int) (om : Bool) (glo ghi hhi : Int) : List (AnyTier Int) :=
  if om then (g.tiers.filter (fun t => h.names.contains t.name)).map (joinOf h glo ghi hhi)
  else g.tiers.map (joinOf h glo ghi hhi) ++
    (h.tiers.filter (fun u => !g.names.contains u.name)).map (movedTier glo ghi hhi)

theorem names_filter_tiers (l : List (AnyTier Int)) (p : String → Bool) :
    (namesOf l).filter p = namesOf (l.filter (fun t => p t.name)) := by
  unfold namesOf
  rw [List.filter_map]
  rfl

theorem map_joinOf_names (h : Tg Int) (glo ghi hhi : Int) (l : List (AnyTier Int)) :
    namesOf (l.map (joinOf h glo ghi hhi)) = namesOf l := by
  unfold namesOf
  rw [List.map_map]
  apply List.map_congr_left
  intro x _
  exact joinOf_name _ _ _ _ _

theorem appendTg_eq (g h : Tg Int) (om : Bool) (glo ghi hhi : Int)
    (hglo : g.lo = some glo) (hghi : g.hi = some ghi) (hhhi : h.hi = some hhi)
    (gnd : g.names.Nodup) (hnd : h.names.Nodup)
    (gwf : ∀ t ∈ g.tiers, AnyWF t ∧ glo ≤ t.lo ∧ t.hi ≤ ghi)
    (hwf : ∀ u ∈ h.tiers, AnyWF u ∧ 0 ≤ u.lo ∧ u.hi ≤ hhi)
    (hgl : glo ≤ ghi) (h0 : 0 ≤ ghi) (hh0 : 0 ≤ hhi)
    (hcls : ∀ t ∈ g.tiers, ∀ u ∈ h.tiers, t.name = u.name → t.isInterval = u.isInterval) :
    g.appendTextgrid h om = .ok ⟨resultTiers g h om glo ghi hhi, some glo, some (ghi + hhi)⟩ := by
  rw [appendTextgrid_eq g h om ghi hhi hghi hhhi, hglo]
  have hr0 : (Tg.ofSpan (some glo) (some (ghi + hhi)) : Tg Int) = ⟨[], some glo, some (ghi + hhi)⟩ := rfl
  rw [hr0]
  -- the matched tiers of `A`
  have hM : ∀ t ∈ g.tiers.filter (fun t => h.names.contains t.name),
      t ∈ g.tiers ∧ GoodPair h glo ghi hhi t := by
    intro t ht
    obtain ⟨htg, htn⟩ := List.mem_filter.1 ht
    have htn : t.name ∈ h.names := List.contains_iff_mem.1 htn
    obtain ⟨u, hu, hun⟩ := List.mem_map.1 htn
    obtain ⟨w, l1, l2⟩ := gwf t htg
    obtain ⟨w', l1', l2'⟩ := hwf u hu
    exact ⟨htg, w, l1, l2, u, hu, hun.symm, w', l1', l2', hcls t htg u hu hun.symm⟩
  have hMnd : (namesOf (g.tiers.filter (fun t => h.names.contains t.name))).Nodup := by
    rw [← names_filter_tiers]; exact gnd.filter _
  have hmapM : ∀ (l : List (AnyTier Int)), (∀ x ∈ l, x ∈ g.tiers) →
      l.map (fun x => if x.name ∈ namesOf (g.tiers.filter (fun t => h.names.contains t.name))
        then joinOf h glo ghi hhi x else x) = l.map (joinOf h glo ghi hhi) := by
    intro l hl
    apply List.map_congr_left
    intro x hx
    split
    · rfl
    · rename_i hxm
      refine (joinOf_alone glo ghi hhi ?_).symm
      intro hxh
      exact hxm (List.mem_map_of_mem (List.mem_filter.2 ⟨hl x hx, List.contains_iff_mem.2 hxh⟩))
  cases om with
  | false =>
    have e1 : (finalNames g h false).filter g.names.contains = namesOf g.tiers := by
      show (g.names ++ h.names.filter (fun n => !g.names.contains n)).filter g.names.contains = _
      rw [names_lemA]; rfl
    have e2 : (finalNames g h false).filter h.names.contains =
        namesOf (g.tiers.filter (fun t => h.names.contains t.name)) ++
          namesOf (h.tiers.filter (fun u => !g.names.contains u.name)) := by
      show (g.names ++ h.names.filter (fun n => !g.names.contains n)).filter h.names.contains = _
      rw [names_lemB]
      congr 1
      · exact names_filter_tiers g.tiers _
      · exact names_filter_tiers h.tiers _
    rw [e1, e2, loop1 g gnd glo (ghi + hhi) g.tiers []
      (fun t ht => ⟨ht, (gwf t ht).2.1, by have := (gwf t ht).2.2; omega⟩) (by rw [show namesOf ([] : List (AnyTier Int)) = [] from rfl, List.nil_append]; exact gnd)]
    simp only [bind, Except.bind, List.nil_append]
    rw [List.foldlM_append, loop2_matched h hnd glo ghi hhi h0 hgl hh0 _ g.tiers gnd hMnd hM]
    simp only [bind, Except.bind]
    rw [hmapM g.tiers (fun x hx => hx)]
    rw [loop2_new h hnd glo ghi hhi h0 hgl hh0 _ _ (by
        rw [map_joinOf_names, ← names_filter_tiers h.tiers (fun n => !g.names.contains n)]
        exact names_comb_nodup g.names h.names gnd hnd)
      (fun u hu => ⟨(List.mem_filter.1 hu).1, hwf u (List.mem_filter.1 hu).1⟩)]
    rfl
  | true =>
    have e1 : (finalNames g h true).filter g.names.contains =
        namesOf (g.tiers.filter (fun t => h.names.contains t.name)) := by
      show ((g.names ++ h.names.filter (fun n => !g.names.contains n)).filter
        (fun n => g.names.contains n && h.names.contains n)).filter g.names.contains = _
      rw [names_lemC, names_lemD]
      exact names_filter_tiers g.tiers _
    have e2 : (finalNames g h true).filter h.names.contains =
        namesOf (g.tiers.filter (fun t => h.names.contains t.name)) := by
      show ((g.names ++ h.names.filter (fun n => !g.names.contains n)).filter
        (fun n => g.names.contains n && h.names.contains n)).filter h.names.contains = _
      rw [names_lemC, names_lemE]
      exact names_filter_tiers g.tiers _
    rw [e1, e2, loop1 g gnd glo (ghi + hhi) _ []
      (fun t ht => ⟨(hM t ht).1, (gwf t (hM t ht).1).2.1, by have := (gwf t (hM t ht).1).2.2; omega⟩)
      (by rw [show namesOf ([] : List (AnyTier Int)) = [] from rfl, List.nil_append]; exact hMnd)]
    simp only [bind, Except.bind, List.nil_append]
    rw [loop2_matched h hnd glo ghi hhi h0 hgl hh0 _ _ hMnd hMnd (fun t ht => ⟨ht, (hM t ht).2⟩)]
    rw [hmapM _ (fun x hx => (hM x hx).1)]
    rfl

/-! ## reading the closed form -/

theorem mem_resultTiers (g h : Tg Int) (om : Bool) (glo ghi hhi : Int) (hnd : h.names.Nodup) (x : AnyTier Int) :
    x ∈ resultTiers g h om glo ghi hhi ↔
      (∃ t ∈ g.tiers, ∃ u ∈ h.tiers, t.name = u.name ∧ x = joinTier glo ghi hhi t u) ∨
      (om = false ∧ x ∈ g.tiers ∧ x.name ∉ h.names) ∨
      (om = false ∧ ∃ u ∈ h.tiers, u.name ∉ g.names ∧ x = movedTier glo ghi hhi u) := by
  have hjoin : ∀ t ∈ g.tiers, t.name ∈ h.names →
      ∃ u ∈ h.tiers, t.name = u.name ∧ joinOf h glo ghi hhi t = joinTier glo ghi hhi t u := by
    intro t _ htn
    obtain ⟨u, hu, hun⟩ := List.mem_map.1 htn
    exact ⟨u, hu, hun.symm, joinOf_partner hnd glo ghi hhi hu hun.symm⟩
  cases om with
  | true =>
    simp only [resultTiers, if_true, List.mem_map, List.mem_filter]
    constructor
    · rintro ⟨t, ⟨ht, htn⟩, rfl⟩
      obtain ⟨u, hu, hn, e⟩ := hjoin t ht (List.contains_iff_mem.1 htn)
      exact Or.inl ⟨t, ht, u, hu, hn, e⟩
    · rintro (⟨t, ht, u, hu, hn, rfl⟩ | ⟨hf, _⟩ | ⟨hf, _⟩)
      · exact ⟨t, ⟨ht, List.contains_iff_mem.2 (hn ▸ List.mem_map_of_mem hu)⟩,
          joinOf_partner hnd glo ghi hhi hu hn⟩
      · cases hf
      · cases hf
  | false =>
    simp only [resultTiers, Bool.false_eq_true, if_false, List.mem_append, List.mem_map, List.mem_filter]
    constructor
    · rintro (⟨t, ht, rfl⟩ | ⟨u, ⟨hu, hun⟩, rfl⟩)
      · by_cases htn : t.name ∈ h.names
        · obtain ⟨u, hu, hn, e⟩ := hjoin t ht htn
          exact Or.inl ⟨t, ht, u, hu, hn, e⟩
        · rw [joinOf_alone glo ghi hhi htn]
          exact Or.inr (Or.inl ⟨trivial, ht, htn⟩)
      · refine Or.inr (Or.inr ⟨trivial, u, hu, ?_, rfl⟩)
        intro hm
        rw [List.contains_iff_mem.2 hm] at hun
        cases hun
    · rintro (⟨t, ht, u, hu, hn, rfl⟩ | ⟨_, hx, hxn⟩ | ⟨_, u, hu, hun, rfl⟩)
      · exact Or.inl ⟨t, ht, joinOf_partner hnd glo ghi hhi hu hn⟩
      · exact Or.inl ⟨x, hx, joinOf_alone glo ghi hhi hxn⟩
      · refine Or.inr ⟨u, ⟨hu, ?_⟩, rfl⟩
        have : ¬ (g.names.contains u.name = true) := by rw [List.contains_iff_mem]; exact hun
        simpa using this

/-- **tier order**: the names of the result -/
theorem resultTiers_names (g h : Tg Int) (om : Bool) (glo ghi hhi : Int) :
    namesOf (resultTiers g h om glo ghi hhi) =
      (if om then g.names.filter (h.names.contains ·)
       else g.names ++ h.names.filter (fun n => !g.names.contains n)) := by
  cases om with
  | true =>
    simp only [resultTiers, if_true]
    rw [map_joinOf_names, ← names_filter_tiers]
    rfl
  | false =>
    simp only [resultTiers, Bool.false_eq_true, if_false]
    show namesOf (_ ++ _) = _
    unfold namesOf
    rw [List.map_append]
    congr 1
    · exact map_joinOf_names h glo ghi hhi g.tiers
    · rw [List.map_map]
      have : (AnyTier.name ∘ movedTier glo ghi hhi) = (AnyTier.name : AnyTier Int → String) := by
        funext u; exact movedTier_name _ _ _ _
      rw [this]
      exact (names_filter_tiers h.tiers (fun n => !g.names.contains n)).symm

theorem resultTiers_nodup (g h : Tg Int) (om : Bool) (glo ghi hhi : Int) (gnd : g.names.Nodup) (hnd : h.names.Nodup) :
    (namesOf (resultTiers g h om glo ghi hhi)).Nodup := by
  rw [resultTiers_names]
  split
  · exact gnd.filter _
  · exact names_comb_nodup g.names h.names gnd hnd

theorem joinTier_span (glo ghi hhi : Int) (t u : AnyTier Int) (hcls : t.isInterval = u.isInterval) :
    (joinTier glo ghi hhi t u).lo = glo ∧ (joinTier glo ghi hhi t u).hi = ghi + hhi := by
  cases t <;> cases u <;> first | exact ⟨rfl, rfl⟩ | cases hcls

theorem movedTier_span (glo ghi hhi : Int) (u : AnyTier Int) :
    (movedTier glo ghi hhi u).lo = glo ∧ (movedTier glo ghi hhi u).hi = ghi + hhi := by
  cases u <;> exact ⟨rfl, rfl⟩

theorem joinTier_wf (glo ghi hhi : Int) (t u : AnyTier Int)
    (htwf : AnyWF t) (htlo : glo ≤ t.lo) (hthi : t.hi ≤ ghi) (huwf : AnyWF u) (hulo : 0 ≤ u.lo) (huhi : u.hi ≤ hhi)
    (hcls : t.isInterval = u.isInterval) (h0 : 0 ≤ ghi) (hgl : glo ≤ ghi) (hh0 : 0 ≤ hhi) :
    AnyWF (joinTier glo ghi hhi t u) := by
  obtain ⟨t1, t2, _, _, w2, _, es2⟩ := prep u huwf glo (ghi + hhi) ghi (by omega) (by omega)
  exact (cat_ok glo ghi hhi t u t2 htwf htlo hthi huwf hulo huhi hcls hgl hh0 w2 es2).2

theorem movedTier_wf (glo ghi hhi : Int) (u : AnyTier Int)
    (huwf : AnyWF u) (hulo : 0 ≤ u.lo) (huhi : u.hi ≤ hhi) (h0 : 0 ≤ ghi) (hgl : glo ≤ ghi) (hh0 : 0 ≤ hhi) :
    AnyWF (movedTier glo ghi hhi u) := by
  obtain ⟨t1, t2, _, _, w2, n2, es2⟩ := prep u huwf glo (ghi + hhi) ghi (by omega) (by omega)
  exact (moved_ok glo ghi hhi u t2 huwf hulo huhi hgl hh0 w2 n2 es2).2

/-- the joined point tier is THE (time, label)-sorted arrangement of `A`'s points and `B`'s moved points; it is the
plain concatenation unless a point of `A` at `A`'s end and a point of `B` at time 0 stand in reverse label order -/
theorem join_points (t u : PTier Int) (ht : t.WF) (hu : u.WF) (ghi : Int) (hthi : t.hi ≤ ghi) (hulo : 0 ≤ u.lo) :
    (sortPts (t.ps ++ u.ps.map (shiftPt ghi))).Perm (t.ps ++ u.ps.map (shiftPt ghi)) ∧
    (sortPts (t.ps ++ u.ps.map (shiftPt ghi))).Pairwise (fun a b => Pt.le a b = true) ∧
    (∀ a ∈ t.ps, ∀ b ∈ u.ps.map (shiftPt ghi), a.t ≤ ghi ∧ ghi ≤ b.t) ∧
    ((∀ a ∈ t.ps, ∀ b ∈ u.ps, a.t = ghi → b.t = 0 → a.l ≤ b.l) →
      sortPts (t.ps ++ u.ps.map (shiftPt ghi)) = t.ps ++ u.ps.map (shiftPt ghi)) := by
  refine ⟨C14.sortPts_perm _, C14.sortPts_pairwise _, ?_, ?_⟩
  · intro a ha b hb
    obtain ⟨q, hq, rfl⟩ := List.mem_map.1 hb
    have := ht.inHi a ha
    have := hu.inLo q hq
    simp only [shiftPt]; omega
  · intro hlab
    apply List.mergeSort_of_pairwise
    rw [List.pairwise_append]
    refine ⟨ht.sorted, ?_, ?_⟩
    · rw [List.pairwise_map]
      refine hu.sorted.imp ?_
      intro a b hab
      simp only [Pt.le, shiftPt] at hab ⊢
      grind
    · intro a ha b hb
      obtain ⟨q, hq, rfl⟩ := List.mem_map.1 hb
      have h1 := ht.inHi a ha
      have h2 := hu.inLo q hq
      by_cases hlt : a.t < q.t + ghi
      · exact C11.Pt.le_of_lt_time hlt
      · have e1 : a.t = ghi := by omega
        have e2 : q.t = 0 := by omega
        have := hlab a ha q hq e1 e2
        have hb' : (shiftPt ghi q).t = q.t + ghi := rfl
        unfold Pt.le
        rw [if_neg (by rw [hb']; omega), if_neg (by rw [hb']; omega)]
        exact decide_eq_true this

/-- **C09, `Textgrid.appendTextgrid(tg, onlyMatchingNames)` — the full specification.**

`g` = `A` (the receiver), `h` = `B` (the argument), `om` = `onlyMatchingNames`.  Hypotheses: both tier-name lists
duplicate-free; every tier well-formed; `A`'s tiers lie inside `A`'s span `[glo, ghi]` (they need not fill it);
`B`'s tiers start at or after time 0 and end at or before `B`'s `maxTimestamp` `hhi` (`B`'s `minTimestamp` is never
read); `glo ≤ ghi`, `0 ≤ ghi`, `0 ≤ hhi`; a name that both textgrids have names tiers of the same class.

Then the call succeeds and
1. the result's span is `[glo, ghi + hhi]`;
2. its tier list is `resultTiers` — `A`'s tiers in `A`'s order, each joined with `B`'s tier of the same name
   (`joinTier`: `A`'s entries, then `B`'s entries moved by `ghi` = the TEXTGRID's end, labels kept, span
   `[glo, ghi + hhi]`; point tiers are re-sorted by (time, label), see `join_points`), a tier without partner left
   exactly as it is (`om = false`) or dropped (`om = true`); then (`om = false`) `B`'s tiers without partner,
   moved by `ghi`, span `[glo, ghi + hhi]`, in `B`'s order;
3. the names are the documented ones, pairwise different; every tier is well-formed;
4. look-ups by name for the three kinds of names;
5. `validate()` of the result is true EXACTLY when no tier of `A` is carried over unchanged with a span other
   than `[glo, ghi + hhi]` — see `appendTg_onlyA_counterexample`. -/
theorem appendTg_spec (g h : Tg Int) (om : Bool) (glo ghi hhi : Int)
    (hglo : g.lo = some glo) (hghi : g.hi = some ghi) (hhhi : h.hi = some hhi)
    (gnd : g.names.Nodup) (hnd : h.names.Nodup)
    (gwf : ∀ t ∈ g.tiers, AnyWF t ∧ glo ≤ t.lo ∧ t.hi ≤ ghi)
    (hwf : ∀ u ∈ h.tiers, AnyWF u ∧ 0 ≤ u.lo ∧ u.hi ≤ hhi)
    (hgl : glo ≤ ghi) (h0 : 0 ≤ ghi) (hh0 : 0 ≤ hhi)
    (hcls : ∀ t ∈ g.tiers, ∀ u ∈ h.tiers, t.name = u.name → t.isInterval = u.isInterval) :
    ∃ r, g.appendTextgrid h om = .ok r ∧
      r.lo = some glo ∧ r.hi = some (ghi + hhi) ∧
      r.tiers = resultTiers g h om glo ghi hhi ∧
      r.names = (if om then g.names.filter (h.names.contains ·)
                 else g.names ++ h.names.filter (fun n => !g.names.contains n)) ∧
      r.names.Nodup ∧
      (∀ x ∈ r.tiers, AnyWF x) ∧
      (∀ t ∈ g.tiers, ∀ u ∈ h.tiers, t.name = u.name →
        r.getTier t.name = .ok (joinTier glo ghi hhi t u)) ∧
      (∀ t ∈ g.tiers, t.name ∉ h.names →
        r.getTier t.name = if om then .error .KeyError else .ok t) ∧
      (∀ u ∈ h.tiers, u.name ∉ g.names →
        r.getTier u.name = if om then .error .KeyError else .ok (movedTier glo ghi hhi u)) ∧
      (∀ x ∈ r.tiers, (x.lo = glo ∧ x.hi = ghi + hhi) ∨ (om = false ∧ x ∈ g.tiers ∧ x.name ∉ h.names)) ∧
      (r.validate = true ↔
        (om = true ∨ ∀ t ∈ g.tiers, t.name ∉ h.names → t.lo = glo ∧ t.hi = ghi + hhi)) := by
  have he := appendTg_eq g h om glo ghi hhi hglo hghi hhhi gnd hnd gwf hwf hgl h0 hh0 hcls
  have hnames := resultTiers_names g h om glo ghi hhi
  have hrnd := resultTiers_nodup g h om glo ghi hhi gnd hnd
  have hmem := mem_resultTiers g h om glo ghi hhi hnd
  have hwfall : ∀ x ∈ resultTiers g h om glo ghi hhi, AnyWF x := by
    intro x hx
    rcases (hmem x).1 hx with ⟨t, ht, u, hu, hn, rfl⟩ | ⟨_, hx, _⟩ | ⟨_, u, hu, _, rfl⟩
    · obtain ⟨w, l1, l2⟩ := gwf t ht
      obtain ⟨w', l1', l2'⟩ := hwf u hu
      exact joinTier_wf glo ghi hhi t u w l1 l2 w' l1' l2' (hcls t ht u hu hn) h0 hgl hh0
    · exact (gwf x hx).1
    · obtain ⟨w', l1', l2'⟩ := hwf u hu
      exact movedTier_wf glo ghi hhi u w' l1' l2' h0 hgl hh0
  have hspans : ∀ x ∈ resultTiers g h om glo ghi hhi,
      (x.lo = glo ∧ x.hi = ghi + hhi) ∨ (om = false ∧ x ∈ g.tiers ∧ x.name ∉ h.names) := by
    intro x hx
    rcases (hmem x).1 hx with ⟨t, ht, u, hu, hn, rfl⟩ | ⟨ho, hx, hxn⟩ | ⟨_, u, hu, _, rfl⟩
    · exact Or.inl (joinTier_span glo ghi hhi t u (hcls t ht u hu hn))
    · exact Or.inr ⟨ho, hx, hxn⟩
    · exact Or.inl (movedTier_span glo ghi hhi u)
  refine ⟨⟨resultTiers g h om glo ghi hhi, some glo, some (ghi + hhi)⟩, he, rfl, rfl, rfl, hnames,
    hrnd, hwfall, ?_, ?_, ?_, hspans, ?_⟩
  · intro t ht u hu hn
    have hx : joinTier glo ghi hhi t u ∈ resultTiers g h om glo ghi hhi :=
      (hmem _).2 (Or.inl ⟨t, ht, u, hu, hn, rfl⟩)
    have := getTier_of_mem (g := ⟨resultTiers g h om glo ghi hhi, some glo, some (ghi + hhi)⟩) hrnd hx
    rwa [joinTier_name] at this
  · intro t ht htn
    cases om with
    | true =>
      rw [if_pos rfl]
      apply getTier_absent
      show t.name ∉ namesOf _
      rw [hnames, if_pos rfl]
      intro hm
      exact htn (List.contains_iff_mem.1 (List.mem_filter.1 hm).2)
    | false =>
      rw [if_neg (by simp)]
      exact getTier_of_mem (g := ⟨resultTiers g h false glo ghi hhi, some glo, some (ghi + hhi)⟩) hrnd
        ((hmem t).2 (Or.inr (Or.inl ⟨rfl, ht, htn⟩)))
  · intro u hu hun
    cases om with
    | true =>
      rw [if_pos rfl]
      apply getTier_absent
      show u.name ∉ namesOf _
      rw [hnames, if_pos rfl]
      intro hm
      exact hun (List.mem_filter.1 hm).1
    | false =>
      rw [if_neg (by simp)]
      have hx : movedTier glo ghi hhi u ∈ resultTiers g h false glo ghi hhi :=
        (hmem _).2 (Or.inr (Or.inr ⟨rfl, u, hu, hun, rfl⟩))
      have := getTier_of_mem (g := ⟨resultTiers g h false glo ghi hhi, some glo, some (ghi + hhi)⟩) hrnd hx
      rwa [movedTier_name] at this
  · rw [C12.validate_iff]
    constructor
    · rintro ⟨_, hall⟩
      cases om with
      | true => exact Or.inl rfl
      | false =>
        right
        intro t ht htn
        obtain ⟨e1, e2, _⟩ := hall t ((hmem t).2 (Or.inr (Or.inl ⟨rfl, ht, htn⟩)))
        exact ⟨(Option.some.inj e1).symm, (Option.some.inj e2).symm⟩
    · intro hc
      refine ⟨hrnd, ?_⟩
      intro x hx
      have hv := C12.anywf_validate (hwfall x hx)
      rcases hspans x hx with ⟨e1, e2⟩ | ⟨ho, hxg, hxn⟩
      · exact ⟨by rw [e1], by rw [e2], hv⟩
      · rcases hc with hc | hc
        · rw [ho] at hc; cases hc
        · obtain ⟨e1, e2⟩ := hc x hxg hxn
          exact ⟨by rw [e1], by rw [e2], hv⟩

/-! ## refusal: one name, two tier classes -/

theorem step2_clash (h : Tg Int) (hnd : h.names.Nodup) (glo ghi hhi : Int) (cur : List (AnyTier Int))
    (hcn : (namesOf cur).Nodup) (t u : AnyTier Int) (ht : t ∈ cur) (hu : u ∈ h.tiers) (hname : t.name = u.name)
    (huwf : AnyWF u) (hulo : 0 ≤ u.lo) (hcls : t.isInterval ≠ u.isInterval)
    (h0 : 0 ≤ ghi) (hgl : glo ≤ ghi) (hh0 : 0 ≤ hhi) :
    step2 h (some glo) (ghi + hhi) ghi ⟨cur, some glo, some (ghi + hhi)⟩ t.name = .error .ValueError := by
  obtain ⟨t1, t2, e1, e2, w2, n2, es2⟩ := prep u huwf glo (ghi + hhi) ghi (by omega) (by omega)
  have e0 : h.getTier t.name = .ok u := by rw [hname]; exact getTier_of_mem hnd hu
  have hmem : t.name ∈ (⟨cur, some glo, some (ghi + hhi)⟩ : Tg Int).names := List.mem_map_of_mem ht
  have ec : (⟨cur, some glo, some (ghi + hhi)⟩ : Tg Int).names.contains t.name = true :=
    List.contains_iff_mem.2 hmem
  have e4 : (⟨cur, some glo, some (ghi + hhi)⟩ : Tg Int).getTier t.name = .ok t :=
    getTier_of_mem (g := ⟨cur, some glo, some (ghi + hhi)⟩) hcn ht
  have e3 : Tg.catTier t t2 (some glo) (some (ghi + hhi)) = .error .ValueError := by
    cases t <;> cases u <;> cases t2 <;>
      first | rfl | exact absurd rfl hcls | exact (es2 : False).elim
  unfold step2
  simp only [e0, e1, e2, ec, e4, e3, bind, Except.bind, if_true]

theorem exists_first {β : Type} (p : β → Prop) :
    ∀ (l : List β), (∃ x ∈ l, p x) → ∃ pre x post, l = pre ++ x :: post ∧ p x ∧ ∀ y ∈ pre, ¬ p y := by
  intro l
  induction l with
  | nil => rintro ⟨x, hx, _⟩; cases hx
  | cons a l ih =>
    rintro ⟨x, hx, hpx⟩
    by_cases ha : p a
    · exact ⟨[], a, l, rfl, ha, by intro y hy; cases hy⟩
    · have : ∃ x ∈ l, p x := by
        rcases List.mem_cons.1 hx with rfl | hx
        · exact absurd hpx ha
        · exact ⟨x, hx, hpx⟩
      obtain ⟨pre, y, post, e, hy, hpre⟩ := ih this
      refine ⟨a :: pre, y, post, by rw [e]; rfl, hy, ?_⟩
      intro z hz
      rcases List.mem_cons.1 hz with rfl | hz
      · exact ha
      · exact hpre z hz

/-- **refusal.**  Under the other hypotheses of `appendTg_spec`: if some name occurs in both textgrids with different
tier classes (interval tier in one, point tier in the other), the model refuses with the BUILT-IN `ValueError`
(the real code: `ValueError: not enough values to unpack` from deep inside the tier constructor — not a praatio
error), for either value of `onlyMatchingNames`.  (The real code raises it only when `B`'s tier has an entry — see the
report: the model is stricter on an empty tier of the other class.) -/
theorem appendTg_class_clash (g h : Tg Int) (om : Bool) (glo ghi hhi : Int)
    (hglo : g.lo = some glo) (hghi : g.hi = some ghi) (hhhi : h.hi = some hhi)
    (gnd : g.names.Nodup) (hnd : h.names.Nodup)
    (gwf : ∀ t ∈ g.tiers, AnyWF t ∧ glo ≤ t.lo ∧ t.hi ≤ ghi)
    (hwf : ∀ u ∈ h.tiers, AnyWF u ∧ 0 ≤ u.lo ∧ u.hi ≤ hhi)
    (hgl : glo ≤ ghi) (h0 : 0 ≤ ghi) (hh0 : 0 ≤ hhi)
    (hclash : ∃ t ∈ g.tiers, ∃ u ∈ h.tiers, t.name = u.name ∧ t.isInterval ≠ u.isInterval) :
    g.appendTextgrid h om = .error .ValueError ∧ Err.isPraatio .ValueError = false := by
  refine ⟨?_, rfl⟩
  rw [appendTextgrid_eq g h om ghi hhi hghi hhhi, hglo]
  have hr0 : (Tg.ofSpan (some glo) (some (ghi + hhi)) : Tg Int) = ⟨[], some glo, some (ghi + hhi)⟩ := rfl
  rw [hr0]
  -- the first tier of `A`, in `A`'s order, whose partner is of the other class
  let bad : AnyTier Int → Prop := fun t => ∃ u ∈ h.tiers, t.name = u.name ∧ t.isInterval ≠ u.isInterval
  have hex : ∃ t ∈ g.tiers.filter (fun t => h.names.contains t.name), bad t := by
    obtain ⟨t, ht, u, hu, hn, hc⟩ := hclash
    exact ⟨t, List.mem_filter.2 ⟨ht, List.contains_iff_mem.2 (hn ▸ List.mem_map_of_mem hu)⟩, u, hu, hn, hc⟩
  obtain ⟨pre, t, post, hM, ⟨u, hu, hn, hc⟩, hpre⟩ := exists_first bad _ hex
  have hMmem : ∀ x ∈ pre ++ t :: post, x ∈ g.tiers ∧ x.name ∈ h.names := by
    intro x hx
    rw [← hM] at hx
    exact ⟨(List.mem_filter.1 hx).1, List.contains_iff_mem.1 (List.mem_filter.1 hx).2⟩
  have hMnd : (namesOf (pre ++ t :: post)).Nodup := by
    rw [← hM, ← names_filter_tiers]; exact gnd.filter _
  have hgood : ∀ x ∈ pre, GoodPair h glo ghi hhi x := by
    intro x hx
    obtain ⟨hxg, hxn⟩ := hMmem x (List.mem_append_left _ hx)
    obtain ⟨v, hv, hvn⟩ := List.mem_map.1 hxn
    obtain ⟨w, l1, l2⟩ := gwf x hxg
    obtain ⟨w', l1', l2'⟩ := hwf v hv
    refine ⟨w, l1, l2, v, hv, hvn.symm, w', l1', l2', ?_⟩
    apply Classical.byContradiction
    intro hne
    exact hpre x hx ⟨v, hv, hvn.symm, hne⟩
  -- the second loop from any accumulator that holds `pre` and `t`
  have key : ∀ (cur : List (AnyTier Int)) (X : List String), (namesOf cur).Nodup →
      (∀ x ∈ pre ++ t :: post, x ∈ cur) →
      (namesOf (pre ++ t :: post) ++ X).foldlM (step2 h (some glo) (ghi + hhi) ghi)
        ⟨cur, some glo, some (ghi + hhi)⟩ = .error .ValueError := by
    intro cur X hcn hin
    have hsplit : namesOf (pre ++ t :: post) ++ X = namesOf pre ++ (t.name :: (namesOf post ++ X)) := by
      simp [namesOf]
    have hnd3 : (namesOf pre ++ t.name :: namesOf post).Nodup := by
      simpa [namesOf] using hMnd
    have hprend : (namesOf pre).Nodup := (List.nodup_append.1 hnd3).1
    have htpre : t.name ∉ namesOf pre := by
      intro hm
      exact (List.nodup_append.1 hnd3).2.2 _ hm t.name (by simp) rfl
    rw [hsplit, List.foldlM_append,
      loop2_matched h hnd glo ghi hhi h0 hgl hh0 pre cur hcn hprend
        (fun x hx => ⟨hin x (List.mem_append_left _ hx), hgood x hx⟩)]
    simp only [bind, Except.bind]
    rw [List.foldlM_cons]
    have ht' : t ∈ cur.map (fun x => if x.name ∈ namesOf pre then joinOf h glo ghi hhi x else x) :=
      List.mem_map.2 ⟨t, hin t (by simp), by rw [if_neg htpre]⟩
    have hcn' : (namesOf (cur.map (fun x => if x.name ∈ namesOf pre then joinOf h glo ghi hhi x else x))).Nodup := by
      have : namesOf (cur.map (fun x => if x.name ∈ namesOf pre then joinOf h glo ghi hhi x else x)) = namesOf cur := by
        unfold namesOf
        rw [List.map_map]
        apply List.map_congr_left
        intro x _
        simp only [Function.comp]
        split
        · exact joinOf_name _ _ _ _ _
        · rfl
      rw [this]; exact hcn
    rw [step2_clash h hnd glo ghi hhi _ hcn' t u ht' hu hn (hwf u hu).1 (hwf u hu).2.1 hc h0 hgl hh0]
    rfl
  cases om with
  | false =>
    have e1 : (finalNames g h false).filter g.names.contains = namesOf g.tiers := by
      show (g.names ++ h.names.filter (fun n => !g.names.contains n)).filter g.names.contains = _
      rw [names_lemA]; rfl
    have e2 : (finalNames g h false).filter h.names.contains =
        namesOf (pre ++ t :: post) ++ namesOf (h.tiers.filter (fun u => !g.names.contains u.name)) := by
      show (g.names ++ h.names.filter (fun n => !g.names.contains n)).filter h.names.contains = _
      rw [names_lemB, ← hM]
      congr 1
      · exact names_filter_tiers g.tiers _
      · exact names_filter_tiers h.tiers _
    rw [e1, e2, loop1 g gnd glo (ghi + hhi) g.tiers []
      (fun t ht => ⟨ht, (gwf t ht).2.1, by have := (gwf t ht).2.2; omega⟩)
      (by rw [show namesOf ([] : List (AnyTier Int)) = [] from rfl, List.nil_append]; exact gnd)]
    simp only [bind, Except.bind, List.nil_append]
    exact key g.tiers _ gnd (fun x hx => (hMmem x hx).1)
  | true =>
    have e1 : (finalNames g h true).filter g.names.contains = namesOf (pre ++ t :: post) := by
      show ((g.names ++ h.names.filter (fun n => !g.names.contains n)).filter
        (fun n => g.names.contains n && h.names.contains n)).filter g.names.contains = _
      rw [names_lemC, names_lemD, ← hM]
      exact names_filter_tiers g.tiers _
    have e2 : (finalNames g h true).filter h.names.contains = namesOf (pre ++ t :: post) ++ [] := by
      show ((g.names ++ h.names.filter (fun n => !g.names.contains n)).filter
        (fun n => g.names.contains n && h.names.contains n)).filter h.names.contains = _
      rw [names_lemC, names_lemE, ← hM, List.append_nil]
      exact names_filter_tiers g.tiers _
    rw [e1, e2, loop1 g gnd glo (ghi + hhi) _ []
      (fun x hx => ⟨(hMmem x hx).1, (gwf x (hMmem x hx).1).2.1, by have := (gwf x (hMmem x hx).1).2.2; omega⟩)
      (by rw [show namesOf ([] : List (AnyTier Int)) = [] from rfl, List.nil_append]; exact hMnd)]
    simp only [bind, Except.bind, List.nil_append]
    exact key _ [] hMnd (fun x hx => hx)

/-! ## valid operands -/

/-- **valid operands** (`A.validate()` and `B.validate()` true: every tier fills its textgrid's span; `B` starts at
or after 0): the call succeeds, and the result validates exactly when no tier of `A` is carried over without a
partner, or `B` has length 0. -/
theorem appendTg_valid_operands (g h : Tg Int) (om : Bool) (glo ghi hlo hhi : Int)
    (hglo : g.lo = some glo) (hghi : g.hi = some ghi) (hhlo : h.lo = some hlo) (hhhi : h.hi = some hhi)
    (gv : g.validate = true) (hv : h.validate = true)
    (gwf : ∀ t ∈ g.tiers, AnyWF t) (hwf : ∀ u ∈ h.tiers, AnyWF u)
    (hgl : glo ≤ ghi) (h0 : 0 ≤ ghi) (hl0 : 0 ≤ hlo) (hlh : hlo ≤ hhi)
    (hcls : ∀ t ∈ g.tiers, ∀ u ∈ h.tiers, t.name = u.name → t.isInterval = u.isInterval) :
    ∃ r, g.appendTextgrid h om = .ok r ∧ r.lo = some glo ∧ r.hi = some (ghi + hhi) ∧
      r.tiers = resultTiers g h om glo ghi hhi ∧
      (r.validate = true ↔ (om = true ∨ hhi = 0 ∨ ∀ n ∈ g.names, n ∈ h.names)) := by
  obtain ⟨gnd, gall⟩ := (C12.validate_iff g).1 gv
  obtain ⟨hnd, hall⟩ := (C12.validate_iff h).1 hv
  have gsp : ∀ t ∈ g.tiers, t.lo = glo ∧ t.hi = ghi := by
    intro t ht
    obtain ⟨e1, e2, _⟩ := gall t ht
    rw [hglo] at e1; rw [hghi] at e2
    exact ⟨(Option.some.inj e1).symm, (Option.some.inj e2).symm⟩
  have hsp : ∀ u ∈ h.tiers, u.lo = hlo ∧ u.hi = hhi := by
    intro u hu
    obtain ⟨e1, e2, _⟩ := hall u hu
    rw [hhlo] at e1; rw [hhhi] at e2
    exact ⟨(Option.some.inj e1).symm, (Option.some.inj e2).symm⟩
  obtain ⟨r, e, r1, r2, r3, _, _, _, _, _, _, _, rv⟩ := appendTg_spec g h om glo ghi hhi hglo hghi hhhi gnd hnd
    (fun t ht => ⟨gwf t ht, by rw [(gsp t ht).1]; exact Int.le_refl _, by rw [(gsp t ht).2]; exact Int.le_refl _⟩)
    (fun u hu => ⟨hwf u hu, by rw [(hsp u hu).1]; exact hl0, by rw [(hsp u hu).2]; exact Int.le_refl _⟩)
    hgl h0 (by omega) hcls
  refine ⟨r, e, r1, r2, r3, ?_⟩
  rw [rv]
  constructor
  · rintro (ho | hall)
    · exact Or.inl ho
    · by_cases hz : hhi = 0
      · exact Or.inr (Or.inl hz)
      · refine Or.inr (Or.inr ?_)
        intro n hn
        obtain ⟨t, ht, rfl⟩ := List.mem_map.1 hn
        apply Classical.byContradiction
        intro hnh
        have := (hall t ht hnh).2
        rw [(gsp t ht).2] at this
        omega
  · rintro (ho | hz | hall)
    · exact Or.inl ho
    · right
      intro t ht _
      exact ⟨(gsp t ht).1, by rw [(gsp t ht).2, hz]; omega⟩
    · right
      intro t ht htn
      exact absurd (hall t.name (List.mem_map_of_mem ht)) htn

/-! ## concrete operands: non-vacuity, and the finding -/

def exA : Tg Int :=
  ⟨[.I ⟨"words", [⟨1, 2, "x"⟩], 0, 10⟩, .I ⟨"notes", [⟨3, 4, "y"⟩], 0, 10⟩], some 0, some 10⟩
def exB : Tg Int :=
  ⟨[.I ⟨"words", [⟨1, 2, "z"⟩], 0, 5⟩, .P ⟨"marks", [⟨3, "p"⟩], 0, 5⟩], some 0, some 5⟩

theorem exA_wf : ∀ t ∈ exA.tiers, AnyWF t := by
  intro t ht
  simp only [exA, List.mem_cons, List.not_mem_nil, or_false] at ht
  rcases ht with rfl | rfl <;>
    (show ITier.WF _; refine ⟨?_, ?_, ?_, ?_, ?_, ?_⟩ <;> simp [Pos, Disj, Stripped] <;> decide)

theorem exB_wf : ∀ t ∈ exB.tiers, AnyWF t := by
  intro t ht
  simp only [exB, List.mem_cons, List.not_mem_nil, or_false] at ht
  rcases ht with rfl | rfl
  · show ITier.WF _; refine ⟨?_, ?_, ?_, ?_, ?_, ?_⟩ <;> simp [Pos, Disj, Stripped] <;> decide
  · show PTier.WF _; refine ⟨?_, ?_, ?_, ?_, ?_⟩ <;> simp [Pt.le] <;> decide

theorem exA_valid : exA.validate = true := by
  apply C12.validate_of_spans (by simp [exA, Tg.names, AnyTier.name])
  intro t ht
  refine ⟨?_, ?_, exA_wf t ht⟩ <;>
    (simp only [exA, List.mem_cons, List.not_mem_nil, or_false] at ht; rcases ht with rfl | rfl <;> rfl)

theorem exB_valid : exB.validate = true := by
  apply C12.validate_of_spans (by simp [exB, Tg.names, AnyTier.name])
  intro t ht
  refine ⟨?_, ?_, exB_wf t ht⟩ <;>
    (simp only [exB, List.mem_cons, List.not_mem_nil, or_false] at ht; rcases ht with rfl | rfl <;> rfl)

theorem exAB_cls : ∀ t ∈ exA.tiers, ∀ u ∈ exB.tiers, t.name = u.name → t.isInterval = u.isInterval := by
  intro t ht u hu hn
  simp only [exA, exB, List.mem_cons, List.not_mem_nil, or_false] at ht hu
  rcases ht with rfl | rfl <;> rcases hu with rfl | rfl <;> first | rfl | (simp [AnyTier.name] at hn)

/-- **FINDING (replayed on the real class).**  Two textgrids that both pass `validate()`; `A` has a tier ("notes")
under a name that `B` does not have.  `A.appendTextgrid(B, onlyMatchingNames=False)` succeeds, the result spans
`[0, 15]`, the joined tier "words" and `B`'s moved tier "marks" span `[0, 15]` — but "notes" is carried over with its
OLD span `[0, 10]` (the first loop adds `self.getTier(name)` as it is; only the tiers that come from `B` are re-made
with `new(minTimestamp, maxTimestamp)`), so the result does NOT pass `validate()`: its "span ending at the sum of both
end times" holds for the textgrid and for two of its three tiers only. -/
theorem appendTg_onlyA_counterexample :
    exA.validate = true ∧ exB.validate = true ∧
    ∃ r, exA.appendTextgrid exB false = .ok r ∧ r.lo = some 0 ∧ r.hi = some 15 ∧
      r.names = ["words", "notes", "marks"] ∧
      r.getTier "words" = .ok (.I ⟨"words", [⟨1, 2, "x"⟩, ⟨11, 12, "z"⟩], 0, 15⟩) ∧
      r.getTier "notes" = .ok (.I ⟨"notes", [⟨3, 4, "y"⟩], 0, 10⟩) ∧
      r.getTier "marks" = .ok (.P ⟨"marks", [⟨13, "p"⟩], 0, 15⟩) ∧
      r.validate = false := by
  refine ⟨exA_valid, exB_valid, ?_⟩
  obtain ⟨r, e, r1, r2, r3, rv⟩ := appendTg_valid_operands exA exB false 0 10 0 5 rfl rfl rfl rfl
    exA_valid exB_valid exA_wf exB_wf (by decide) (by decide) (by decide) (by decide) exAB_cls
  have hnv : ¬ (r.validate = true) := by
    rw [rv]
    rintro (h | h | h)
    · cases h
    · cases h
    · have := h "notes" (by simp [exA, Tg.names, AnyTier.name])
      simp [exB, Tg.names, AnyTier.name] at this
  have ht : r.tiers = [.I ⟨"words", [⟨1, 2, "x"⟩, ⟨11, 12, "z"⟩], 0, 15⟩, .I ⟨"notes", [⟨3, 4, "y"⟩], 0, 10⟩,
      .P ⟨"marks", [⟨13, "p"⟩], 0, 15⟩] := by
    rw [r3]
    simp [resultTiers, exA, exB, joinOf, joinTier, movedTier, shiftIv, shiftPt, Tg.names, AnyTier.name]
  refine ⟨r, e, r1, r2, ?_, ?_, ?_, ?_, by simpa using hnv⟩
  · simp [Tg.names, ht, AnyTier.name]
  · simp [Tg.getTier, ht, AnyTier.name]
  · simp [Tg.getTier, ht, AnyTier.name]
  · simp [Tg.getTier, ht, AnyTier.name]

/-- with `onlyMatchingNames = True` the same operands give a result that validates -/
theorem appendTg_onlyMatching_example :
    ∃ r, exA.appendTextgrid exB true = .ok r ∧ r.lo = some 0 ∧ r.hi = some 15 ∧
      r.tiers = [.I ⟨"words", [⟨1, 2, "x"⟩, ⟨11, 12, "z"⟩], 0, 15⟩] ∧ r.validate = true := by
  obtain ⟨r, e, r1, r2, r3, rv⟩ := appendTg_valid_operands exA exB true 0 10 0 5 rfl rfl rfl rfl
    exA_valid exB_valid exA_wf exB_wf (by decide) (by decide) (by decide) (by decide) exAB_cls
  refine ⟨r, e, r1, r2, ?_, rv.2 (Or.inl rfl)⟩
  rw [r3]
  simp [resultTiers, exA, exB, joinOf, joinTier, shiftIv, Tg.names, AnyTier.name]

/-- a point tier under the name of an interval tier: refused with the built-in `ValueError` -/
theorem appendTg_class_clash_example :
    exA.appendTextgrid ⟨[.P ⟨"words", [⟨3, "p"⟩], 0, 5⟩], some 0, some 5⟩ true = .error .ValueError := by
  refine (appendTg_class_clash exA ⟨[.P ⟨"words", [⟨3, "p"⟩], 0, 5⟩], some 0, some 5⟩ true 0 10 5 rfl rfl rfl
    (by simp [exA, Tg.names, AnyTier.name]) (by simp [Tg.names, AnyTier.name])
    (fun t ht => ⟨exA_wf t ht, ?_⟩) ?_ (by decide) (by decide) (by decide) ?_).1
  · simp only [exA, List.mem_cons, List.not_mem_nil, or_false] at ht
    rcases ht with rfl | rfl <;> exact ⟨by decide, by decide⟩
  · intro u hu
    simp only [List.mem_cons, List.not_mem_nil, or_false] at hu
    subst hu
    refine ⟨?_, by decide, by decide⟩
    show PTier.WF _; refine ⟨?_, ?_, ?_, ?_, ?_⟩ <;> simp [Pt.le] <;> decide
  · exact ⟨.I ⟨"words", [⟨1, 2, "x"⟩], 0, 10⟩, by simp [exA], .P ⟨"words", [⟨3, "p"⟩], 0, 5⟩, by simp, rfl, by decide⟩

-- evaluated illustrations (interpreter tests, not proofs): the excluded cases
/-- summary of a result: span, per tier (name, entries — a point as `(t, t, label)` —, tier span), validate() -/
def summ (r : Except Err (Tg Int)) :
    Option (Option Int × Option Int × List (String × List (Int × Int × String) × Int × Int) × Bool) :=
  match r with
  | .error _ => none
  | .ok g => some (g.lo, g.hi, g.tiers.map (fun t => match t with
     | .I t => (t.name, t.es.map (fun (iv : Iv Int) => (iv.s, iv.e, iv.l)), t.lo, t.hi)
     | .P t => (t.name, t.ps.map (fun (p : Pt Int) => (p.t, p.t, p.l)), t.lo, t.hi)), g.validate)

-- the finding, evaluated
#guard summ (exA.appendTextgrid exB false) == some (some 0, some 15,
  [("words", [(1, 2, "x"), (11, 12, "z")], 0, 15), ("notes", [(3, 4, "y")], 0, 10), ("marks", [(13, 13, "p")], 0, 15)], false)
-- a textgrid without tiers as `B`: every tier of `A` is carried over with its old span
#guard summ (exA.appendTextgrid ⟨[], some 0, some 5⟩ false) == some (some 0, some 15,
  [("words", [(1, 2, "x")], 0, 10), ("notes", [(3, 4, "y")], 0, 10)], false)
#guard summ (exA.appendTextgrid ⟨[], some 0, some 5⟩ true) == some (some 0, some 15, [], true)
-- a textgrid without tiers as `A`
#guard summ ((⟨[], some 0, some 10⟩ : Tg Int).appendTextgrid exB false) == some (some 0, some 15,
  [("words", [(11, 12, "z")], 0, 15), ("marks", [(13, 13, "p")], 0, 15)], true)
-- `A`'s tier shorter than `A`: `B`'s entries are moved by the TEXTGRID's end (10), not the tier's (4)
#guard summ ((⟨[.I ⟨"words", [⟨1, 2, "x"⟩], 0, 4⟩], some 0, some 10⟩ : Tg Int).appendTextgrid exB true) ==
  some (some 0, some 15, [("words", [(1, 2, "x"), (11, 12, "z")], 0, 15)], true)
-- excluded: `B` on negative times — its entry lands BETWEEN `A`'s entries
#guard summ ((⟨[.I ⟨"a", [⟨0, 5, "x"⟩, ⟨9, 10, "y"⟩], 0, 10⟩], some 0, some 10⟩ : Tg Int).appendTextgrid
    ⟨[.I ⟨"a", [⟨-3, -2, "n"⟩, ⟨1, 2, "z"⟩], -3, 5⟩], some (-3), some 5⟩ false) ==
  some (some 0, some 15, [("a", [(0, 5, "x"), (7, 8, "n"), (9, 10, "y"), (11, 12, "z")], 0, 15)], true)
-- excluded: `B` on negative times, short `A` — the entry is dropped without notice
#guard summ ((⟨[.I ⟨"a", [⟨0, 1, "x"⟩], 0, 2⟩], some 0, some 2⟩ : Tg Int).appendTextgrid
    ⟨[.I ⟨"a", [⟨-3, -2, "n"⟩, ⟨1, 2, "z"⟩], -3, 5⟩], some (-3), some 5⟩ false) ==
  some (some 0, some 7, [("a", [(0, 1, "x"), (3, 4, "z")], 0, 7)], true)
-- excluded: a tier of `A` that sticks out of `A`'s span (possible only by assigning `maxTimestamp` by hand)
#guard (match (⟨[.I ⟨"a", [⟨8, 12, "x"⟩], 0, 12⟩], some 0, some 10⟩ : Tg Int).appendTextgrid
    ⟨[.I ⟨"a", [⟨1, 3, "z"⟩], 0, 5⟩], some 0, some 5⟩ false with | .error .TextgridStateError => true | _ => false)
-- two points at the seam are ordered by label, not by origin
#guard summ ((⟨[.P ⟨"p", [⟨10, "b"⟩], 0, 10⟩], some 0, some 10⟩ : Tg Int).appendTextgrid
    ⟨[.P ⟨"p", [⟨0, "a"⟩], 0, 5⟩], some 0, some 5⟩ true) ==
  some (some 0, some 15, [("p", [(10, 10, "a"), (10, 10, "b")], 0, 15)], true)

end C09
