import PraatModel.Props.C01Long
import PraatModel.Props.C03

/-!
# C03 — the long-format reader on a FAMILY of conformant layouts

`Layout` describes how a long-format TextGrid file may be laid out (indentation per level, `item [k]` / `item[k]`,
`[k]:` / `[k]`, one or no blank on either side of `=`, trailing blanks per kind of row); `writeLong L` writes a textgrid
in that layout.  praatio's own emitter is the instance `praatLayout` (`writeLong_praat`), the ELAN shape of the
repository's fixtures is `elanLayout`.

* `parseLong_layout` — for every layout with `L.ok` (indents and trailing parts are blanks/tabs), the reader returns
  exactly the data written; `parseLong_layout_crlf` — the same text with CRLF line ends.
* signed numerals (`-0` starts, negative times) are numerals of the family since fix A30: `LongNum` admits a leading `-` on every
  numeric row (`numAfter_gen`); `writeLongS` with its separate sign knob is internal scaffolding (knob off: `parseLong_layoutS`).
* the data hypotheses (`LongNum`, `NoKwLong`, `StrippedLabels`, `NoCRLF`; none on tier names beyond the keywords), classified, and the
  counter-examples for what they exclude: last section.
* `parseLong_elan`, `parseLong_praat`, `long_short_equal`, `dropEmpty_spec`.
* `class_eq_regression`, `parseLong_tight`: regression for finding A22 (fixed, df3976c): the class row used to be recognised by
  the literal substring `class = "IntervalTier"`; it now follows ` ?= ?` like every other row and is part of the family.
-/

namespace C03
open Txt Rd C01

/-! ## blanks -/

def isBlankC (c : Char) : Bool := c == ' ' || c == '\t'
def Blank (l : List Char) : Prop := ∀ c ∈ l, c = ' ' ∨ c = '\t'

theorem blank_of_all (l : List Char) (h : l.all isBlankC = true) : Blank l := by
  intro c hc
  have := List.all_eq_true.1 h c hc
  simpa [isBlankC] using this

theorem Blank.notMem {l : List Char} (h : Blank l) (c : Char) (h1 : c ≠ ' ') (h2 : c ≠ '\t') : c ∉ l := by
  intro hm
  rcases h c hm with e | e
  · exact h1 e
  · exact h2 e

theorem Blank.nil : Blank [] := by intro c hc; simp at hc

theorem Blank.blank_nl {tr : List Char} (h : Blank tr) (rest : List Char) : Rd.blankL (tr ++ '\n' :: rest) = true := by
  induction tr with
  | nil => simp [Rd.blankL]
  | cons c cs ih =>
    have hc := h c (by simp)
    have h1 : (c == '\n') = false := by rcases hc with rfl | rfl <;> decide
    have h2 : pyIsSpace c = true := by rcases hc with rfl | rfl <;> decide
    simp only [List.cons_append, Rd.blankL, h1, h2, Bool.false_eq_true, if_false, if_true]
    exact ih (fun x hx => h x (List.mem_cons_of_mem _ hx))

theorem Blank.head_notNum {tr : List Char} (h : Blank tr) (rest : List Char) :
    ∀ c, (tr ++ '\n' :: rest).head? = some c → numChar c = false := by
  intro c hc
  cases tr with
  | nil => simp at hc; subst hc; decide
  | cons a as =>
    simp at hc; subst hc
    rcases h a (by simp) with rfl | rfl <;> decide

/-! ## layouts -/

inductive Row
  | hMin | hMax | tiersQ | size | top | itemIdx | cls | name | tMin | tMax | cnt | entryIdx | eMin | eMax | eText | pNum | pMark
deriving DecidableEq

def Row.all : List Row :=
  [.hMin, .hMax, .tiersQ, .size, .top, .itemIdx, .cls, .name, .tMin, .tMax, .cnt, .entryIdx, .eMin, .eMax, .eText, .pNum, .pMark]

theorem Row.mem_all (r : Row) : r ∈ Row.all := by cases r <;> simp [Row.all]

/-- a layout of the long text format -/
structure Layout where
  /-- indentation of `item [k]`, of the tier rows, of `intervals [j]` / `points [j]`, of the entry rows -/
  i1 : List Char
  i2 : List Char
  i3 : List Char
  i4 : List Char
  /-- a blank between `item` / `intervals` / `points` and `[`: in the `item []:` line, in the tier lines, in the entry lines -/
  gapTop : Bool
  gapItem : Bool
  gapEntry : Bool
  /-- a colon after `[k]` -/
  colonItem : Bool
  colonEntry : Bool
  /-- a blank before / after `=` (every row, the class row included) -/
  eqB : Bool
  eqA : Bool
  /-- what follows the value on each kind of row, before the line break -/
  tr : Row → List Char

/-- well-formedness: indentation and trailing parts consist of blanks and tabs -/
def Layout.ok (L : Layout) : Bool :=
  L.i1.all isBlankC && L.i2.all isBlankC && L.i3.all isBlankC && L.i4.all isBlankC &&
    Row.all.all fun r => (L.tr r).all isBlankC

structure Layout.Good (L : Layout) : Prop where
  b1 : Blank L.i1
  b2 : Blank L.i2
  b3 : Blank L.i3
  b4 : Blank L.i4
  btr : ∀ r, Blank (L.tr r)

theorem Layout.good (L : Layout) (h : L.ok = true) : L.Good := by
  simp only [Layout.ok, Bool.and_eq_true] at h
  obtain ⟨⟨⟨⟨h1, h2⟩, h3⟩, h4⟩, h5⟩ := h
  exact ⟨blank_of_all _ h1, blank_of_all _ h2, blank_of_all _ h3, blank_of_all _ h4,
    fun r => blank_of_all _ (List.all_eq_true.1 h5 r (Row.mem_all r))⟩

variable {α : Type}

def eqS (L : Layout) : List Char := (if L.eqB then [' '] else []) ++ '=' :: (if L.eqA then [' '] else [])
def sepS (kw : List Char) (gap : Bool) : List Char := kw ++ (if gap then [' ', '['] else ['['])
/-- the optional sign of a START value (`xmin` of the file, of a tier, of an interval; `number` of a point): the reader's
pattern for these rows is `-?(…)`, for the `xmax` rows it has no sign -/
def sgS (b : Bool) : List Char := if b then ['-'] else []
theorem notMem_sgS (b : Bool) (c : Char) (h : c ≠ '-') : c ∉ sgS b := by
  cases b <;> simp [sgS, h]
def idxG (L : Layout) (colon : Bool) (r : Row) (k : Nat) : List Char :=
  (toString (k + 1)).toList ++ (']' :: ((if colon then [':'] else []) ++ L.tr r))
def numRowG (L : Layout) (ind key : List Char) (w : String) (r : Row) : List Char :=
  ind ++ (key ++ (eqS L ++ (w.toList ++ L.tr r)))
/-- a start row: the numeral may carry a `-` -/
def numRowS (L : Layout) (ind key : List Char) (b : Bool) (w : String) (r : Row) : List Char :=
  ind ++ (key ++ (eqS L ++ (sgS b ++ (w.toList ++ L.tr r))))
theorem numRowS_false (L : Layout) (ind key : List Char) (w : String) (r : Row) :
    numRowS L ind key false w r = numRowG L ind key w r := rfl
def textRowG (L : Layout) (ind key : List Char) (s : String) (r : Row) : List Char :=
  ind ++ (key ++ (eqS L ++ (row s ++ L.tr r)))

def ivBodyG (L : Layout) (num : α → String) (sg : α → Bool) (j : Nat) (e : Iv α) : List Char :=
  joinNl [idxG L L.colonEntry .entryIdx j, numRowS L L.i4 "xmin".toList (sg e.s) (num e.s) .eMin,
    numRowG L L.i4 "xmax".toList (num e.e) .eMax, textRowG L L.i4 "text".toList e.l .eText]
def ptBodyG (L : Layout) (num : α → String) (sg : α → Bool) (j : Nat) (p : Pt α) : List Char :=
  joinNl [idxG L L.colonEntry .entryIdx j, numRowS L L.i4 "number".toList (sg p.t) (num p.t) .pNum,
    textRowG L L.i4 "mark".toList p.l .pMark]

def ivBodiesG (L : Layout) (num : α → String) (sg : α → Bool) : Nat → List (Iv α) → List (List Char)
  | _, [] => []
  | j, e :: es => ivBodyG L num sg j e :: ivBodiesG L num sg (j + 1) es
def ptBodiesG (L : Layout) (num : α → String) (sg : α → Bool) : Nat → List (Pt α) → List (List Char)
  | _, [] => []
  | j, p :: ps => ptBodyG L num sg j p :: ptBodiesG L num sg (j + 1) ps

def classRowG (L : Layout) (cls : List Char) : List Char :=
  L.i2 ++ (classKw ++ (eqS L ++ ('"' :: (cls ++ ('"' :: L.tr .cls)))))
def sizeRowG (L : Layout) (cnt : List Char) (n : Nat) : List Char :=
  L.i2 ++ (cnt ++ (": size = ".toList ++ ((toString n).toList ++ L.tr .cnt)))

def headLinesG (L : Layout) (num : α → String) (sg : α → Bool) (k : Nat) (cls : List Char) (name : String) (lo hi : α) (cnt : List Char)
    (n : Nat) : List (List Char) :=
  [idxG L L.colonItem .itemIdx k, classRowG L cls, textRowG L L.i2 "name".toList name .name,
    numRowS L L.i2 "xmin".toList (sg lo) (num lo) .tMin, numRowG L L.i2 "xmax".toList (num hi) .tMax, sizeRowG L cnt n]

def tierHeadG (L : Layout) (num : α → String) (sg : α → Bool) (k : Nat) (cls : List Char) (name : String) (lo hi : α) (cnt : List Char)
    (n : Nat) : List Char := joinNl (headLinesG L num sg k cls name lo hi cnt n)

def tierBodyG (L : Layout) (num : α → String) (sg : α → Bool) (k : Nat) : AnyTier α → List Char
  | .I t => tierHeadG L num sg k "IntervalTier".toList t.name t.lo t.hi "intervals".toList t.es.length ++
      itemsL L.i3 (sepS "intervals".toList L.gapEntry) (ivBodiesG L num sg 0 t.es)
  | .P t => tierHeadG L num sg k "TextTier".toList t.name t.lo t.hi "points".toList t.ps.length ++
      itemsL L.i3 (sepS "points".toList L.gapEntry) (ptBodiesG L num sg 0 t.ps)

def tierBodiesG (L : Layout) (num : α → String) (sg : α → Bool) : Nat → List (AnyTier α) → List (List Char)
  | _, [] => []
  | k, t :: ts => tierBodyG L num sg k t :: tierBodiesG L num sg (k + 1) ts

def hdrG (L : Layout) (num : α → String) (sg : α → Bool) (lo hi : α) (n : Nat) : List (List Char) :=
  ["File type = \"ooTextFile\"".toList, "Object class = \"TextGrid\"".toList, [],
   "xmin".toList ++ (eqS L ++ (sgS (sg lo) ++ ((num lo).toList ++ L.tr .hMin))), "xmax".toList ++ (eqS L ++ ((num hi).toList ++ L.tr .hMax)),
   "tiers? <exists>".toList ++ L.tr .tiersQ, "size = ".toList ++ ((toString n).toList ++ L.tr .size)]

def r0G (L : Layout) : List Char := ']' :: ':' :: (L.tr .top ++ ['\n'])

/-- **the family of long-format writers**; `sg x = true` writes a `-` before the numeral of `x` wherever `x` is a START value
(the file's, a tier's or an interval's `xmin`, a point's `number`) — Praat's `-0`; `writeLong` below is the family without signs -/
def writeLongS (L : Layout) (num : α → String) (sg : α → Bool) (g : Tg α) (lo hi : α) : List Char :=
  joinNl (hdrG L num sg lo hi g.tiers.length) ++
    (sepS "item".toList L.gapTop ++ (r0G L ++ itemsL L.i1 (sepS "item".toList L.gapItem) (tierBodiesG L num sg 0 g.tiers)))

/-! ## the matchers on rows of any layout -/

theorem any_false_of_numChar (T : List Char) (p : Char → Bool) (hh : ∀ c, T.head? = some c → numChar c = false)
    (hp : ∀ c, p c = true → numChar c = true) : T.head?.any p = false := by
  cases hT : T.head? with
  | none => rfl
  | some c =>
    simp only [Option.any]
    cases hpc : p c with
    | false => rfl
    | true => have := hh c hT; rw [hp c hpc] at this; cases this

theorem digit_numChar (c : Char) (h : c.isDigit = true) : numChar c = true := by simp [numChar, h]

/-- the numeral matcher on a written numeral followed by anything blank up to the line break -/
theorem numLen_gen (w T : List Char) (h : UNum w) (hb : blankL T = true)
    (hh : ∀ c, T.head? = some c → numChar c = false) : numLen (w ++ T) = some w.length := by
  have hT1 := any_false_of_numChar T isDigitDot hh digitDot_numChar
  have hT2 := any_false_of_numChar T Char.isDigit hh digit_numChar
  have hT3 : T.head?.any (fun c => c == 'e' || c == 'E') = false :=
    any_false_of_numChar T _ hh (fun c hc => by
      simp only [Bool.or_eq_true, beq_iff_eq] at hc
      rcases hc with rfl | rfl <;> decide)
  cases h with
  | plain _ hm hd =>
    have hr : runLen isDigitDot (w ++ T) = w.length := runLen_append_stop _ _ _ hd hT1
    have hm0 : (w.length == 0) = false := by
      cases w with
      | nil => exact absurd rfl hm
      | cons a as => simp
    unfold numLen
    simp only [hr, hm0, Bool.false_eq_true, if_false, List.drop_left, hT3, hb, if_true]
  | exp m c sg ds hm hd hc hsg hds hdd =>
    have hcnd : isDigitDot c = false := by rcases hc with rfl | rfl <;> decide
    have hr : runLen isDigitDot ((m ++ c :: (sg ++ ds)) ++ T) = m.length := by
      rw [List.append_assoc]
      exact runLen_append_stop _ _ _ hd (by simp [Option.any, hcnd])
    have hm0 : (m.length == 0) = false := by
      cases m with
      | nil => exact absurd rfl hm
      | cons a as => simp
    have hce : (c == 'e' || c == 'E') = true := by rcases hc with rfl | rfl <;> decide
    have hdrop : ((m ++ c :: (sg ++ ds)) ++ T).drop m.length = c :: (sg ++ (ds ++ T)) := by
      rw [List.append_assoc, List.drop_left]; simp
    have hdl : runLen Char.isDigit (ds ++ T) = ds.length := runLen_append_stop _ _ _ hdd hT2
    have hd0 : (ds.length == 0) = false := by
      cases ds with
      | nil => exact absurd rfl hds
      | cons a as => simp
    obtain ⟨d0, ds', hds'⟩ : ∃ d0 ds', ds = d0 :: ds' := by
      cases ds with
      | nil => exact absurd rfl hds
      | cons a as => exact ⟨a, as, rfl⟩
    have hd0pm : (d0 == '-' || d0 == '+') = false := by
      have := hdd d0 (by rw [hds']; simp)
      cases h1 : (d0 == '-' || d0 == '+') with
      | false => rfl
      | true =>
        simp only [Bool.or_eq_true, beq_iff_eq] at h1
        rcases h1 with rfl | rfl <;> exact absurd this (by decide)
    unfold numLen
    simp only [hr, hm0, Bool.false_eq_true, if_false, hdrop, List.head?_cons, Option.any, hce, if_true, List.drop_succ_cons,
      List.drop_zero]
    rcases hsg with rfl | rfl | rfl
    · have hdx : List.drop (1 + 0 + ds.length) (c :: (ds ++ T)) = T := by
        rw [show 1 + 0 + ds.length = ds.length + 1 by omega, List.drop_succ_cons, List.drop_left]
      simp only [List.nil_append, hds', List.cons_append, List.head?_cons, hd0pm, Bool.false_eq_true, if_false,
        List.drop_succ_cons, List.drop_zero]
      rw [← List.cons_append, ← hds', hdl, hd0]
      simp only [Bool.false_eq_true, if_false, hdx, hb, if_true, List.length_append, List.length_cons,
        Option.some.injEq]
      omega
    · have hdx : List.drop (1 + 1 + ds.length) (c :: '-' :: (ds ++ T)) = T := by
        rw [show 1 + 1 + ds.length = ds.length + 1 + 1 by omega, List.drop_succ_cons, List.drop_succ_cons, List.drop_left]
      simp only [List.cons_append, List.nil_append, List.head?_cons, show ('-' == '-' || '-' == '+') = true by decide,
        if_true, List.drop_succ_cons, List.drop_zero]
      rw [hdl, hd0]
      simp only [Bool.false_eq_true, if_false, hdx, hb, if_true, List.length_append, List.length_cons,
        Option.some.injEq]
      omega
    · have hdx : List.drop (1 + 1 + ds.length) (c :: '+' :: (ds ++ T)) = T := by
        rw [show 1 + 1 + ds.length = ds.length + 1 + 1 by omega, List.drop_succ_cons, List.drop_succ_cons, List.drop_left]
      simp only [List.cons_append, List.nil_append, List.head?_cons, show ('+' == '-' || '+' == '+') = true by decide,
        if_true, List.drop_succ_cons, List.drop_zero]
      rw [hdl, hd0]
      simp only [Bool.false_eq_true, if_false, hdx, hb, if_true, List.length_append, List.length_cons,
        Option.some.injEq]
      omega

/-- ` ?= ?` in each of its four forms, before a value that does not start with a blank -/
theorem headLen_eqS (L : Layout) (X : List Char) (hX : X.head? ≠ some ' ') (_hX2 : X.head? ≠ some '=') :
    headLen (eqS L ++ X) = some (eqS L).length := by
  have hx : (X.head? == some ' ') = false := by
    cases h : (X.head? == some ' ') with
    | false => rfl
    | true => exact absurd (by simpa using h) hX
  unfold eqS
  cases L.eqB <;> cases L.eqA <;> simp [headLen, spLen, hx]

theorem mem_eqS (L : Layout) (c : Char) (h : c ∈ eqS L) : c = ' ' ∨ c = '=' := by
  simp only [eqS, List.mem_append, List.mem_cons] at h
  rcases h with h | h | h
  · split at h
    · simp at h; exact Or.inl h
    · simp at h
  · exact Or.inr h
  · split at h
    · simp at h; exact Or.inl h
    · simp at h

theorem notMem_eqS (L : Layout) (c : Char) (h1 : c ≠ ' ') (h2 : c ≠ '=') : c ∉ eqS L := by
  intro h
  rcases mem_eqS L c h with e | e
  · exact h1 e
  · exact h2 e

/-- **`matchNum` on a written row of any layout**: `key`, ` ?= ?`, numeral, blanks, line break — the numeral with its sign
when it has one (pattern `(-?…)`: every numeric row since fix A30, 818cdcd), on EVERY row: start, end, point time -/
theorem numAfter_gen (L : Layout) (w tr rest : List Char) (h : LongNum w) (htr : Blank tr) :
    numAfter true (eqS L ++ (w ++ (tr ++ '\n' :: rest))) = some w := by
  obtain ⟨a, as, hw, ha⟩ := h.head
  have hX1 : (w ++ (tr ++ '\n' :: rest)).head? ≠ some ' ' := by
    rw [hw]; simp only [List.cons_append, List.head?_cons, ne_eq, Option.some.injEq]
    intro e; rw [e] at ha; exact absurd ha (by decide)
  have hX2 : (w ++ (tr ++ '\n' :: rest)).head? ≠ some '=' := by
    rw [hw]; simp only [List.cons_append, List.head?_cons, ne_eq, Option.some.injEq]
    intro e; rw [e] at ha; exact absurd ha (by decide)
  unfold numAfter
  rw [headLen_eqS L _ hX1 hX2]
  simp only [List.drop_left]
  cases h with
  | pos _ h =>
    have hm := h.head_not_minus (tr ++ '\n' :: rest)
    simp only [hm, Bool.and_false, Bool.false_eq_true, if_false, List.drop_zero,
      numLen_gen w _ h (htr.blank_nl rest) (htr.head_notNum rest), Option.map_some, List.take_left, List.take_zero,
      List.nil_append]
  | neg u h =>
    simp only [List.cons_append, List.head?_cons, Bool.true_and, beq_self_eq_true, if_true, List.drop_succ_cons,
      List.drop_zero, numLen_gen u _ h (htr.blank_nl rest) (htr.head_notNum rest), Option.map_some, List.take_left,
      List.take_succ_cons, List.take_zero, List.nil_append]

/-- the start rows of the internal family `writeLongS` with its separate sign knob switched off (a sign is part of the numeral
now: `numAfter_gen`) -/
theorem numAfter_start_gen (L : Layout) (b : Bool) (hb : b = false) (w tr rest : List Char) (h : LongNum w) (htr : Blank tr) :
    numAfter true (eqS L ++ (sgS b ++ (w ++ (tr ++ '\n' :: rest)))) = some w := by
  subst hb
  exact numAfter_gen L w tr rest h htr

theorem Blank.noQuote {l : List Char} (h : Blank l) : '"' ∉ l := h.notMem _ (by decide) (by decide)

/-- **`matchText` (DOTALL) on a written row of any layout**, for every label -/
theorem textAfter_dotall_gen (L : Layout) (esc tr ws : List Char) (htr : Blank tr) (hws : Blank ws) :
    textAfter true (eqS L ++ '"' :: (esc ++ '"' :: (tr ++ '\n' :: ws))) = some esc := by
  unfold textAfter
  rw [headLen_eqS L _ (by simp) (by simp)]
  simp only [List.drop_left, List.head?_cons, beq_self_eq_true, if_true]
  have hd : (eqS L ++ '"' :: (esc ++ '"' :: (tr ++ '\n' :: ws))).drop ((eqS L).length + 1) = esc ++ '"' :: (tr ++ '\n' :: ws) := by
    rw [← List.drop_drop, List.drop_left]; rfl
  rw [hd]
  apply backL_closing
  · simp only [List.length_append, List.length_cons]; omega
  · simp only [List.length_append, List.length_cons]; omega
  · simp only [List.mem_append, List.mem_cons, not_or]
    exact ⟨htr.noQuote, by decide, hws.noQuote⟩
  · exact htr.blank_nl ws

/-- **`matchText` (DOTALL) on a written row of any layout followed by ANY quote-free tail** (the `name` row of a tier header
since fix A32), for every text -/
theorem textAfter_dotall_tail_gen (L : Layout) (esc tr tail : List Char) (htr : Blank tr) (ht : '"' ∉ tail) :
    textAfter true (eqS L ++ '"' :: (esc ++ '"' :: (tr ++ '\n' :: tail))) = some esc := by
  unfold textAfter
  rw [headLen_eqS L _ (by simp) (by simp)]
  simp only [List.drop_left, List.head?_cons, beq_self_eq_true, if_true]
  have hd : (eqS L ++ '"' :: (esc ++ '"' :: (tr ++ '\n' :: tail))).drop ((eqS L).length + 1) = esc ++ '"' :: (tr ++ '\n' :: tail) := by
    rw [← List.drop_drop, List.drop_left]; rfl
  rw [hd]
  apply backL_closing
  · simp only [List.length_append, List.length_cons]; omega
  · simp only [List.length_append, List.length_cons]; omega
  · simp only [List.mem_append, List.mem_cons, not_or]
    exact ⟨htr.noQuote, by decide, ht⟩
  · exact htr.blank_nl tail

/-- the name row of any layout with the rest: the escaped text and the suffix that starts at its closing quote -/
theorem textAfterR_dotall_tail_gen (L : Layout) (esc tr tail : List Char) (htr : Blank tr) (ht : '"' ∉ tail) :
    textAfterR true (eqS L ++ '"' :: (esc ++ '"' :: (tr ++ '\n' :: tail))) = some (esc, '"' :: (tr ++ '\n' :: tail)) := by
  unfold textAfterR
  rw [headLen_eqS L _ (by simp) (by simp), textAfter_dotall_tail_gen L esc tr tail htr ht]
  simp only [Option.map_some, Option.some.injEq, Prod.mk.injEq, true_and]
  have e : eqS L ++ '"' :: (esc ++ '"' :: (tr ++ '\n' :: tail)) = ((eqS L ++ ['"']) ++ esc) ++ ('"' :: (tr ++ '\n' :: tail)) := by simp
  rw [e, List.drop_left' (by simp only [List.length_append, List.length_cons, List.length_nil])]

/-- **`matchText` (single line) on a written `name` row of any layout** -/
theorem textAfter_line_gen (L : Layout) (esc tr rest : List Char) (hnl : '\n' ∉ esc) (htr : Blank tr) :
    textAfter false (eqS L ++ '"' :: (esc ++ '"' :: (tr ++ '\n' :: rest))) = some esc := by
  unfold textAfter
  rw [headLen_eqS L _ (by simp) (by simp)]
  simp only [List.drop_left, List.head?_cons, beq_self_eq_true, if_true, Bool.false_eq_true, if_false]
  have hd : (eqS L ++ '"' :: (esc ++ '"' :: (tr ++ '\n' :: rest))).drop ((eqS L).length + 1) = esc ++ '"' :: (tr ++ '\n' :: rest) := by
    rw [← List.drop_drop, List.drop_left]; rfl
  rw [hd]
  have hf : findL ['\n'] (esc ++ '"' :: (tr ++ '\n' :: rest)) = some (esc.length + 1 + tr.length) := by
    have := findL_sep '\n' (esc ++ '"' :: tr) rest (by
      simp only [List.mem_append, List.mem_cons, not_or]
      exact ⟨hnl, by decide, htr.notMem _ (by decide) (by decide)⟩)
    have e : (esc ++ '"' :: tr).length = esc.length + 1 + tr.length := by simp; omega
    rw [← e]; simpa using this
  rw [hf, backL_skip _ (esc.length + 1) tr.length]
  · have hq : (esc ++ '"' :: (tr ++ '\n' :: rest))[esc.length]? = some '"' := by simp
    simp only [backL, hq, beq_self_eq_true, if_true]
    have hd2 : (esc ++ '"' :: (tr ++ '\n' :: rest)).drop (esc.length + 1) = tr ++ '\n' :: rest := by
      rw [← List.drop_drop, List.drop_left]; rfl
    rw [hd2, htr.blank_nl rest]
    simp
  · intro p h1 h2
    rw [List.getElem?_append_right (by omega)]
    have e : p - esc.length = (p - (esc.length + 1)) + 1 := by omega
    rw [e, List.getElem?_cons_succ, List.getElem?_append_left (by omega)]
    intro hq
    exact htr.noQuote (List.mem_of_getElem? hq)

/-! ## one entry -/

theorem notMem_idxG (L : Layout) (hL : L.Good) (colon : Bool) (r : Row) (k : Nat) (c : Char) (h1 : c.isDigit = false)
    (h2 : c ≠ ']') (h3 : c ≠ ':') (h4 : c ≠ ' ') (h5 : c ≠ '\t') : c ∉ idxG L colon r k := by
  intro h
  simp only [idxG, List.mem_append, List.mem_cons] at h
  rcases h with h | h | h | h
  · exact digits_no c _ h1 h
  · exact h2 h
  · split at h
    · simp at h; exact h3 h
    · simp at h
  · exact (hL.btr r).notMem c h4 h5 h

theorem ivBodyG_shape (L : Layout) (num : α → String) (sg : α → Bool) (j : Nat) (e : Iv α) (ws : List Char) :
    ivBodyG L num sg j e ++ ws =
      (idxG L L.colonEntry .entryIdx j ++ '\n' :: L.i4) ++ (('x' :: ['m', 'i', 'n']) ++ (eqS L ++ (sgS (sg e.s) ++ ((num e.s).toList ++ (L.tr .eMin ++ ('\n' :: (L.i4 ++ (('x' :: ['m', 'a', 'x']) ++ (eqS L ++ ((num e.e).toList ++ (L.tr .eMax ++ ('\n' :: (L.i4 ++ (('t' :: ['e', 'x', 't']) ++ (eqS L ++ ('"' :: (escapeL e.l.toList ++ ('"' :: (L.tr .eText ++ ('\n' :: (ws))))))))))))))))))))) := by
  have e1 : "xmin".toList = 'x' :: ['m', 'i', 'n'] := by rfl
  have e2 : "xmax".toList = 'x' :: ['m', 'a', 'x'] := by rfl
  have e3 : "text".toList = 't' :: ['e', 'x', 't'] := by rfl
  simp only [ivBodyG, joinNl, numRowG, numRowS, textRowG, row, q, e1, e2, e3, List.append_assoc, List.cons_append, List.nil_append]

theorem ptBodyG_shape (L : Layout) (num : α → String) (sg : α → Bool) (j : Nat) (p : Pt α) (ws : List Char) :
    ptBodyG L num sg j p ++ ws =
      (idxG L L.colonEntry .entryIdx j ++ '\n' :: L.i4) ++ (('n' :: ['u', 'm', 'b', 'e', 'r']) ++ (eqS L ++ (sgS (sg p.t) ++ ((num p.t).toList ++ (L.tr .pNum ++ ('\n' :: (L.i4 ++ (('m' :: ['a', 'r', 'k']) ++ (eqS L ++ ('"' :: (escapeL p.l.toList ++ ('"' :: (L.tr .pMark ++ ('\n' :: (ws))))))))))))))) := by
  have e1 : "number".toList = 'n' :: ['u', 'm', 'b', 'e', 'r'] := by rfl
  have e3 : "mark".toList = 'm' :: ['a', 'r', 'k'] := by rfl
  simp only [ptBodyG, joinNl, numRowS, textRowG, row, q, e1, e3, List.append_assoc, List.cons_append, List.nil_append]

/-- one written interval entry of any layout is read back, its label STRIPPED (`label.strip()`), for EVERY label -/
theorem readEntry_iv_gen (L : Layout) (hL : L.Good) (num : α → String) (sg : α → Bool) (hnum : ∀ x, LongNum (num x).toList) (hsg : ∀ x, sg x = false) (j : Nat) (e : Iv α)
    (ws : List Char) (hws : Blank ws) :
    readEntryLong true (ivBodyG L num sg j e ++ ws).toArray = .ok [num e.s, num e.e, pyStrip e.l] := by
  have ix := notMem_idxG L hL L.colonEntry .entryIdx j 'x' (by decide) (by decide) (by decide) (by decide) (by decide)
  have it := notMem_idxG L hL L.colonEntry .entryIdx j 't' (by decide) (by decide) (by decide) (by decide) (by decide)
  have tx := hL.b4.notMem 'x' (by decide) (by decide)
  have tt := hL.b4.notMem 't' (by decide) (by decide)
  have sx := notMem_num _ (hnum e.s) 'x' (by decide)
  have st := notMem_num _ (hnum e.s) 't' (by decide)
  have et := notMem_num _ (hnum e.e) 't' (by decide)
  have qx := notMem_eqS L 'x' (by decide) (by decide)
  have qt := notMem_eqS L 't' (by decide) (by decide)
  have r1x := (hL.btr .eMin).notMem 'x' (by decide) (by decide)
  have r1t := (hL.btr .eMin).notMem 't' (by decide) (by decide)
  have r2t := (hL.btr .eMax).notMem 't' (by decide) (by decide)
  have gx := notMem_sgS (sg e.s) 'x' (by decide)
  have gt := notMem_sgS (sg e.s) 't' (by decide)
  have h1 : matchNum (ivBodyG L num sg j e ++ ws).toArray (lit "xmin") true = some (num e.s).toList.toArray := by
    rw [matchNum_eq _ _ _ (by decide), lit_xmin, List.toList_toArray, ivBodyG_shape,
      scanL_after 'x' _ _ _ _ _ (by simp [ix, tx]) (numAfter_start_gen L (sg e.s) (hsg _) _ _ _ (hnum e.s) (hL.btr .eMin))]
    rfl
  have h2 : matchNum (ivBodyG L num sg j e ++ ws).toArray (lit "xmax") true = some (num e.e).toList.toArray := by
    rw [matchNum_eq _ _ _ (by decide), lit_xmax, List.toList_toArray, ivBodyG_shape,
      scanL_skip 'x' _ _ _ _ (by simp [ix, tx])]
    rw [List.cons_append, scanL_fail _ _ _ _ (by simp [List.isPrefixOf])]
    have hC : 'x' ∉ ['m', 'i', 'n'] ++ (eqS L ++ (sgS (sg e.s) ++ ((num e.s).toList ++ (L.tr .eMin ++ '\n' :: L.i4)))) := by
      simp [sx, tx, qx, r1x, gx]
    have e1 : ∀ T : List Char, ['m', 'i', 'n'] ++ (eqS L ++ (sgS (sg e.s) ++ ((num e.s).toList ++ (L.tr .eMin ++ '\n' :: (L.i4 ++ T))))) =
        (['m', 'i', 'n'] ++ (eqS L ++ (sgS (sg e.s) ++ ((num e.s).toList ++ (L.tr .eMin ++ '\n' :: L.i4))))) ++ T := by
      intro T; simp only [List.append_assoc, List.cons_append, List.nil_append]
    rw [e1, scanL_after 'x' ['m', 'a', 'x'] _ _ (numAfter true) _ hC (numAfter_gen L _ _ _ (hnum e.e) (hL.btr .eMax))]
    rfl
  have h3 : matchText (ivBodyG L num sg j e ++ ws).toArray (lit "text") true = some (escapeL e.l.toList).toArray := by
    rw [matchText_eq _ _ _ (by decide), lit_text, List.toList_toArray, ivBodyG_shape]
    have hC : 't' ∉ (idxG L L.colonEntry .entryIdx j ++ '\n' :: L.i4) ++ (('x' :: ['m', 'i', 'n']) ++ (eqS L ++ (sgS (sg e.s) ++ ((num e.s).toList ++ (L.tr .eMin ++ ('\n' :: (L.i4 ++ (('x' :: ['m', 'a', 'x']) ++ (eqS L ++ ((num e.e).toList ++ (L.tr .eMax ++ ('\n' :: (L.i4))))))))))))) := by
      simp [it, tt, st, et, qt, r1t, r2t, gt]
    have e1 : ∀ T : List Char, (idxG L L.colonEntry .entryIdx j ++ '\n' :: L.i4) ++ (('x' :: ['m', 'i', 'n']) ++ (eqS L ++ (sgS (sg e.s) ++ ((num e.s).toList ++ (L.tr .eMin ++ ('\n' :: (L.i4 ++ (('x' :: ['m', 'a', 'x']) ++ (eqS L ++ ((num e.e).toList ++ (L.tr .eMax ++ ('\n' :: (L.i4 ++ (T)))))))))))))) =
        ((idxG L L.colonEntry .entryIdx j ++ '\n' :: L.i4) ++ (('x' :: ['m', 'i', 'n']) ++ (eqS L ++ (sgS (sg e.s) ++ ((num e.s).toList ++ (L.tr .eMin ++ ('\n' :: (L.i4 ++ (('x' :: ['m', 'a', 'x']) ++ (eqS L ++ ((num e.e).toList ++ (L.tr .eMax ++ ('\n' :: (L.i4)))))))))))))) ++ T := by
      intro T; simp only [List.append_assoc, List.cons_append, List.nil_append]
    rw [e1, scanL_after 't' ['e', 'x', 't'] _ _ (textAfter true) _ hC
      (textAfter_dotall_gen L (escapeL e.l.toList) _ ws (hL.btr .eText) hws)]
    rfl
  simp only [readEntryLong, if_true, h1, h2, h3, need, bind, Except.bind, pure, Except.pure, toStr_toArray, unescape_label_strip]

/-- one written point entry of any layout is read back, its mark STRIPPED, for EVERY mark -/
theorem readEntry_pt_gen (L : Layout) (hL : L.Good) (num : α → String) (sg : α → Bool) (hnum : ∀ x, LongNum (num x).toList) (hsg : ∀ x, sg x = false) (j : Nat) (p : Pt α)
    (ws : List Char) (hws : Blank ws) :
    readEntryLong false (ptBodyG L num sg j p ++ ws).toArray = .ok [num p.t, pyStrip p.l] := by
  have i_n := notMem_idxG L hL L.colonEntry .entryIdx j 'n' (by decide) (by decide) (by decide) (by decide) (by decide)
  have i_m := notMem_idxG L hL L.colonEntry .entryIdx j 'm' (by decide) (by decide) (by decide) (by decide) (by decide)
  have t_n := hL.b4.notMem 'n' (by decide) (by decide)
  have t_m := hL.b4.notMem 'm' (by decide) (by decide)
  have s_m := notMem_num _ (hnum p.t) 'm' (by decide)
  have q_m := notMem_eqS L 'm' (by decide) (by decide)
  have r_m := (hL.btr .pNum).notMem 'm' (by decide) (by decide)
  have g_m := notMem_sgS (sg p.t) 'm' (by decide)
  have h1 : matchNum (ptBodyG L num sg j p ++ ws).toArray (lit "number") true = some (num p.t).toList.toArray := by
    rw [matchNum_eq _ _ _ (by decide), lit_number, List.toList_toArray, ptBodyG_shape,
      scanL_after 'n' _ _ _ _ _ (by simp [i_n, t_n]) (numAfter_start_gen L (sg p.t) (hsg _) _ _ _ (hnum p.t) (hL.btr .pNum))]
    rfl
  have h3 : matchText (ptBodyG L num sg j p ++ ws).toArray (lit "mark") true = some (escapeL p.l.toList).toArray := by
    rw [matchText_eq _ _ _ (by decide), lit_mark, List.toList_toArray, ptBodyG_shape,
      scanL_skip 'm' _ _ _ _ (by simp [i_m, t_m])]
    have e1 : ∀ T : List Char, ('n' :: ['u', 'm', 'b', 'e', 'r']) ++ (eqS L ++ (sgS (sg p.t) ++ ((num p.t).toList ++ (L.tr .pNum ++ '\n' :: (L.i4 ++ T))))) =
        ['n', 'u'] ++ ('m' :: ((['b', 'e', 'r'] ++ (eqS L ++ (sgS (sg p.t) ++ ((num p.t).toList ++ (L.tr .pNum ++ '\n' :: L.i4))))) ++ T)) := by
      intro T; simp only [List.append_assoc, List.cons_append, List.nil_append]
    rw [e1, scanL_skip 'm' _ _ _ _ (by simp), scanL_fail _ _ _ _ (by simp [List.isPrefixOf])]
    have hC : 'm' ∉ ['b', 'e', 'r'] ++ (eqS L ++ (sgS (sg p.t) ++ ((num p.t).toList ++ (L.tr .pNum ++ '\n' :: L.i4)))) := by
      simp [s_m, t_m, q_m, r_m, g_m]
    rw [scanL_after 'm' ['a', 'r', 'k'] _ _ (textAfter true) _ hC
      (textAfter_dotall_gen L (escapeL p.l.toList) _ ws (hL.btr .pMark) hws)]
    rfl
  simp only [readEntryLong, Bool.false_eq_true, if_false, h1, h3, need, bind, Except.bind, pure, Except.pure, toStr_toArray,
    unescape_label_strip]

/-! ## the tier header -/

theorem tierHeadG_shape (L : Layout) (num : α → String) (sg : α → Bool) (k : Nat) (cls : List Char) (name : String) (lo hi : α) (cnt : List Char)
    (n : Nat) (ws : List Char) :
    tierHeadG L num sg k cls name lo hi cnt n ++ ws =
      (idxG L L.colonItem .itemIdx k ++ ['\n']) ++ ((L.i2 ++ (classKw ++ eqS L)) ++ ('"' :: (cls ++ ('"' :: ((L.tr .cls ++ ['\n']) ++ ((L.i2 ++ (('n' :: ['a', 'm', 'e']) ++ eqS L)) ++ ('"' :: (escapeL name.toList ++ ('"' :: ((L.tr .name ++ '\n' :: L.i2) ++ (('x' :: ['m', 'i', 'n']) ++ (eqS L ++ (sgS (sg lo) ++ ((num lo).toList ++ (L.tr .tMin ++ ('\n' :: (L.i2 ++ (('x' :: ['m', 'a', 'x']) ++ (eqS L ++ ((num hi).toList ++ (L.tr .tMax ++ ('\n' :: (sizeRowG L cnt n ++ ('\n' :: (ws))))))))))))))))))))))))) := by
  have e1 : "xmin".toList = 'x' :: ['m', 'i', 'n'] := by rfl
  have e2 : "xmax".toList = 'x' :: ['m', 'a', 'x'] := by rfl
  have e3 : "name".toList = 'n' :: ['a', 'm', 'e'] := by rfl
  simp only [tierHeadG, headLinesG, joinNl, classRowG, numRowG, numRowS, textRowG, row, q, e1, e2, e3, List.append_assoc,
    List.cons_append, List.nil_append]

/-- what `_parseNormalTextgrid` keeps of a written tier header once the name is read (`header[nameMatch.end(1):]`, fix A33) -/
def hdrRestG (L : Layout) (num : α → String) (sg : α → Bool) (lo hi : α) (cnt : List Char) (n : Nat) (ws : List Char) : List Char :=
  '"' :: (L.tr .name ++ ('\n' :: (numRowS L L.i2 "xmin".toList (sg lo) (num lo) .tMin ++ ('\n' :: (numRowG L L.i2 "xmax".toList (num hi) .tMax ++ ('\n' :: (sizeRowG L cnt n ++ ('\n' :: (ws)))))))))

theorem hdrRestG_shape (L : Layout) (num : α → String) (sg : α → Bool) (lo hi : α) (cnt : List Char) (n : Nat) (ws : List Char) :
    hdrRestG L num sg lo hi cnt n ws =
      ('"' :: (L.tr .name ++ '\n' :: L.i2)) ++ (('x' :: ['m', 'i', 'n']) ++ (eqS L ++ (sgS (sg lo) ++ ((num lo).toList ++ (L.tr .tMin ++ ('\n' :: (L.i2 ++ (('x' :: ['m', 'a', 'x']) ++ (eqS L ++ ((num hi).toList ++ (L.tr .tMax ++ ('\n' :: (sizeRowG L cnt n ++ ('\n' :: (ws))))))))))))))) := by
  have e1 : "xmin".toList = 'x' :: ['m', 'i', 'n'] := by rfl
  have e2 : "xmax".toList = 'x' :: ['m', 'a', 'x'] := by rfl
  simp only [hdrRestG, numRowG, numRowS, e1, e2, List.append_assoc, List.cons_append, List.nil_append]

/-- `xmin` and `xmax` of the tier header of any layout, searched in the rest of the header BEHIND the name (fix A33): no hypothesis
on the name -/
theorem rest_nums_gen (L : Layout) (hL : L.Good) (num : α → String) (sg : α → Bool) (hnum : ∀ x, LongNum (num x).toList) (hsg : ∀ x, sg x = false)
    (lo hi : α) (cnt : List Char) (n : Nat) (ws : List Char) :
    matchNum (hdrRestG L num sg lo hi cnt n ws).toArray (lit "xmin") true = some (num lo).toList.toArray ∧
    matchNum (hdrRestG L num sg lo hi cnt n ws).toArray (lit "xmax") true = some (num hi).toList.toArray := by
  have b2x := hL.b2.notMem 'x' (by decide) (by decide)
  have hsk : 'x' ∉ '"' :: (L.tr .name ++ '\n' :: L.i2) := by simp [(hL.btr .name).notMem 'x' (by decide) (by decide), b2x]
  constructor
  · rw [matchNum_eq _ _ _ (by decide), lit_xmin, List.toList_toArray, hdrRestG_shape,
      scanL_after 'x' ['m', 'i', 'n'] _ _ (numAfter true) _ hsk (numAfter_start_gen L (sg lo) (hsg _) _ _ _ (hnum lo) (hL.btr .tMin))]
    rfl
  · rw [matchNum_eq _ _ _ (by decide), lit_xmax, List.toList_toArray, hdrRestG_shape, scanL_skip 'x' _ _ _ _ hsk]
    rw [List.cons_append, scanL_fail _ _ _ _ (by simp [List.isPrefixOf])]
    have hC : 'x' ∉ ['m', 'i', 'n'] ++ (eqS L ++ (sgS (sg lo) ++ ((num lo).toList ++ (L.tr .tMin ++ ('\n' :: (L.i2)))))) := by
      simp [notMem_num _ (hnum lo) 'x' (by decide), b2x, notMem_eqS L 'x' (by decide) (by decide),
        (hL.btr .tMin).notMem 'x' (by decide) (by decide), notMem_sgS (sg lo) 'x' (by decide)]
    have e1 : ∀ T : List Char, ['m', 'i', 'n'] ++ (eqS L ++ (sgS (sg lo) ++ ((num lo).toList ++ (L.tr .tMin ++ ('\n' :: (L.i2 ++ (T))))))) = (['m', 'i', 'n'] ++ (eqS L ++ (sgS (sg lo) ++ ((num lo).toList ++ (L.tr .tMin ++ ('\n' :: (L.i2))))))) ++ T := by
      intro T; simp only [List.append_assoc, List.cons_append, List.nil_append]
    rw [e1, scanL_after 'x' ['m', 'a', 'x'] _ _ (numAfter true) _ hC (numAfter_gen L _ _ _ (hnum hi) (hL.btr .tMax))]
    rfl

theorem tierHeadG_shapeN (L : Layout) (num : α → String) (sg : α → Bool) (k : Nat) (cls : List Char) (name : String) (lo hi : α) (cnt : List Char)
    (n : Nat) (ws : List Char) :
    tierHeadG L num sg k cls name lo hi cnt n ++ ws =
      ((idxG L L.colonItem .itemIdx k ++ ['\n']) ++ (L.i2 ++ (classKw ++ (eqS L ++ ('"' :: (cls ++ ('"' :: (L.tr .cls ++ '\n' :: L.i2)))))))) ++ (('n' :: ['a', 'm', 'e']) ++ (eqS L ++ ('"' :: (escapeL name.toList ++ ('"' :: (L.tr .name ++ ('\n' :: (numRowS L L.i2 "xmin".toList (sg lo) (num lo) .tMin ++ ('\n' :: (numRowG L L.i2 "xmax".toList (num hi) .tMax ++ ('\n' :: (sizeRowG L cnt n ++ ('\n' :: (ws)))))))))))))) := by
  have e3 : "name".toList = 'n' :: ['a', 'm', 'e'] := by rfl
  simp only [tierHeadG, headLinesG, joinNl, classRowG, textRowG, row, q, e3, List.append_assoc, List.cons_append,
    List.nil_append]

/-! ## splitting with either form of the separator -/

theorem splitL_hitB (a b w cur : List Char) (hne : b ≠ []) (hab : a.isPrefixOf (b ++ w) = false) :
    splitL a b 0 (b ++ w) cur = cur.reverse :: splitL a b 0 w [] := by
  cases hk : b ++ w with
  | nil => simp at hk; exact absurd hk.1 hne
  | cons c cs =>
    have hp : b.isPrefixOf (c :: cs) = true := by rw [← hk]; exact List.isPrefixOf_iff_prefix.2 (List.prefix_append _ _)
    rw [hk] at hab
    simp only [splitL, hab, Bool.false_eq_true, if_false, hp, if_true]
    rw [splitL_skip]
    congr 2
    have : (c :: cs).drop b.length = w := by rw [← hk]; exact List.drop_left
    cases b with
    | nil => exact absurd rfl hne
    | cons x xs => simpa using this

/-- `splitL_items` with the separator written in either form (`kw [` or `kw[`) -/
theorem splitL_itemsG (c0 : Char) (a' b' sep sp X : List Char) (Bs : List (List Char)) (trail : List Char)
    (ha : c0 ∉ a') (hb : c0 ∉ b') (hsp : sp = c0 :: a' ∨ sp = c0 :: b')
    (hab : ∀ w, (c0 :: a').isPrefixOf ((c0 :: b') ++ w) = false)
    (hclean : ∀ Z ∈ X :: Bs, Clean (c0 :: a') (c0 :: b') sep trail Z) :
    splitL (c0 :: a') (c0 :: b') 0 (X ++ (itemsL sep sp Bs ++ trail)) [] = piecesL sep X Bs trail := by
  induction Bs generalizing X with
  | nil =>
    have hc := hclean X (by simp) trail (Or.inr rfl)
    have e : X ++ (itemsL sep sp [] ++ trail) = (X ++ trail) ++ [] := by simp [itemsL]
    rw [e, splitL_noHit _ _ _ _ _ (noHit_of_not_infix c0 a' b' _ [] ha hb (Or.inl rfl) hc.1 hc.2)]
    simp [splitL_nil, piecesL]
  | cons B Bs ih =>
    have hc := hclean X (by simp) sep (Or.inl rfl)
    have e : X ++ (itemsL sep sp (B :: Bs) ++ trail) = (X ++ sep) ++ (sp ++ (B ++ (itemsL sep sp Bs ++ trail))) := by
      simp only [itemsL, List.append_assoc]
    have hhead : (sp ++ (B ++ (itemsL sep sp Bs ++ trail))).head? = some c0 := by
      rcases hsp with rfl | rfl <;> rfl
    have hstep : splitL (c0 :: a') (c0 :: b') 0 (sp ++ (B ++ (itemsL sep sp Bs ++ trail))) ((X ++ sep).reverse ++ []) =
        ((X ++ sep).reverse ++ []).reverse :: splitL (c0 :: a') (c0 :: b') 0 (B ++ (itemsL sep sp Bs ++ trail)) [] := by
      rcases hsp with rfl | rfl
      · exact splitL_hit _ _ _ _ (by simp)
      · exact splitL_hitB _ _ _ _ (by simp) (hab _)
    rw [e, splitL_noHit _ _ _ _ _ (noHit_of_not_infix c0 a' b' _ _ ha hb (Or.inr hhead) hc.1 hc.2), hstep,
      ih B (fun Z hZ => hclean Z (by
        simp only [List.mem_cons] at hZ ⊢
        rcases hZ with rfl | hZ
        · exact Or.inr (Or.inl rfl)
        · exact Or.inr (Or.inr hZ)))]
    simp [piecesL]

theorem sepS_cases (kw : List Char) (gap : Bool) : sepS kw gap = kw ++ [' ', '['] ∨ sepS kw gap = kw ++ ['['] := by
  cases gap
  · exact Or.inr rfl
  · exact Or.inl rfl

theorem Blank.noBracket {l : List Char} (h : Blank l) : '[' ∉ l := h.notMem _ (by decide) (by decide)

/-! ## which lines can contain a separator / the class phrase -/

theorem textRowG_free (L : Layout) (hL : L.Good) (c : Char) (pat ind key : List Char) (s : String) (r : Row) (hq : q ∉ pat)
    (hc : c ∈ pat) (hind : c ∉ ind) (hkey : c ∉ key) (hc1 : c ≠ ' ') (hc2 : c ≠ '=') (hc3 : c ≠ '\t')
    (hs : ¬ pat <:+: s.toList) : ¬ pat <:+: textRowG L ind key s r := by
  have hne : pat ≠ [] := by intro e; rw [e] at hc; simp at hc
  intro h
  have e : textRowG L ind key s r = (ind ++ (key ++ eqS L)) ++ q :: (escapeL s.toList ++ q :: L.tr r) := by
    simp only [textRowG, row, List.append_assoc, List.cons_append, List.nil_append]
  rw [e] at h
  rcases infix_sep q pat _ _ hq hne h with h1 | h1
  · refine not_infix_of_not_mem c pat _ hc ?_ h1
    simp only [List.mem_append, not_or]
    exact ⟨hind, hkey, notMem_eqS L c hc1 hc2⟩
  · rcases infix_sep q pat _ _ hq hne h1 with h2 | h2
    · exact hs (infix_escape_quote_free pat _ hq hne h2)
    · exact not_infix_of_not_mem c pat _ hc ((hL.btr r).notMem c hc1 hc3) h2

theorem numRowG_notMem (L : Layout) (hL : L.Good) (c : Char) (ind key : List Char) (w : String) (r : Row)
    (hw : LongNum w.toList) (hind : c ∉ ind) (hkey : c ∉ key) (hn : numChar c = false) (hc1 : c ≠ ' ') (hc2 : c ≠ '=')
    (hc3 : c ≠ '\t') : c ∉ numRowG L ind key w r := by
  simp only [numRowG, List.mem_append, not_or]
  exact ⟨hind, hkey, notMem_eqS L c hc1 hc2, notMem_num _ hw c hn, (hL.btr r).notMem c hc1 hc3⟩

theorem numRowS_notMem (L : Layout) (hL : L.Good) (c : Char) (ind key : List Char) (b : Bool) (w : String) (r : Row)
    (hw : LongNum w.toList) (hind : c ∉ ind) (hkey : c ∉ key) (hn : numChar c = false) (hc1 : c ≠ ' ') (hc2 : c ≠ '=')
    (hc3 : c ≠ '\t') : c ∉ numRowS L ind key b w r := by
  simp only [numRowS, List.mem_append, not_or]
  exact ⟨hind, hkey, notMem_eqS L c hc1 hc2, notMem_sgS b c (by intro e; rw [e] at hn; exact absurd hn (by decide)),
    notMem_num _ hw c hn, (hL.btr r).notMem c hc1 hc3⟩

theorem sizeRowG_notMem (L : Layout) (hL : L.Good) (c : Char) (cnt : List Char) (n : Nat) (hcnt : c ∉ cnt)
    (hd : c.isDigit = false) (hlit : c ∉ ": size = ".toList) (hc1 : c ≠ ' ') (hc3 : c ≠ '\t') : c ∉ sizeRowG L cnt n := by
  simp only [sizeRowG, List.mem_append, not_or]
  exact ⟨hL.b2.notMem c hc1 hc3, hcnt, hlit, digits_no c n hd, (hL.btr .cnt).notMem c hc1 hc3⟩

/-- `name` of the tier header of any layout, both classes, EVERY name (pattern with DOTALL since fix A32): the rest of the header
holds no quote, so the greedy match ends at the name's closing quote -/
theorem head_name_gen (L : Layout) (hL : L.Good) (num : α → String) (sg : α → Bool) (hnum : ∀ x, LongNum (num x).toList) (k : Nat)
    (isI : Bool) (name : String) (lo hi : α)
    (cnt : List Char) (n : Nat) (ws : List Char) (hcnt : '"' ∉ cnt) (hws : '"' ∉ ws) :
    matchTextRest (tierHeadG L num sg k (if isI then "IntervalTier".toList else "TextTier".toList) name lo hi cnt n ++ ws).toArray
      (lit "name") true = some ((escapeL name.toList).toArray, (hdrRestG L num sg lo hi cnt n ws).toArray) := by
  have htail : '"' ∉ numRowS L L.i2 "xmin".toList (sg lo) (num lo) .tMin ++ ('\n' :: (numRowG L L.i2 "xmax".toList (num hi) .tMax ++
      ('\n' :: (sizeRowG L cnt n ++ ('\n' :: ws))))) := by
    have b2q := hL.b2.notMem '"' (by decide) (by decide)
    simp only [List.mem_append, List.mem_cons, not_or]
    exact ⟨numRowS_notMem L hL '"' _ _ _ _ _ (hnum lo) b2q (by decide) (by decide) (by decide) (by decide) (by decide), by decide,
      numRowG_notMem L hL '"' _ _ _ _ (hnum hi) b2q (by decide) (by decide) (by decide) (by decide) (by decide), by decide,
      sizeRowG_notMem L hL '"' cnt n hcnt (by decide) (by decide) (by decide) (by decide), by decide, hws⟩
  have i_n : 'n' ∉ idxG L L.colonItem .itemIdx k :=
    notMem_idxG L hL L.colonItem .itemIdx k 'n' (by decide) (by decide) (by decide) (by decide) (by decide)
  have t_n := hL.b2.notMem 'n' (by decide) (by decide)
  have r_n := (hL.btr .cls).notMem 'n' (by decide) (by decide)
  have q_n := notMem_eqS L 'n' (by decide) (by decide)
  rw [matchTextRest_eq _ _ _ (by decide), lit_name, List.toList_toArray, tierHeadG_shapeN]
  cases isI with
  | false =>
    have hA : 'n' ∉ (idxG L L.colonItem .itemIdx k ++ ['\n']) ++ (L.i2 ++ (classKw ++ (eqS L ++ ('"' :: ("TextTier".toList ++ ('"' :: (L.tr .cls ++ '\n' :: L.i2))))))) := by
      have c1 : 'n' ∉ classKw := by decide
      have c2 : 'n' ∉ "TextTier".toList := by decide
      simp only [List.mem_append, List.mem_cons, not_or]
      exact ⟨⟨i_n, by decide, by simp⟩, t_n, c1, q_n, by decide, c2, by decide, r_n, by decide, t_n⟩
    simp only [Bool.false_eq_true, if_false]
    rw [scanL_after 'n' ['a', 'm', 'e'] _ _ (textAfterR true) _ hA (textAfterR_dotall_tail_gen L _ _ _ (hL.btr .name) htail)]
    rfl
  | true =>
    have e1 : (idxG L L.colonItem .itemIdx k ++ ['\n']) ++ (L.i2 ++ (classKw ++ (eqS L ++ ('"' :: ("IntervalTier".toList ++ ('"' :: (L.tr .cls ++ '\n' :: L.i2))))))) =
        ((idxG L L.colonItem .itemIdx k ++ ['\n']) ++ (L.i2 ++ (classKw ++ (eqS L ++ ['"', 'I'])))) ++ ('n' :: ("tervalTier".toList ++ ('"' :: (L.tr .cls ++ '\n' :: L.i2)))) := by
      have : "IntervalTier".toList = 'I' :: 'n' :: "tervalTier".toList := by rfl
      simp only [this, List.append_assoc, List.cons_append, List.nil_append]
    have hA1 : 'n' ∉ (idxG L L.colonItem .itemIdx k ++ ['\n']) ++ (L.i2 ++ (classKw ++ (eqS L ++ ['"', 'I']))) := by
      have c1 : 'n' ∉ classKw := by decide
      simp only [List.mem_append, List.mem_cons, List.not_mem_nil, or_false, not_or]
      exact ⟨⟨i_n, by decide⟩, t_n, c1, q_n, by decide, by decide⟩
    have hA2 : 'n' ∉ "tervalTier".toList ++ ('"' :: (L.tr .cls ++ '\n' :: L.i2)) := by
      have c2 : 'n' ∉ "tervalTier".toList := by decide
      simp only [List.mem_append, List.mem_cons, not_or]
      exact ⟨c2, by decide, r_n, by decide, t_n⟩
    simp only [if_true]
    rw [e1, List.append_assoc, scanL_skip 'n' _ _ _ _ hA1, List.cons_append, scanL_fail _ _ _ _ (by
      have : "tervalTier".toList = 't' :: "ervalTier".toList := by rfl
      simp [List.isPrefixOf, this]),
      scanL_after 'n' ['a', 'm', 'e'] _ _ (textAfterR true) _ hA2 (textAfterR_dotall_tail_gen L _ _ _ (hL.btr .name) htail)]
    rfl

theorem classRowG_notMem (L : Layout) (hL : L.Good) (c : Char) (cls : List Char) (hcls : c ∉ cls)
    (hlit : c ∉ "class = \"".toList) (hq : c ≠ '"') (hc1 : c ≠ ' ') (hc3 : c ≠ '\t') : c ∉ classRowG L cls := by
  have e : "class = \"".toList = classKw ++ [' ', '=', ' ', '"'] := by rfl
  rw [e] at hlit
  simp only [List.mem_append, List.mem_cons, List.not_mem_nil, or_false, not_or] at hlit
  simp only [classRowG, List.mem_append, List.mem_cons, not_or]
  exact ⟨hL.b2.notMem c hc1 hc3, hlit.1, notMem_eqS L c hc1 hlit.2.2.1, hq, hcls, hq, (hL.btr .cls).notMem c hc1 hc3⟩

theorem eqS_eq (L : Layout) : eqS L = eqOf L.eqB L.eqA := rfl

/-- the class pattern `class ?= ?"IntervalTier"` cannot match inside a `name` / `mark` / `text` row of any layout -/
theorem class_not_in_textRowG (L : Layout) (hL : L.Good) (b a : Bool) (ind key : List Char) (s : String) (r : Row)
    (hi : Blank ind) (hk : q ∉ key) (kl : Char) (kr : List Char) (hkey : key.reverse = kl :: kr) (hkl1 : kl ≠ 's')
    (hkl2 : kl ≠ ' ') (hkl3 : kl ≠ '=') : ¬ pcG b a <:+: textRowG L ind key s r := by
  have e : textRowG L ind key s r = (ind ++ (key ++ eqOf L.eqB L.eqA)) ++ q :: (escapeL s.toList ++ q :: L.tr r) := by
    simp only [textRowG, row, eqS_eq, List.append_assoc, List.cons_append, List.nil_append]
  rw [e]
  exact classPat_not_in_row b a L.eqB L.eqA ind key s (L.tr r) hi.noQuote hk kl kr hkey hkl1 hkl2 hkl3 (hL.btr r).noQuote
    ((hL.btr r).notMem _ (by decide) (by decide))

/-! ## the lines of a tier -/

def ivLinesG (L : Layout) (num : α → String) (sg : α → Bool) : Nat → List (Iv α) → List (List Char)
  | _, [] => []
  | j, e :: es => (L.i3 ++ (sepS "intervals".toList L.gapEntry ++ idxG L L.colonEntry .entryIdx j)) ::
      numRowS L L.i4 "xmin".toList (sg e.s) (num e.s) .eMin :: numRowG L L.i4 "xmax".toList (num e.e) .eMax ::
      textRowG L L.i4 "text".toList e.l .eText :: ivLinesG L num sg (j + 1) es
def ptLinesG (L : Layout) (num : α → String) (sg : α → Bool) : Nat → List (Pt α) → List (List Char)
  | _, [] => []
  | j, p :: ps => (L.i3 ++ (sepS "points".toList L.gapEntry ++ idxG L L.colonEntry .entryIdx j)) ::
      numRowS L L.i4 "number".toList (sg p.t) (num p.t) .pNum :: textRowG L L.i4 "mark".toList p.l .pMark :: ptLinesG L num sg (j + 1) ps

theorem ivItemsG_lines (L : Layout) (num : α → String) (sg : α → Bool) (j : Nat) (es : List (Iv α)) :
    itemsL L.i3 (sepS "intervals".toList L.gapEntry) (ivBodiesG L num sg j es) = joinNl (ivLinesG L num sg j es) := by
  induction es generalizing j with
  | nil => rfl
  | cons e es ih =>
    simp only [ivBodiesG, itemsL, ivLinesG, ivBodyG, joinNl, ih, List.append_assoc, List.cons_append, List.nil_append]
theorem ptItemsG_lines (L : Layout) (num : α → String) (sg : α → Bool) (j : Nat) (ps : List (Pt α)) :
    itemsL L.i3 (sepS "points".toList L.gapEntry) (ptBodiesG L num sg j ps) = joinNl (ptLinesG L num sg j ps) := by
  induction ps generalizing j with
  | nil => rfl
  | cons p ps ih =>
    simp only [ptBodiesG, itemsL, ptLinesG, ptBodyG, joinNl, ih, List.append_assoc, List.cons_append, List.nil_append]

def tierLinesG (L : Layout) (num : α → String) (sg : α → Bool) (k : Nat) : AnyTier α → List (List Char)
  | .I t => headLinesG L num sg k "IntervalTier".toList t.name t.lo t.hi "intervals".toList t.es.length ++ ivLinesG L num sg 0 t.es
  | .P t => headLinesG L num sg k "TextTier".toList t.name t.lo t.hi "points".toList t.ps.length ++ ptLinesG L num sg 0 t.ps

theorem tierBodyG_lines (L : Layout) (num : α → String) (sg : α → Bool) (k : Nat) (t : AnyTier α) :
    tierBodyG L num sg k t = joinNl (tierLinesG L num sg k t) := by
  cases t with
  | I t => simp only [tierBodyG, tierLinesG, tierHeadG, joinNl_append, ivItemsG_lines]
  | P t => simp only [tierBodyG, tierLinesG, tierHeadG, joinNl_append, ptItemsG_lines]

theorem mem_ivLinesG (L : Layout) (num : α → String) (sg : α → Bool) (j : Nat) (es : List (Iv α)) (s : List Char) (h : s ∈ ivLinesG L num sg j es) :
    ∃ j' e, e ∈ es ∧ (s = L.i3 ++ (sepS "intervals".toList L.gapEntry ++ idxG L L.colonEntry .entryIdx j') ∨
      s = numRowS L L.i4 "xmin".toList (sg e.s) (num e.s) .eMin ∨ s = numRowG L L.i4 "xmax".toList (num e.e) .eMax ∨
      s = textRowG L L.i4 "text".toList e.l .eText) := by
  induction es generalizing j with
  | nil => simp [ivLinesG] at h
  | cons e es ih =>
    simp only [ivLinesG, List.mem_cons] at h
    rcases h with rfl | rfl | rfl | rfl | h
    · exact ⟨j, e, by simp, Or.inl rfl⟩
    · exact ⟨j, e, by simp, Or.inr (Or.inl rfl)⟩
    · exact ⟨j, e, by simp, Or.inr (Or.inr (Or.inl rfl))⟩
    · exact ⟨j, e, by simp, Or.inr (Or.inr (Or.inr rfl))⟩
    · obtain ⟨j', e', he, hs⟩ := ih (j + 1) h
      exact ⟨j', e', List.mem_cons_of_mem _ he, hs⟩

theorem mem_ptLinesG (L : Layout) (num : α → String) (sg : α → Bool) (j : Nat) (ps : List (Pt α)) (s : List Char) (h : s ∈ ptLinesG L num sg j ps) :
    ∃ j' p, p ∈ ps ∧ (s = L.i3 ++ (sepS "points".toList L.gapEntry ++ idxG L L.colonEntry .entryIdx j') ∨
      s = numRowS L L.i4 "number".toList (sg p.t) (num p.t) .pNum ∨ s = textRowG L L.i4 "mark".toList p.l .pMark) := by
  induction ps generalizing j with
  | nil => simp [ptLinesG] at h
  | cons p ps ih =>
    simp only [ptLinesG, List.mem_cons] at h
    rcases h with rfl | rfl | rfl | h
    · exact ⟨j, p, by simp, Or.inl rfl⟩
    · exact ⟨j, p, by simp, Or.inr (Or.inl rfl)⟩
    · exact ⟨j, p, by simp, Or.inr (Or.inr rfl)⟩
    · obtain ⟨j', p', hp, hs⟩ := ih (j + 1) h
      exact ⟨j', p', List.mem_cons_of_mem _ hp, hs⟩

/-- every line of a tier (any layout) is one of: index line, class line, size line, entry header, numeral row, text row -/
theorem tierLinesG_all (L : Layout) (num : α → String) (sg : α → Bool) (k : Nat) (t : AnyTier α) (P : List Char → Prop)
    (hidx : ∀ j, P (idxG L L.colonItem .itemIdx j))
    (hcls : (isI t = true → P (classRowG L "IntervalTier".toList)) ∧ (isI t = false → P (classRowG L "TextTier".toList)))
    (hsize : ∀ n, P (sizeRowG L "intervals".toList n) ∧ P (sizeRowG L "points".toList n))
    (hent : ∀ j, P (L.i3 ++ (sepS "intervals".toList L.gapEntry ++ idxG L L.colonEntry .entryIdx j)) ∧
      P (L.i3 ++ (sepS "points".toList L.gapEntry ++ idxG L L.colonEntry .entryIdx j)))
    (hnumr : ∀ ind key b x r, (ind = L.i2 ∨ ind = L.i4) → key ∈ ["xmin".toList, "xmax".toList, "number".toList] →
      P (numRowS L ind key b (num x) r))
    (htext : ∀ ind key s r, (ind = L.i2 ∨ ind = L.i4) → key ∈ ["name".toList, "text".toList, "mark".toList] → s ∈ texts t →
      P (textRowG L ind key s r)) :
    ∀ s ∈ tierLinesG L num sg k t, P s := by
  intro s hs
  cases t with
  | I t =>
    simp only [tierLinesG, headLinesG, List.cons_append, List.nil_append, List.mem_cons] at hs
    rcases hs with rfl | rfl | rfl | rfl | rfl | rfl | hs
    · exact hidx k
    · exact hcls.1 rfl
    · exact htext _ _ _ _ (Or.inl rfl) (by simp) (by simp [texts])
    · exact hnumr _ _ _ _ _ (Or.inl rfl) (by simp)
    · exact hnumr _ _ false _ _ (Or.inl rfl) (by simp)
    · exact (hsize _).1
    · obtain ⟨j', e, he, hs | hs | hs | hs⟩ := mem_ivLinesG L num sg 0 t.es s hs
      · subst hs; exact (hent j').1
      · subst hs; exact hnumr _ _ _ _ _ (Or.inr rfl) (by simp)
      · subst hs; exact hnumr _ _ false _ _ (Or.inr rfl) (by simp)
      · subst hs; exact htext _ _ _ _ (Or.inr rfl) (by simp)
          (by simp only [texts, List.mem_cons, List.mem_map]; exact Or.inr ⟨e, he, rfl⟩)
  | P t =>
    simp only [tierLinesG, headLinesG, List.cons_append, List.nil_append, List.mem_cons] at hs
    rcases hs with rfl | rfl | rfl | rfl | rfl | rfl | hs
    · exact hidx k
    · exact hcls.2 rfl
    · exact htext _ _ _ _ (Or.inl rfl) (by simp) (by simp [texts])
    · exact hnumr _ _ _ _ _ (Or.inl rfl) (by simp)
    · exact hnumr _ _ false _ _ (Or.inl rfl) (by simp)
    · exact (hsize _).2
    · obtain ⟨j', p, hp, hs | hs | hs⟩ := mem_ptLinesG L num sg 0 t.ps s hs
      · subst hs; exact (hent j').2
      · subst hs; exact hnumr _ _ _ _ _ (Or.inr rfl) (by simp)
      · subst hs; exact htext _ _ _ _ (Or.inr rfl) (by simp)
          (by simp only [texts, List.mem_cons, List.mem_map]; exact Or.inr ⟨p, hp, rfl⟩)

theorem key_noChar (c : Char) (key : List Char) (hkey : key ∈ ["xmin".toList, "xmax".toList, "number".toList])
    (h1 : c ∉ "xmin".toList) (h2 : c ∉ "xmax".toList) (h3 : c ∉ "number".toList) : c ∉ key := by
  simp only [List.mem_cons, List.not_mem_nil, or_false] at hkey
  rcases hkey with rfl | rfl | rfl <;> assumption

theorem tkey_noChar (c : Char) (key : List Char) (hkey : key ∈ ["name".toList, "text".toList, "mark".toList])
    (h1 : c ∉ "name".toList) (h2 : c ∉ "text".toList) (h3 : c ∉ "mark".toList) : c ∉ key := by
  simp only [List.mem_cons, List.not_mem_nil, or_false] at hkey
  rcases hkey with rfl | rfl | rfl <;> assumption

theorem ind_blank (L : Layout) (hL : L.Good) (ind : List Char) (h : ind = L.i2 ∨ ind = L.i4) : Blank ind := by
  rcases h with rfl | rfl
  · exact hL.b2
  · exact hL.b4

theorem sepS_noChar (kw : List Char) (gap : Bool) (c : Char) (hkw : c ∉ kw) (h1 : c ≠ ' ') (h2 : c ≠ '[') : c ∉ sepS kw gap := by
  unfold sepS
  cases gap <;> simp [hkw, h1, h2]

/-- a pattern with `[` and no quote, absent from names and labels, is absent from every line but the entry headers;
`m` excludes those (for `item [`) -/
theorem tierLinesG_free (L : Layout) (hL : L.Good) (num : α → String) (sg : α → Bool) (hnum : ∀ x, LongNum (num x).toList) (k : Nat)
    (t : AnyTier α) (pat : List Char) (hq : q ∉ pat) (hb : '[' ∈ pat) (hm : 'm' ∈ pat)
    (hfree : ∀ s ∈ texts t, ¬ pat <:+: s.toList) : ∀ s ∈ tierLinesG L num sg k t, ¬ pat <:+: s := by
  apply tierLinesG_all L num sg k t (fun s => ¬ pat <:+: s)
  · exact fun j => not_infix_of_not_mem '[' _ _ hb
      (notMem_idxG L hL _ _ j '[' (by decide) (by decide) (by decide) (by decide) (by decide))
  · exact ⟨fun _ => not_infix_of_not_mem '[' _ _ hb (classRowG_notMem L hL '[' _ (by decide) (by decide) (by decide) (by decide) (by decide)),
      fun _ => not_infix_of_not_mem '[' _ _ hb (classRowG_notMem L hL '[' _ (by decide) (by decide) (by decide) (by decide) (by decide))⟩
  · intro n
    exact ⟨not_infix_of_not_mem '[' _ _ hb (sizeRowG_notMem L hL '[' _ n (by decide) (by decide) (by decide) (by decide) (by decide)),
      not_infix_of_not_mem '[' _ _ hb (sizeRowG_notMem L hL '[' _ n (by decide) (by decide) (by decide) (by decide) (by decide))⟩
  · intro j
    have im := notMem_idxG L hL L.colonEntry .entryIdx j 'm' (by decide) (by decide) (by decide) (by decide) (by decide)
    have tm := hL.b3.notMem 'm' (by decide) (by decide)
    constructor <;> apply not_infix_of_not_mem 'm' _ _ hm <;> simp only [List.mem_append, not_or]
    · exact ⟨tm, sepS_noChar _ _ 'm' (by decide) (by decide) (by decide), im⟩
    · exact ⟨tm, sepS_noChar _ _ 'm' (by decide) (by decide) (by decide), im⟩
  · intro ind key b x r hind hkey
    exact not_infix_of_not_mem '[' _ _ hb (numRowS_notMem L hL '[' ind key b _ r (hnum x) ((ind_blank L hL ind hind).noBracket)
      (key_noChar '[' key hkey (by decide) (by decide) (by decide)) (by decide) (by decide) (by decide) (by decide))
  · intro ind key s r hind hkey hs
    exact textRowG_free L hL '[' pat ind key s r hq hb ((ind_blank L hL ind hind).noBracket)
      (tkey_noChar '[' key hkey (by decide) (by decide) (by decide)) (by decide) (by decide) (by decide) (hfree s hs)

/-! ## one tier -/

theorem headLinesG_free (L : Layout) (hL : L.Good) (pat : List Char) (num : α → String) (sg : α → Bool) (hnum : ∀ x, LongNum (num x).toList)
    (k : Nat) (cls : List Char) (name : String) (lo hi : α) (cnt : List Char) (n : Nat) (hq : q ∉ pat) (hb : '[' ∈ pat)
    (hcls : '[' ∉ cls) (hcnt : '[' ∉ cnt) (hname : ¬ pat <:+: name.toList) :
    ∀ s ∈ headLinesG L num sg k cls name lo hi cnt n, ¬ pat <:+: s := by
  intro s hs
  simp only [headLinesG, List.mem_cons, List.not_mem_nil, or_false] at hs
  have t2 := hL.b2.noBracket
  rcases hs with rfl | rfl | rfl | rfl | rfl | rfl
  · exact not_infix_of_not_mem '[' _ _ hb (notMem_idxG L hL _ _ k '[' (by decide) (by decide) (by decide) (by decide) (by decide))
  · exact not_infix_of_not_mem '[' _ _ hb (classRowG_notMem L hL '[' cls hcls (by decide) (by decide) (by decide) (by decide))
  · exact textRowG_free L hL '[' pat _ _ name _ hq hb t2 (by decide) (by decide) (by decide) (by decide) hname
  · exact not_infix_of_not_mem '[' _ _ hb (numRowS_notMem L hL '[' _ _ _ _ _ (hnum lo) t2 (by decide) (by decide) (by decide)
      (by decide) (by decide))
  · exact not_infix_of_not_mem '[' _ _ hb (numRowG_notMem L hL '[' _ _ _ _ (hnum hi) t2 (by decide) (by decide) (by decide)
      (by decide) (by decide))
  · exact not_infix_of_not_mem '[' _ _ hb (sizeRowG_notMem L hL '[' cnt n hcnt (by decide) (by decide) (by decide) (by decide))

theorem ivBodyG_free (L : Layout) (hL : L.Good) (pat : List Char) (num : α → String) (sg : α → Bool) (hnum : ∀ x, LongNum (num x).toList)
    (j : Nat) (e : Iv α) (hq : q ∉ pat) (hb : '[' ∈ pat) (hl : ¬ pat <:+: e.l.toList) :
    ∀ s ∈ [idxG L L.colonEntry .entryIdx j, numRowS L L.i4 "xmin".toList (sg e.s) (num e.s) .eMin,
      numRowG L L.i4 "xmax".toList (num e.e) .eMax, textRowG L L.i4 "text".toList e.l .eText], ¬ pat <:+: s := by
  intro s hs
  simp only [List.mem_cons, List.not_mem_nil, or_false] at hs
  have t4 := hL.b4.noBracket
  rcases hs with rfl | rfl | rfl | rfl
  · exact not_infix_of_not_mem '[' _ _ hb (notMem_idxG L hL _ _ j '[' (by decide) (by decide) (by decide) (by decide) (by decide))
  · exact not_infix_of_not_mem '[' _ _ hb (numRowS_notMem L hL '[' _ _ _ _ _ (hnum e.s) t4 (by decide) (by decide) (by decide)
      (by decide) (by decide))
  · exact not_infix_of_not_mem '[' _ _ hb (numRowG_notMem L hL '[' _ _ _ _ (hnum e.e) t4 (by decide) (by decide) (by decide)
      (by decide) (by decide))
  · exact textRowG_free L hL '[' pat _ _ e.l _ hq hb t4 (by decide) (by decide) (by decide) (by decide) hl

theorem ptBodyG_free (L : Layout) (hL : L.Good) (pat : List Char) (num : α → String) (sg : α → Bool) (hnum : ∀ x, LongNum (num x).toList)
    (j : Nat) (p : Pt α) (hq : q ∉ pat) (hb : '[' ∈ pat) (hl : ¬ pat <:+: p.l.toList) :
    ∀ s ∈ [idxG L L.colonEntry .entryIdx j, numRowS L L.i4 "number".toList (sg p.t) (num p.t) .pNum,
      textRowG L L.i4 "mark".toList p.l .pMark], ¬ pat <:+: s := by
  intro s hs
  simp only [List.mem_cons, List.not_mem_nil, or_false] at hs
  have t4 := hL.b4.noBracket
  rcases hs with rfl | rfl | rfl
  · exact not_infix_of_not_mem '[' _ _ hb (notMem_idxG L hL _ _ j '[' (by decide) (by decide) (by decide) (by decide) (by decide))
  · exact not_infix_of_not_mem '[' _ _ hb (numRowS_notMem L hL '[' _ _ _ _ _ (hnum p.t) t4 (by decide) (by decide) (by decide)
      (by decide) (by decide))
  · exact textRowG_free L hL '[' pat _ _ p.l _ hq hb t4 (by decide) (by decide) (by decide) (by decide) hl

theorem mem_ivBodiesG (L : Layout) (num : α → String) (sg : α → Bool) (j : Nat) (es : List (Iv α)) (Z : List Char)
    (h : Z ∈ ivBodiesG L num sg j es) : ∃ j' e, e ∈ es ∧ Z = ivBodyG L num sg j' e := by
  induction es generalizing j with
  | nil => simp [ivBodiesG] at h
  | cons e es ih =>
    simp only [ivBodiesG, List.mem_cons] at h
    rcases h with rfl | h
    · exact ⟨j, e, by simp, rfl⟩
    · obtain ⟨j', e', he, hz⟩ := ih (j + 1) h
      exact ⟨j', e', List.mem_cons_of_mem _ he, hz⟩

theorem mem_ptBodiesG (L : Layout) (num : α → String) (sg : α → Bool) (j : Nat) (ps : List (Pt α)) (Z : List Char)
    (h : Z ∈ ptBodiesG L num sg j ps) : ∃ j' p, p ∈ ps ∧ Z = ptBodyG L num sg j' p := by
  induction ps generalizing j with
  | nil => simp [ptBodiesG] at h
  | cons p ps ih =>
    simp only [ptBodiesG, List.mem_cons] at h
    rcases h with rfl | h
    · exact ⟨j, p, by simp, rfl⟩
    · obtain ⟨j', p', hp, hz⟩ := ih (j + 1) h
      exact ⟨j', p', List.mem_cons_of_mem _ hp, hz⟩

theorem mapM_entries_iv_gen (L : Layout) (hL : L.Good) (num : α → String) (sg : α → Bool) (hnum : ∀ x, LongNum (num x).toList) (hsg : ∀ x, sg x = false)
    (trail : List Char) (htrail : Blank trail) (j : Nat) (e : Iv α) (es : List (Iv α)) :
    ((piecesL L.i3 (ivBodyG L num sg j e) (ivBodiesG L num sg (j + 1) es) trail).map List.toArray).mapM (readEntryLong true) =
      .ok ((e :: es).map fun e => [num e.s, num e.e, pyStrip e.l]) := by
  induction es generalizing j e with
  | nil =>
    simp only [ivBodiesG, piecesL, List.map_cons, List.map_nil, List.mapM_cons, List.mapM_nil,
      readEntry_iv_gen L hL num sg hnum hsg j e trail htrail, bind, Except.bind, pure, Except.pure]
  | cons e2 es ih =>
    have h2 := ih (j + 1) e2
    simp only [ivBodiesG, piecesL, List.map_cons, List.mapM_cons,
      readEntry_iv_gen L hL num sg hnum hsg j e L.i3 hL.b3, bind, Except.bind, pure, Except.pure] at h2 ⊢
    rw [h2]

theorem mapM_entries_pt_gen (L : Layout) (hL : L.Good) (num : α → String) (sg : α → Bool) (hnum : ∀ x, LongNum (num x).toList) (hsg : ∀ x, sg x = false)
    (trail : List Char) (htrail : Blank trail) (j : Nat) (p : Pt α) (ps : List (Pt α)) :
    ((piecesL L.i3 (ptBodyG L num sg j p) (ptBodiesG L num sg (j + 1) ps) trail).map List.toArray).mapM (readEntryLong false) =
      .ok ((p :: ps).map fun p => [num p.t, pyStrip p.l]) := by
  induction ps generalizing j p with
  | nil =>
    simp only [ptBodiesG, piecesL, List.map_cons, List.map_nil, List.mapM_cons, List.mapM_nil,
      readEntry_pt_gen L hL num sg hnum hsg j p trail htrail, bind, Except.bind, pure, Except.pure]
  | cons p2 ps ih =>
    have h2 := ih (j + 1) p2
    simp only [ptBodiesG, piecesL, List.map_cons, List.mapM_cons,
      readEntry_pt_gen L hL num sg hnum hsg j p L.i3 hL.b3, bind, Except.bind, pure, Except.pure] at h2 ⊢
    rw [h2]

theorem sepS_iv (gap : Bool) : sepS "intervals".toList gap = ivSA ∨ sepS "intervals".toList gap = ivSB := by
  cases gap
  · exact Or.inr (by rfl)
  · exact Or.inl (by rfl)
theorem sepS_pt (gap : Bool) : sepS "points".toList gap = ptSA ∨ sepS "points".toList gap = ptSB := by
  cases gap
  · exact Or.inr (by rfl)
  · exact Or.inl (by rfl)
theorem sepS_it (gap : Bool) : sepS "item".toList gap = itA ∨ sepS "item".toList gap = itB := by
  cases gap
  · exact Or.inr (by rfl)
  · exact Or.inl (by rfl)

/-- one written interval tier of any layout is read back from its `tierTxt` -/
theorem readTier_iv_gen (L : Layout) (hL : L.Good) (num : α → String) (sg : α → Bool) (hnum : ∀ x, LongNum (num x).toList) (hsg : ∀ x, sg x = false) (k : Nat)
    (t : ITier α) (trail : List Char) (htrail : Blank trail) (hkw : NoKwLong (.I t)) :
    readTierLong (tierBodyG L num sg k (.I t) ++ trail).toArray = .ok (rawTier num (stripT (.I t))) := by
  have hkn : ∀ p ∈ [ivSA, ivSB], ¬ p <:+: t.name.toList := fun p hp =>
    hkw t.name (by simp [texts]) p (List.mem_cons_of_mem _ (List.mem_cons_of_mem _ hp))
  have hke : ∀ e ∈ t.es, ∀ p ∈ [ivSA, ivSB], ¬ p <:+: e.l.toList := fun e he p hp =>
    hkw e.l (by simp only [texts, List.mem_cons, List.mem_map]; exact Or.inr ⟨e, he, rfl⟩) p
      (List.mem_cons_of_mem _ (List.mem_cons_of_mem _ hp))
  have hI : matchClass (tierBodyG L num sg k (.I t) ++ trail).toArray = true := by
    rw [matchClass_eq, List.toList_toArray]
    have e : tierBodyG L num sg k (.I t) ++ trail = (idxG L L.colonItem .itemIdx k ++ '\n' :: L.i2) ++ (('c' :: ['l', 'a', 's', 's']) ++
        (eqOf L.eqB L.eqA ++ (iqL ++ (L.tr .cls ++ '\n' :: (joinNl (List.drop 2 (headLinesG L num sg k "IntervalTier".toList t.name t.lo t.hi
          "intervals".toList t.es.length)) ++ itemsL L.i3 (sepS "intervals".toList L.gapEntry) (ivBodiesG L num sg 0 t.es) ++ trail))))) := by
      have e0 : classKw = 'c' :: ['l', 'a', 's', 's'] := by rfl
      have e1 : iqL = '"' :: ("IntervalTier".toList ++ ['"']) := by rfl
      simp only [e0, e1, eqS_eq, tierBodyG, tierHeadG, headLinesG, joinNl, classRowG, List.drop_succ_cons, List.drop_zero,
        List.append_assoc, List.cons_append, List.nil_append]
    have hlit : classKw = 'c' :: ['l', 'a', 's', 's'] := by rfl
    rw [e, hlit, scanL_after 'c' _ _ _ _ () (by
      simp only [List.mem_append, List.mem_cons, not_or]
      exact ⟨notMem_idxG L hL _ _ k 'c' (by decide) (by decide) (by decide) (by decide) (by decide), by decide,
        hL.b2.notMem 'c' (by decide) (by decide)⟩)
      (classAfter_written L.eqB L.eqA _)]
    rfl
  have hsplit : splitKw (tierBodyG L num sg k (.I t) ++ trail).toArray (lit "intervals") =
      (piecesL L.i3 (tierHeadG L num sg k "IntervalTier".toList t.name t.lo t.hi "intervals".toList t.es.length)
        (ivBodiesG L num sg 0 t.es) trail).map List.toArray := by
    rw [splitKw_eq, lit_ivSA, lit_ivSB, List.toList_toArray]
    have e : tierBodyG L num sg k (.I t) ++ trail =
        tierHeadG L num sg k "IntervalTier".toList t.name t.lo t.hi "intervals".toList t.es.length ++
          (itemsL L.i3 (sepS "intervals".toList L.gapEntry) (ivBodiesG L num sg 0 t.es) ++ trail) := by
      simp only [tierBodyG, List.append_assoc]
    rw [e]
    congr 1
    apply splitL_itemsG 'i' _ _ L.i3 _ _ _ trail (by decide) (by decide) (sepS_iv L.gapEntry)
      (by intro w; simp [List.isPrefixOf])
    intro Z hZ
    simp only [List.mem_cons] at hZ
    rcases hZ with rfl | hZ
    · apply clean_lines _ _ _ _ _ (by decide) (by decide) (by decide) (by decide) hL.b3.noBracket htrail.noBracket
      intro s hs
      exact ⟨headLinesG_free L hL ivSA num sg hnum k _ t.name t.lo t.hi _ _ (by decide) (by decide) (by decide) (by decide)
          (hkn _ (by simp)) s hs,
        headLinesG_free L hL ivSB num sg hnum k _ t.name t.lo t.hi _ _ (by decide) (by decide) (by decide) (by decide)
          (hkn _ (by simp)) s hs⟩
    · obtain ⟨j', e', he', rfl⟩ := mem_ivBodiesG L num sg 0 t.es Z hZ
      apply clean_lines _ _ _ _ _ (by decide) (by decide) (by decide) (by decide) hL.b3.noBracket htrail.noBracket
      intro s hs
      exact ⟨ivBodyG_free L hL ivSA num sg hnum j' e' (by decide) (by decide) (hke e' he' _ (by simp)) s hs,
        ivBodyG_free L hL ivSB num sg hnum j' e' (by decide) (by decide) (hke e' he' _ (by simp)) s hs⟩
  obtain ⟨ws, rest, hws, hp, hrest⟩ := piecesL_shape L.i3
    (tierHeadG L num sg k "IntervalTier".toList t.name t.lo t.hi "intervals".toList t.es.length) (ivBodiesG L num sg 0 t.es) trail
  have hwsq : '"' ∉ ws := by rcases hws with rfl | rfl; exact hL.b3.noQuote; exact htrail.noQuote
  have hn := head_name_gen L hL num sg hnum k true t.name t.lo t.hi "intervals".toList t.es.length ws (by decide) hwsq
  simp only [if_true] at hn
  obtain ⟨hx1, hx2⟩ := rest_nums_gen L hL num sg hnum hsg t.lo t.hi "intervals".toList t.es.length ws
  have hents : (rest.map List.toArray).mapM (readEntryLong true) = .ok (t.es.map fun e => [num e.s, num e.e, pyStrip e.l]) := by
    rw [hrest]
    cases hes : t.es with
    | nil => rfl
    | cons e es =>
      simp only [ivBodiesG]
      exact mapM_entries_iv_gen L hL num sg hnum hsg trail htrail 0 e es
  simp only [readTierLong, hI, if_true, hsplit, hp, List.map_cons, List.headD_cons, List.drop_succ_cons, List.drop_zero,
    hn, hx1, hx2, hents, need, needP, bind, Except.bind, pure, Except.pure, unescape_name, toStr_toArray, rawTier, stripT,
    List.map_map, Function.comp_def]

/-- a point tier's text never matches `class ?= ?"IntervalTier"`, in any layout, whatever its name and marks are -/
theorem class_not_in_point_gen (L : Layout) (hL : L.Good) (num : α → String) (sg : α → Bool) (hnum : ∀ x, LongNum (num x).toList) (k : Nat)
    (t : PTier α) (trail : List Char) (htrail : Blank trail) :
    scanL classKw classAfter (tierBodyG L num sg k (.P t) ++ trail) = none := by
  apply classScan_none
  intro b a h
  rw [tierBodyG_lines] at h
  have hc : 'c' ∈ pcG b a := by cases b <;> cases a <;> decide
  have hnl : '\n' ∉ pcG b a := by cases b <;> cases a <;> decide
  have hne : pcG b a ≠ [] := by cases b <;> cases a <;> decide
  rcases infix_lines (pcG b a) _ _ hnl hne h with ⟨s, hs, hin⟩ | hin
  · revert hin
    apply tierLinesG_all L num sg k (.P t) (fun s => ¬ pcG b a <:+: s) _ _ _ _ _ _ s hs
    · exact fun j => not_infix_of_not_mem 'c' _ _ hc
        (notMem_idxG L hL _ _ j 'c' (by decide) (by decide) (by decide) (by decide) (by decide))
    · constructor
      · intro h; cases h
      · intro _ hin
        have e : classRowG L "TextTier".toList =
            (L.i2 ++ (classKw ++ eqOf L.eqB L.eqA)) ++ q :: ("TextTier".toList ++ q :: L.tr .cls) := by
          simp only [classRowG, eqS_eq, List.append_assoc, List.cons_append, List.nil_append]
          rfl
        rw [e] at hin
        exact classPat_not_in_textTierRow b a L.eqB L.eqA L.i2 (L.tr .cls) hL.b2.noQuote (hL.btr .cls).noQuote
          ((hL.btr .cls).notMem _ (by decide) (by decide)) hin
    · intro n
      exact ⟨not_infix_of_not_mem 'c' _ _ hc (sizeRowG_notMem L hL 'c' _ n (by decide) (by decide) (by decide) (by decide) (by decide)),
        not_infix_of_not_mem 'c' _ _ hc (sizeRowG_notMem L hL 'c' _ n (by decide) (by decide) (by decide) (by decide) (by decide))⟩
    · intro j
      have ic := notMem_idxG L hL L.colonEntry .entryIdx j 'c' (by decide) (by decide) (by decide) (by decide) (by decide)
      have tc := hL.b3.notMem 'c' (by decide) (by decide)
      constructor <;> apply not_infix_of_not_mem 'c' _ _ hc <;> simp only [List.mem_append, not_or]
      · exact ⟨tc, sepS_noChar _ _ 'c' (by decide) (by decide) (by decide), ic⟩
      · exact ⟨tc, sepS_noChar _ _ 'c' (by decide) (by decide) (by decide), ic⟩
    · intro ind key b x r hind hkey
      exact not_infix_of_not_mem 'c' _ _ hc (numRowS_notMem L hL 'c' ind key b _ r (hnum x)
        ((ind_blank L hL ind hind).notMem _ (by decide) (by decide))
        (key_noChar 'c' key hkey (by decide) (by decide) (by decide)) (by decide) (by decide) (by decide) (by decide))
    · intro ind key s r hind hkey _
      simp only [List.mem_cons, List.not_mem_nil, or_false] at hkey
      rcases hkey with rfl | rfl | rfl
      · exact class_not_in_textRowG L hL b a ind _ s r (ind_blank L hL ind hind) (by decide) 'e' ['m', 'a', 'n'] (by decide)
          (by decide) (by decide) (by decide)
      · exact class_not_in_textRowG L hL b a ind _ s r (ind_blank L hL ind hind) (by decide) 't' ['x', 'e', 't'] (by decide)
          (by decide) (by decide) (by decide)
      · exact class_not_in_textRowG L hL b a ind _ s r (ind_blank L hL ind hind) (by decide) 'k' ['r', 'a', 'm'] (by decide)
          (by decide) (by decide) (by decide)
  · exact not_infix_of_not_mem 'c' _ _ hc (htrail.notMem _ (by decide) (by decide)) hin

/-- one written point tier of any layout is read back from its `tierTxt` -/
theorem readTier_pt_gen (L : Layout) (hL : L.Good) (num : α → String) (sg : α → Bool) (hnum : ∀ x, LongNum (num x).toList) (hsg : ∀ x, sg x = false) (k : Nat)
    (t : PTier α) (trail : List Char) (htrail : Blank trail) (hkw : NoKwLong (.P t)) :
    readTierLong (tierBodyG L num sg k (.P t) ++ trail).toArray = .ok (rawTier num (stripT (.P t))) := by
  have hkn : ∀ p ∈ [ptSA, ptSB], ¬ p <:+: t.name.toList := fun p hp =>
    hkw t.name (by simp [texts]) p (List.mem_cons_of_mem _ (List.mem_cons_of_mem _ hp))
  have hke : ∀ e ∈ t.ps, ∀ p ∈ [ptSA, ptSB], ¬ p <:+: e.l.toList := fun e he p hp =>
    hkw e.l (by simp only [texts, List.mem_cons, List.mem_map]; exact Or.inr ⟨e, he, rfl⟩) p
      (List.mem_cons_of_mem _ (List.mem_cons_of_mem _ hp))
  have hI : matchClass (tierBodyG L num sg k (.P t) ++ trail).toArray = false := by
    rw [matchClass_eq, List.toList_toArray, class_not_in_point_gen L hL num sg hnum k t trail htrail]
    rfl
  have hsplit : splitKw (tierBodyG L num sg k (.P t) ++ trail).toArray (lit "points") =
      (piecesL L.i3 (tierHeadG L num sg k "TextTier".toList t.name t.lo t.hi "points".toList t.ps.length)
        (ptBodiesG L num sg 0 t.ps) trail).map List.toArray := by
    rw [splitKw_eq, lit_ptSA, lit_ptSB, List.toList_toArray]
    have e : tierBodyG L num sg k (.P t) ++ trail =
        tierHeadG L num sg k "TextTier".toList t.name t.lo t.hi "points".toList t.ps.length ++
          (itemsL L.i3 (sepS "points".toList L.gapEntry) (ptBodiesG L num sg 0 t.ps) ++ trail) := by
      simp only [tierBodyG, List.append_assoc]
    rw [e]
    congr 1
    apply splitL_itemsG 'p' _ _ L.i3 _ _ _ trail (by decide) (by decide) (sepS_pt L.gapEntry)
      (by intro w; simp [List.isPrefixOf])
    intro Z hZ
    simp only [List.mem_cons] at hZ
    rcases hZ with rfl | hZ
    · apply clean_lines _ _ _ _ _ (by decide) (by decide) (by decide) (by decide) hL.b3.noBracket htrail.noBracket
      intro s hs
      exact ⟨headLinesG_free L hL ptSA num sg hnum k _ t.name t.lo t.hi _ _ (by decide) (by decide) (by decide) (by decide)
          (hkn _ (by simp)) s hs,
        headLinesG_free L hL ptSB num sg hnum k _ t.name t.lo t.hi _ _ (by decide) (by decide) (by decide) (by decide)
          (hkn _ (by simp)) s hs⟩
    · obtain ⟨j', e', he', rfl⟩ := mem_ptBodiesG L num sg 0 t.ps Z hZ
      apply clean_lines _ _ _ _ _ (by decide) (by decide) (by decide) (by decide) hL.b3.noBracket htrail.noBracket
      intro s hs
      exact ⟨ptBodyG_free L hL ptSA num sg hnum j' e' (by decide) (by decide) (hke e' he' _ (by simp)) s hs,
        ptBodyG_free L hL ptSB num sg hnum j' e' (by decide) (by decide) (hke e' he' _ (by simp)) s hs⟩
  obtain ⟨ws, rest, hws, hp, hrest⟩ := piecesL_shape L.i3
    (tierHeadG L num sg k "TextTier".toList t.name t.lo t.hi "points".toList t.ps.length) (ptBodiesG L num sg 0 t.ps) trail
  have hwsq : '"' ∉ ws := by rcases hws with rfl | rfl; exact hL.b3.noQuote; exact htrail.noQuote
  have hn := head_name_gen L hL num sg hnum k false t.name t.lo t.hi "points".toList t.ps.length ws (by decide) hwsq
  simp only [Bool.false_eq_true, if_false] at hn
  obtain ⟨hx1, hx2⟩ := rest_nums_gen L hL num sg hnum hsg t.lo t.hi "points".toList t.ps.length ws
  have hents : (rest.map List.toArray).mapM (readEntryLong false) = .ok (t.ps.map fun p => [num p.t, pyStrip p.l]) := by
    rw [hrest]
    cases hes : t.ps with
    | nil => rfl
    | cons e es =>
      simp only [ptBodiesG]
      exact mapM_entries_pt_gen L hL num sg hnum hsg trail htrail 0 e es
  simp only [readTierLong, hI, Bool.false_eq_true, if_false, hsplit, hp, List.map_cons, List.headD_cons, List.drop_succ_cons,
    List.drop_zero, hn, hx1, hx2, hents, need, needP, bind, Except.bind, pure, Except.pure, unescape_name, toStr_toArray, rawTier,
    stripT, List.map_map, Function.comp_def]

/-- any written tier of any layout is read back from its `tierTxt` with every label STRIPPED — no hypothesis on labels -/
theorem readTier_gen_strip (L : Layout) (hL : L.Good) (num : α → String) (sg : α → Bool) (hnum : ∀ x, LongNum (num x).toList) (hsg : ∀ x, sg x = false) (k : Nat)
    (t : AnyTier α) (trail : List Char) (htrail : Blank trail) (hkw : NoKwLong t) :
    readTierLong (tierBodyG L num sg k t ++ trail).toArray = .ok (rawTier num (stripT t)) := by
  cases t with
  | I t => exact readTier_iv_gen L hL num sg hnum hsg k t trail htrail hkw
  | P t => exact readTier_pt_gen L hL num sg hnum hsg k t trail htrail hkw

theorem readTier_gen (L : Layout) (hL : L.Good) (num : α → String) (sg : α → Bool) (hnum : ∀ x, LongNum (num x).toList) (hsg : ∀ x, sg x = false) (k : Nat)
    (t : AnyTier α) (trail : List Char) (htrail : Blank trail) (hkw : NoKwLong t) (hlab : StrippedLabels t) : readTierLong (tierBodyG L num sg k t ++ trail).toArray = .ok (rawTier num t) := by
  rw [readTier_gen_strip L hL num sg hnum hsg k t trail htrail hkw, stripT_of_stripped t hlab]

/-! ## the whole file -/

theorem Blank.noCR {l : List Char} (h : Blank l) : '\r' ∉ l := h.notMem _ (by decide) (by decide)

theorem crOK_textRowG (L : Layout) (hL : L.Good) (ind key : List Char) (s : String) (r : Row) (hi : '\r' ∉ ind) (hk : '\r' ∉ key)
    (hs : hasCRLF s.toList = false) : CrOK (textRowG L ind key s r) := by
  unfold CrOK
  have e : textRowG L ind key s r ++ ['\n'] = (ind ++ (key ++ eqS L)) ++ (q :: (escapeL s.toList ++ q :: (L.tr r ++ ['\n']))) := by
    simp only [textRowG, row, List.append_assoc, List.cons_append, List.nil_append]
  rw [e, hasCRLF_pre _ _ (by
    simp only [List.mem_append, not_or]; exact ⟨hi, hk, notMem_eqS L _ (by decide) (by decide)⟩), hasCRLF_cons,
    hasCRLF_escape _ _ hs]
  have h2 : hasCRLF (q :: (L.tr r ++ ['\n'])) = false := by
    apply hasCRLF_of_no_cr
    simp only [List.mem_cons, List.mem_append, List.not_mem_nil, or_false, not_or]
    exact ⟨by decide, (hL.btr r).noCR, by decide⟩
  simp [show (q == '\r') = false by decide, h2]

theorem tierLinesG_crOK (L : Layout) (hL : L.Good) (num : α → String) (sg : α → Bool) (hnum : ∀ x, LongNum (num x).toList) (k : Nat)
    (t : AnyTier α) (hcr : NoCRLF t) : ∀ s ∈ tierLinesG L num sg k t, CrOK s := by
  apply tierLinesG_all L num sg k t CrOK
  · exact fun j => crOK_of_no_cr _ (notMem_idxG L hL _ _ j '\r' (by decide) (by decide) (by decide) (by decide) (by decide))
  · exact ⟨fun _ => crOK_of_no_cr _ (classRowG_notMem L hL '\r' _ (by decide) (by decide) (by decide) (by decide) (by decide)),
      fun _ => crOK_of_no_cr _ (classRowG_notMem L hL '\r' _ (by decide) (by decide) (by decide) (by decide) (by decide))⟩
  · intro n
    exact ⟨crOK_of_no_cr _ (sizeRowG_notMem L hL '\r' _ n (by decide) (by decide) (by decide) (by decide) (by decide)),
      crOK_of_no_cr _ (sizeRowG_notMem L hL '\r' _ n (by decide) (by decide) (by decide) (by decide) (by decide))⟩
  · intro j
    have ic := notMem_idxG L hL L.colonEntry .entryIdx j '\r' (by decide) (by decide) (by decide) (by decide) (by decide)
    constructor <;> apply crOK_of_no_cr <;> simp only [List.mem_append, not_or]
    · exact ⟨hL.b3.noCR, sepS_noChar _ _ '\r' (by decide) (by decide) (by decide), ic⟩
    · exact ⟨hL.b3.noCR, sepS_noChar _ _ '\r' (by decide) (by decide) (by decide), ic⟩
  · intro ind key b x r hind hkey
    exact crOK_of_no_cr _ (numRowS_notMem L hL '\r' ind key b _ r (hnum x) (ind_blank L hL ind hind).noCR
      (key_noChar '\r' key hkey (by decide) (by decide) (by decide)) (by decide) (by decide) (by decide) (by decide))
  · intro ind key s r hind hkey hs
    exact crOK_textRowG L hL ind key s r (ind_blank L hL ind hind).noCR
      (tkey_noChar '\r' key hkey (by decide) (by decide) (by decide)) (hcr s hs)

theorem hdrG_notMem (L : Layout) (hL : L.Good) (num : α → String) (sg : α → Bool) (hnum : ∀ x, LongNum (num x).toList) (lo hi : α) (n : Nat)
    (c : Char) (hn : numChar c = false) (hc1 : c ≠ ' ') (hc2 : c ≠ '=') (hc3 : c ≠ '\t')
    (h1 : c ∉ "File type = \"ooTextFile\"".toList) (h2 : c ∉ "Object class = \"TextGrid\"".toList)
    (h3 : c ∉ "xmin".toList) (h4 : c ∉ "xmax".toList) (h5 : c ∉ "tiers? <exists>".toList) (h6 : c ∉ "size = ".toList) :
    ∀ s ∈ hdrG L num sg lo hi n, c ∉ s := by
  intro s hs
  simp only [hdrG, List.mem_cons, List.not_mem_nil, or_false] at hs
  have hd : c.isDigit = false := by
    cases h : c.isDigit with
    | false => rfl
    | true => rw [digit_numChar c h] at hn; cases hn
  rcases hs with rfl | rfl | rfl | rfl | rfl | rfl | rfl
  · exact h1
  · exact h2
  · simp
  · simp only [List.mem_append, not_or]
    exact ⟨h3, notMem_eqS L c hc1 hc2, notMem_sgS (sg lo) c (by intro e; rw [e] at hn; exact absurd hn (by decide)),
      notMem_num _ (hnum lo) c hn, (hL.btr .hMin).notMem c hc1 hc3⟩
  · simp only [List.mem_append, not_or]
    exact ⟨h4, notMem_eqS L c hc1 hc2, notMem_num _ (hnum hi) c hn, (hL.btr .hMax).notMem c hc1 hc3⟩
  · simp only [List.mem_append, not_or]
    exact ⟨h5, (hL.btr .tiersQ).notMem c hc1 hc3⟩
  · simp only [List.mem_append, not_or]
    exact ⟨h6, digits_no c n hd, (hL.btr .size).notMem c hc1 hc3⟩

theorem itemsG_noCRLF (L : Layout) (hL : L.Good) (num : α → String) (sg : α → Bool) (hnum : ∀ x, LongNum (num x).toList) (sp : List Char)
    (hsp : '\r' ∉ sp) (k : Nat) (ts : List (AnyTier α)) (hcr : ∀ t ∈ ts, NoCRLF t) :
    hasCRLF (itemsL L.i1 sp (tierBodiesG L num sg k ts)) = false := by
  induction ts generalizing k with
  | nil => rfl
  | cons t ts ih =>
    simp only [tierBodiesG, itemsL]
    rw [← List.append_assoc, hasCRLF_pre _ _ (by simp only [List.mem_append, not_or]; exact ⟨hL.b1.noCR, hsp⟩),
      tierBodyG_lines, hasCRLF_lines_append _ _ (tierLinesG_crOK L hL num sg hnum k t (hcr t (by simp)))]
    exact ih (k + 1) (fun x hx => hcr x (List.mem_cons_of_mem _ hx))

/-- a file written in any layout contains no `\r\n` -/
theorem writeLongS_noCRLF (L : Layout) (hL : L.Good) (num : α → String) (sg : α → Bool) (hnum : ∀ x, LongNum (num x).toList) (g : Tg α)
    (lo hi : α) (hcr : ∀ t ∈ g.tiers, NoCRLF t) : hasCRLF (writeLongS L num sg g lo hi) = false := by
  unfold writeLongS
  rw [hasCRLF_lines_append _ _ (fun s hs => crOK_of_no_cr _ (hdrG_notMem L hL num sg hnum lo hi _ '\r' (by decide) (by decide)
      (by decide) (by decide) (by decide) (by decide) (by decide) (by decide) (by decide) (by decide) s hs)),
    ← List.append_assoc, hasCRLF_pre _ _ (by
      simp only [r0G, List.mem_append, List.mem_cons, List.not_mem_nil, or_false, not_or]
      exact ⟨sepS_noChar _ _ '\r' (by decide) (by decide) (by decide), by decide, by decide, (hL.btr .top).noCR, by decide⟩)]
  exact itemsG_noCRLF L hL num sg hnum _ (sepS_noChar _ _ '\r' (by decide) (by decide) (by decide)) 0 g.tiers hcr

theorem stripL_blank (b X : List Char) (hb : Blank b) : stripL (b ++ X) = stripL X := by
  induction b with
  | nil => rfl
  | cons c cs ih =>
    have hc : pyIsSpace c = true := by rcases hb c (by simp) with rfl | rfl <;> decide
    simp only [List.cons_append, stripL, hc, if_true]
    exact ih (fun x hx => hb x (List.mem_cons_of_mem _ hx))

theorem stripList_blank_pad (b1 b2 w : List Char) (h1 : Blank b1) (h2 : Blank b2) (hne : w ≠ []) (hw : NoEdgeSpace w) :
    stripList (b1 ++ (w ++ b2)) = w := by
  unfold stripList
  obtain ⟨a, as, rfl⟩ : ∃ a as, w = a :: as := by
    cases w with
    | nil => exact absurd rfl hne
    | cons a as => exact ⟨a, as, rfl⟩
  have e1 : stripL (b1 ++ (a :: as ++ b2)) = a :: as ++ b2 := by
    rw [stripL_blank _ _ h1]
    simp only [List.cons_append, stripL, hw.1 a as rfl, Bool.false_eq_true, if_false]
  rw [e1]
  have e2 : (a :: as ++ b2).reverse = b2.reverse ++ (a :: as).reverse := by simp
  rw [e2, stripL_blank _ _ (fun c hc => h2 c (by simpa using hc))]
  cases hr : (a :: as).reverse with
  | nil => simp at hr
  | cons d ds =>
    have hd : (a :: as).getLast? = some d := by
      have := List.head?_reverse (l := a :: as); rw [hr] at this; simpa using this.symm
    simp only [stripL, hw.2 d hd, Bool.false_eq_true, if_false]
    rw [← hr, List.reverse_reverse]

/-- `headerList[k].split("=")[1].strip()` on a written header row of any layout -/
theorem headerField_gen (L : Layout) (hl : List Txt) (k : Nat) (key : List Char) (w : List Char) (tr : List Char)
    (hne : w ≠ []) (hedge : NoEdgeSpace w) (heq : '=' ∉ w) (htr : Blank tr) (hk : '=' ∉ key)
    (hline : hl[k]? = some (key ++ (eqS L ++ (w ++ tr))).toArray) :
    headerField hl k = .ok w.toArray := by
  have e : key ++ (eqS L ++ (w ++ tr)) =
      (key ++ (if L.eqB then [' '] else [])) ++ '=' :: ((if L.eqA then [' '] else []) ++ (w ++ tr)) := by
    simp [eqS]
  have hbB : Blank (if L.eqB then [' '] else []) := by intro c hc; split at hc <;> simp at hc; exact Or.inl hc
  have hbA : Blank (if L.eqA then [' '] else []) := by intro c hc; split at hc <;> simp at hc; exact Or.inl hc
  have h1 : '=' ∉ key ++ (if L.eqB then [' '] else []) := by
    simp only [List.mem_append, not_or]; exact ⟨hk, hbB.notMem _ (by decide) (by decide)⟩
  have h2 : '=' ∉ (if L.eqA then [' '] else []) ++ (w ++ tr) := by
    simp only [List.mem_append, not_or]
    exact ⟨hbA.notMem _ (by decide) (by decide), heq, htr.notMem _ (by decide) (by decide)⟩
  simp only [headerField, nth?, hline, bind, Except.bind, pure, Except.pure]
  rw [e, splitChar_two '=' _ _ h1 h2]
  simp only [List.getElem?_cons_succ, List.getElem?_cons_zero, strip_toArray,
    stripList_blank_pad _ _ _ hbA htr hne hedge]

theorem mem_tierBodiesG (L : Layout) (num : α → String) (sg : α → Bool) (k : Nat) (ts : List (AnyTier α)) (Z : List Char)
    (h : Z ∈ tierBodiesG L num sg k ts) : ∃ k' t, t ∈ ts ∧ Z = tierBodyG L num sg k' t := by
  induction ts generalizing k with
  | nil => simp [tierBodiesG] at h
  | cons t ts ih =>
    simp only [tierBodiesG, List.mem_cons] at h
    rcases h with rfl | h
    · exact ⟨k, t, by simp, rfl⟩
    · obtain ⟨k', t', ht, hz⟩ := ih (k + 1) h
      exact ⟨k', t', List.mem_cons_of_mem _ ht, hz⟩

theorem mapM_tiers_gen (L : Layout) (hL : L.Good) (num : α → String) (sg : α → Bool) (hnum : ∀ x, LongNum (num x).toList) (hsg : ∀ x, sg x = false) (k : Nat)
    (t : AnyTier α) (ts : List (AnyTier α)) (hkw : ∀ x ∈ t :: ts, NoKwLong x) :
    ((piecesL L.i1 (tierBodyG L num sg k t) (tierBodiesG L num sg (k + 1) ts) []).map List.toArray).mapM readTierLong =
      .ok ((t :: ts).map fun t => rawTier num (stripT t)) := by
  induction ts generalizing k t with
  | nil =>
    simp only [tierBodiesG, piecesL, List.map_cons, List.map_nil, List.mapM_cons, List.mapM_nil,
      readTier_gen_strip L hL num sg hnum hsg k t [] Blank.nil (hkw t (by simp)), bind,
      Except.bind, pure, Except.pure]
  | cons t2 ts ih =>
    have h2 := ih (k + 1) t2 (fun x hx => hkw x (List.mem_cons_of_mem _ hx))
    simp only [tierBodiesG, piecesL, List.map_cons, List.mapM_cons,
      readTier_gen_strip L hL num sg hnum hsg k t L.i1 hL.b1 (hkw t (by simp)), bind, Except.bind,
      pure, Except.pure] at h2 ⊢
    rw [h2]

/-- the split at `item [` / `item[` of a file in any layout -/
theorem split_file_gen (L : Layout) (hL : L.Good) (num : α → String) (sg : α → Bool) (hnum : ∀ x, LongNum (num x).toList) (g : Tg α)
    (lo hi : α) (hkw : ∀ t ∈ g.tiers, NoKwLong t) :
    splitL itA itB 0 (writeLongS L num sg g lo hi) [] =
      joinNl (hdrG L num sg lo hi g.tiers.length) :: piecesL L.i1 (r0G L) (tierBodiesG L num sg 0 g.tiers) [] ∧
    splitL itA itB 0 (r0G L ++ itemsL L.i1 (sepS "item".toList L.gapItem) (tierBodiesG L num sg 0 g.tiers)) [] =
      piecesL L.i1 (r0G L) (tierBodiesG L num sg 0 g.tiers) [] := by
  have hab : ∀ w, itA.isPrefixOf (itB ++ w) = false := by intro w; simp [itA, itB, List.isPrefixOf]
  have hrest : splitL itA itB 0 (r0G L ++ itemsL L.i1 (sepS "item".toList L.gapItem) (tierBodiesG L num sg 0 g.tiers)) [] =
      piecesL L.i1 (r0G L) (tierBodiesG L num sg 0 g.tiers) [] := by
    have e : r0G L ++ itemsL L.i1 (sepS "item".toList L.gapItem) (tierBodiesG L num sg 0 g.tiers) =
        r0G L ++ (itemsL L.i1 (sepS "item".toList L.gapItem) (tierBodiesG L num sg 0 g.tiers) ++ []) := by
      rw [List.append_nil]
    rw [e]
    apply splitL_itemsG 'i' _ _ L.i1 _ _ _ [] (by decide) (by decide) (sepS_it L.gapItem) hab
    intro Z hZ
    simp only [List.mem_cons] at hZ
    rcases hZ with rfl | hZ
    · have : r0G L = joinNl [']' :: ':' :: L.tr .top] := by simp [r0G, joinNl]
      rw [this]
      apply clean_lines _ _ _ _ _ (by decide) (by decide) (by decide) (by decide) hL.b1.noBracket (by simp)
      intro s hs
      simp only [List.mem_cons, List.not_mem_nil, or_false] at hs
      subst hs
      have hnb : '[' ∉ ']' :: ':' :: L.tr .top := by
        simp only [List.mem_cons, not_or]; exact ⟨by decide, by decide, (hL.btr .top).noBracket⟩
      exact ⟨not_infix_of_not_mem '[' _ _ (by decide) hnb, not_infix_of_not_mem '[' _ _ (by decide) hnb⟩
    · obtain ⟨k', t, ht, rfl⟩ := mem_tierBodiesG L num sg 0 g.tiers Z hZ
      rw [tierBodyG_lines]
      apply clean_lines _ _ _ _ _ (by decide) (by decide) (by decide) (by decide) hL.b1.noBracket (by simp)
      intro s hs
      exact ⟨tierLinesG_free L hL num sg hnum k' t itA (by decide) (by decide) (by decide)
          (fun x hx => hkw t ht x hx itA (by simp)) s hs,
        tierLinesG_free L hL num sg hnum k' t itB (by decide) (by decide) (by decide)
          (fun x hx => hkw t ht x hx itB (by simp)) s hs⟩
  refine ⟨?_, hrest⟩
  unfold writeLongS
  have hfree : ∀ pat : List Char, '[' ∈ pat → '\n' ∉ pat → ¬ pat <:+: joinNl (hdrG L num sg lo hi g.tiers.length) := by
    intro pat hb hn h
    have hne : pat ≠ [] := by intro e; rw [e] at hb; simp at hb
    have h' : pat <:+: joinNl (hdrG L num sg lo hi g.tiers.length) ++ [] := by rw [List.append_nil]; exact h
    rcases infix_lines pat _ [] hn hne h' with ⟨s, hs, hin⟩ | hin
    · exact not_infix_of_not_mem '[' _ _ hb (hdrG_notMem L hL num sg hnum lo hi _ '[' (by decide) (by decide) (by decide)
        (by decide) (by decide) (by decide) (by decide) (by decide) (by decide) (by decide) s hs) hin
    · exact hne (List.infix_nil.1 hin)
  have hhead : (sepS "item".toList L.gapTop ++ (r0G L ++ itemsL L.i1 (sepS "item".toList L.gapItem)
      (tierBodiesG L num sg 0 g.tiers))).head? = some 'i' := by
    rcases sepS_it L.gapTop with h | h <;> rw [h] <;> rfl
  have hno : NoHit itA itB (joinNl (hdrG L num sg lo hi g.tiers.length)) (sepS "item".toList L.gapTop ++ (r0G L ++
      itemsL L.i1 (sepS "item".toList L.gapItem) (tierBodiesG L num sg 0 g.tiers))) :=
    noHit_of_not_infix 'i' _ _ (joinNl (hdrG L num sg lo hi g.tiers.length)) _ (by decide : 'i' ∉ ['t', 'e', 'm', ' ', '['])
      (by decide : 'i' ∉ ['t', 'e', 'm', '[']) (Or.inr hhead) (hfree itA (by decide) (by decide)) (hfree itB (by decide) (by decide))
  rw [splitL_noHit _ _ _ _ _ hno]
  rcases sepS_it L.gapTop with h | h
  · rw [h, splitL_hit _ _ _ _ (by decide), hrest]; simp
  · rw [h, splitL_hitB _ _ _ _ (by decide) (hab _), hrest]; simp

theorem hdrG3 (L : Layout) (num : α → String) (sg : α → Bool) (lo hi : α) (n : Nat) :
    ((hdrG L num sg lo hi n).map List.toArray ++ [#[]])[3]? =
      some ("xmin".toList ++ (eqS L ++ ((sgS (sg lo) ++ (num lo).toList) ++ L.tr .hMin))).toArray := by
  simp only [hdrG, List.append_assoc]; rfl
theorem hdrG4 (L : Layout) (num : α → String) (sg : α → Bool) (lo hi : α) (n : Nat) :
    ((hdrG L num sg lo hi n).map List.toArray ++ [#[]])[4]? =
      some ("xmax".toList ++ (eqS L ++ ((num hi).toList ++ L.tr .hMax))).toArray := rfl

/-- the header's `xmin` as praatio keeps it (`float()` of the text after `=`): with its sign -/
def sgStr (b : Bool) (w : String) : String := String.ofList (sgS b ++ w.toList)

theorem sgStr_false (w : String) : sgStr false w = w := by
  simp [sgStr, sgS, String.ofList_toList]

theorem toStr_sg (b : Bool) (w : String) : toStr (sgS b ++ w.toList).toArray = sgStr b w := rfl

theorem noEdge_sg (b : Bool) (w : List Char) (h : LongNum w) : NoEdgeSpace (sgS b ++ w) := by
  cases b with
  | false => exact h.noEdge
  | true =>
    have hw := h.noEdge
    constructor
    · intro c rest e
      have : c = '-' := by
        have := congrArg List.head? e
        simpa [sgS] using this.symm
      subst this; decide
    · intro c hc
      have e : (sgS true ++ w).getLast? = w.getLast? := by
        show ('-' :: w).getLast? = w.getLast?
        exact C01.getLast?_cons_ne _ h.ne_nil
      rw [e] at hc
      exact hw.2 c hc

/-- the whole-file statement for the internal family `writeLongS` with its sign knob switched off; `parseLong_layout` is the
statement about `writeLong` (signs are part of the numerals: `LongNum`) -/
theorem parseLong_layoutS (L : Layout) (hok : L.ok = true) (num : α → String) (sg : α → Bool)
    (hnum : ∀ x, LongNum (num x).toList) (hsg : ∀ x, sg x = false) (g : Tg α)
    (lo hi : α) (hkw : ∀ t ∈ g.tiers, NoKwLong t)
    (hcr : ∀ t ∈ g.tiers, NoCRLF t) :
    Rd.parseLong (writeLongS L num sg g lo hi).toArray =
      .ok ⟨sgStr (sg lo) (num lo), num hi, g.tiers.map fun t => rawTier num (stripT t)⟩ := by
  have hL := L.good hok
  obtain ⟨hs1, hs2⟩ := split_file_gen L hL num sg hnum g lo hi hkw
  obtain ⟨ws, restP, hws, hp, hrestP⟩ := piecesL_shape L.i1 (r0G L) (tierBodiesG L num sg 0 g.tiers) []
  generalize hH : joinNl (hdrG L num sg lo hi g.tiers.length) = H0 at hs1
  obtain ⟨R, hR⟩ : ∃ R, r0G L ++ itemsL L.i1 (sepS "item".toList L.gapItem) (tierBodiesG L num sg 0 g.tiers) = R := ⟨_, rfl⟩
  rw [hR] at hs2
  have hfl : writeLongS L num sg g lo hi = H0 ++ (sepS "item".toList L.gapTop ++ R) := by rw [← hH, ← hR]; rfl
  generalize hdata : (writeLongS L num sg g lo hi).toArray = data
  have hdl : data.toList = writeLongS L num sg g lo hi := by rw [← hdata]
  have hrep : replace data (lit "\r\n") (lit "\n") = data := by
    apply replace_id _ _ _ (by decide)
    rw [lit_crlf, hdl]
    exact no_crlf_of_hasCRLF _ (writeLongS_noCRLF L hL num sg hnum g lo hi hcr)
  have hsp : splitKw data (lit "item") = H0.toArray :: ((r0G L ++ ws).toArray :: restP.map List.toArray) := by
    rw [splitKw_eq, lit_itA, lit_itB, hdl, hs1, hp]; rfl
  have hdrop : data.toList.drop H0.toArray.size = sepS "item".toList L.gapTop ++ R := by
    rw [hdl, hfl, List.size_toArray, List.drop_left]
  have hrest : slice data (H0.toArray.size + (if startsAt data (lit "item [") H0.toArray.size then 6 else 5)) data.size =
      R.toArray := by
    apply slice_to_end
    have hst : startsAt data (lit "item [") H0.toArray.size = L.gapTop := by
      rw [startsAt_eq' _ _ _ (by decide), hdrop]
      have e3 : (lit "item [").toList = itA := rfl
      rw [e3]
      cases L.gapTop
      · simp [sepS, itA, List.isPrefixOf]
      · exact List.isPrefixOf_iff_prefix.2 (List.prefix_append _ _)
    rw [hst]
    have := drop_add_of_drop data.toList H0.toArray.size (sepS "item".toList L.gapTop) _ hdrop
    have hlen : (sepS "item".toList L.gapTop).length = if L.gapTop = true then 6 else 5 := by
      cases L.gapTop <;> rfl
    rw [hlen] at this; exact this
  have hhl : splitChar H0.toArray '\n' = (hdrG L num sg lo hi g.tiers.length).map List.toArray ++ [#[]] := by
    rw [← hH]
    exact splitChar_joinNl _ (hdrG_notMem L hL num sg hnum lo hi _ '\n' (by decide) (by decide) (by decide) (by decide)
      (by decide) (by decide) (by decide) (by decide) (by decide) (by decide))
  have hf3 := headerField_gen L _ 3 "xmin".toList (sgS (sg lo) ++ (num lo).toList) (L.tr .hMin)
    (by cases sg lo <;> simp [sgS, (hnum lo).ne_nil]) (noEdge_sg _ _ (hnum lo))
    (by
      simp only [List.mem_append, not_or]
      exact ⟨notMem_sgS _ _ (by decide), notMem_num _ (hnum lo) '=' (by decide)⟩)
    (hL.btr .hMin) (by decide) (hdrG3 L num sg lo hi g.tiers.length)
  have hf4 := headerField_gen L _ 4 "xmax".toList (num hi).toList (L.tr .hMax) (hnum hi).ne_nil (hnum hi).noEdge
    (notMem_num _ (hnum hi) '=' (by decide)) (hL.btr .hMax) (by decide) (hdrG4 L num sg lo hi g.tiers.length)
  have hsp2 : splitKw R.toArray (lit "item") = (r0G L ++ ws).toArray :: restP.map List.toArray := by
    rw [splitKw_eq, lit_itA, lit_itB, List.toList_toArray, hs2, hp]; rfl
  have htiers : (restP.map List.toArray).mapM readTierLong = .ok (g.tiers.map fun t => rawTier num (stripT t)) := by
    rw [hrestP]
    cases hts : g.tiers with
    | nil => rfl
    | cons t ts =>
      simp only [tierBodiesG]
      exact mapM_tiers_gen L hL num sg hnum hsg 0 t ts (fun x hx => hkw x (by rw [hts]; exact hx))
  unfold Rd.parseLong
  simp only [hrep, hsp, hrest, hhl, hf3, hf4, hsp2, List.drop_succ_cons, List.drop_zero, htiers, bind,
    Except.bind, pure, Except.pure, toStr_toArray, toStr_sg]

/-- **the family of long-format writers** (no signs) -/
def writeLong (L : Layout) (num : α → String) (g : Tg α) (lo hi : α) : List Char := writeLongS L num (fun _ => false) g lo hi

/-- a file written in any layout contains no `\r\n` -/
theorem writeLong_noCRLF (L : Layout) (hL : L.Good) (num : α → String) (hnum : ∀ x, LongNum (num x).toList) (g : Tg α)
    (lo hi : α) (hcr : ∀ t ∈ g.tiers, NoCRLF t) : hasCRLF (writeLong L num g lo hi) = false :=
  writeLongS_noCRLF L hL num _ hnum g lo hi hcr

/-- **C03, long layout family, EVERY label**: the long-format reader applied to the text written in ANY well-formed layout
(indentation, `item [k]` / `item[k]`, `[k]:` / `[k]`, one or no blank on either side of `=`, trailing blanks and tabs per
row kind) returns the data written with `str.strip()` applied to every label (`stripTg`, the reader's `label.strip()`) and nothing
else changed: tiers in order, class, name, span, every entry, labels otherwise character for character.  Hypotheses on the data as for praatio's own emitter (`C01.parseLong_emit`), classified for C03 (files from an
independent writer, "arbitrary tier data"): `hnum` — `-?[\d.]+(?:[eE][-+]?\d+)?`: `-0` starts and negative times included since
fix A30 (`long_short_negative_regression`, `neg_zero_start_sample`); `hkw` — known defect A10 (`C01.parseLong_keyword_counterexample`);
no hypothesis on labels (the former `hlab` is gone: a label with surrounding white space comes back stripped — as from the
short-format reader, and as the `IntervalTier` / `PointTier` constructors the result is handed to would make it anyway);
no hypothesis on names beyond `hkw` (multi-line names: fix A32; a name line that reads like a span row: fix A33,
`long_short_name_row_regression`); `hcr` — a `\r\n` inside a label of an LF file is taken for a line
end (CRLF normalisation is part of the reader's contract: `parseLong_layout_crlf`). -/
theorem parseLong_layout_strip (L : Layout) (hok : L.ok = true) (num : α → String) (hnum : ∀ x, LongNum (num x).toList) (g : Tg α)
    (lo hi : α) (hkw : ∀ t ∈ g.tiers, NoKwLong t)
    (hcr : ∀ t ∈ g.tiers, NoCRLF t) :
    Rd.parseLong (writeLong L num g lo hi).toArray = .ok (rawOf num (stripTg g) lo hi) := by
  unfold writeLong
  rw [parseLong_layoutS L hok num _ hnum (fun _ => rfl) g lo hi hkw hcr, sgStr_false]
  simp only [rawOf, stripTg, List.map_map, Function.comp_def]

/-- **C03, long layout family**, strip-invariant labels: the reader returns exactly the data written — the corollary of
`parseLong_layout_strip` (`hlab` is what the `IntervalTier` / `PointTier` constructors enforce; without it every label comes back
`str.strip()`-ed and nothing else changes) -/
theorem parseLong_layout (L : Layout) (hok : L.ok = true) (num : α → String) (hnum : ∀ x, LongNum (num x).toList) (g : Tg α)
    (lo hi : α) (hkw : ∀ t ∈ g.tiers, NoKwLong t) (hlab : ∀ t ∈ g.tiers, StrippedLabels t)
    (hcr : ∀ t ∈ g.tiers, NoCRLF t) :
    Rd.parseLong (writeLong L num g lo hi).toArray = .ok (rawOf num g lo hi) := by
  rw [parseLong_layout_strip L hok num hnum g lo hi hkw hcr, stripTg_of_stripped g hlab]

/-! ## CRLF line ends -/

/-- the same text with CRLF line ends -/
def crlfOf : List Char → List Char
  | [] => []
  | c :: cs => if c = '\n' then '\r' :: '\n' :: crlfOf cs else c :: crlfOf cs

theorem crlfOf_head (l : List Char) : (crlfOf l).head? ≠ some '\n' := by
  cases l with
  | nil => simp [crlfOf]
  | cons c cs =>
    by_cases h : c = '\n'
    · simp [crlfOf, h]
    · simp [crlfOf, h]

/-- `replace("\r\n", "\n")` undoes the CRLF conversion of ANY text -/
theorem uncrlf_crlfOf (l : List Char) : uncrlfL (crlfOf l) = l := by
  induction l with
  | nil => rfl
  | cons c cs ih =>
    by_cases h : c = '\n'
    · simp only [crlfOf, h, if_true, uncrlfL, and_self, ih]
    · simp only [crlfOf, h, if_false]
      cases hx : crlfOf cs with
      | nil => rw [hx] at ih; rw [← ih]; rfl
      | cons d ds =>
        have hd : d ≠ '\n' := by
          intro e
          have := crlfOf_head cs
          rw [hx] at this
          simp [e] at this
        have : ¬ (c = '\r' ∧ d = '\n') := fun ⟨_, h2⟩ => hd h2
        rw [uncrlfL, if_neg this, ← hx, ih]

theorem parseLong_congr (a b : Txt) (h : replace a (lit "\r\n") (lit "\n") = replace b (lit "\r\n") (lit "\n")) :
    Rd.parseLong a = Rd.parseLong b := by
  unfold Rd.parseLong
  rw [h]

/-- the layout theorem for files with CRLF line ends (the reader normalises them first), EVERY label -/
theorem parseLong_layout_crlf_strip (L : Layout) (hok : L.ok = true) (num : α → String) (hnum : ∀ x, LongNum (num x).toList)
    (g : Tg α) (lo hi : α) (hkw : ∀ t ∈ g.tiers, NoKwLong t)
    (hcr : ∀ t ∈ g.tiers, NoCRLF t) :
    Rd.parseLong (crlfOf (writeLong L num g lo hi)).toArray = .ok (rawOf num (stripTg g) lo hi) := by
  rw [parseLong_congr _ (writeLong L num g lo hi).toArray, parseLong_layout_strip L hok num hnum g lo hi hkw hcr]
  apply Array.toList_inj.1
  rw [replace_crlf, replace_crlf, List.toList_toArray, List.toList_toArray, uncrlf_crlfOf]
  have hid : replace (writeLong L num g lo hi).toArray (lit "\r\n") (lit "\n") = (writeLong L num g lo hi).toArray := by
    apply replace_id _ _ _ (by decide)
    rw [lit_crlf, List.toList_toArray]
    exact no_crlf_of_hasCRLF _ (writeLong_noCRLF L (L.good hok) num hnum g lo hi hcr)
  have := congrArg Array.toList hid
  rw [replace_crlf] at this
  exact this.symm

/-- the layout theorem for files with CRLF line ends, strip-invariant labels (the corollary) -/
theorem parseLong_layout_crlf (L : Layout) (hok : L.ok = true) (num : α → String) (hnum : ∀ x, LongNum (num x).toList)
    (g : Tg α) (lo hi : α) (hkw : ∀ t ∈ g.tiers, NoKwLong t) (hlab : ∀ t ∈ g.tiers, StrippedLabels t)
    (hcr : ∀ t ∈ g.tiers, NoCRLF t) :
    Rd.parseLong (crlfOf (writeLong L num g lo hi)).toArray = .ok (rawOf num g lo hi) := by
  rw [parseLong_layout_crlf_strip L hok num hnum g lo hi hkw hcr, stripTg_of_stripped g hlab]

/-! ## the two layouts in use -/

/-- praatio's own emitter -/
def praatLayout : Layout where
  i1 := tabL
  i2 := tab2
  i3 := tab2
  i4 := tab3
  gapTop := true
  gapItem := true
  gapEntry := true
  colonItem := true
  colonEntry := true
  eqB := true
  eqA := true
  tr := fun r => match r with
    | .itemIdx | .entryIdx => []
    | _ => [' ']

/-- ELAN's shape, as in `tests/files/bobby_phones_elan.TextGrid`: `item []: ` at the top but `item[1]:` for the tiers,
`intervals [1]` without a colon, no trailing blank after the file's and the tiers' `xmin`, nor after the file's `xmax` -/
def elanLayout : Layout where
  i1 := tabL
  i2 := tab2
  i3 := tab2
  i4 := tab3
  gapTop := true
  gapItem := false
  gapEntry := true
  colonItem := true
  colonEntry := false
  eqB := true
  eqA := true
  tr := fun r => match r with
    | .itemIdx | .entryIdx | .hMin | .hMax | .tMin => []
    | _ => [' ']

theorem praatLayout_ok : praatLayout.ok = true := by decide
theorem elanLayout_ok : elanLayout.ok = true := by decide

theorem ivItemsG_praat (num : α → String) (j : Nat) (es : List (Iv α)) :
    itemsL praatLayout.i3 (sepS "intervals".toList praatLayout.gapEntry) (ivBodiesG praatLayout num (fun _ => false) j es) = ivItems num j es := by
  induction es generalizing j with
  | nil => rfl
  | cons e es ih =>
    simp only [ivBodiesG, itemsL, ivItems, ih]
    rfl
theorem ptItemsG_praat (num : α → String) (j : Nat) (ps : List (Pt α)) :
    itemsL praatLayout.i3 (sepS "points".toList praatLayout.gapEntry) (ptBodiesG praatLayout num (fun _ => false) j ps) = ptItems num j ps := by
  induction ps generalizing j with
  | nil => rfl
  | cons p ps ih =>
    simp only [ptBodiesG, itemsL, ptItems, ih]
    rfl

theorem tierBodyG_praat (num : α → String) (k : Nat) (t : AnyTier α) : tierBodyG praatLayout num (fun _ => false) k t = tierBodyL num k t := by
  cases t with
  | I t => simp only [tierBodyG, tierBodyL, ivItemsG_praat]; rfl
  | P t => simp only [tierBodyG, tierBodyL, ptItemsG_praat]; rfl

theorem tiersG_praat (num : α → String) (k : Nat) (ts : List (AnyTier α)) :
    itemsL praatLayout.i1 (sepS "item".toList praatLayout.gapItem) (tierBodiesG praatLayout num (fun _ => false) k ts) = tiersL num k ts := by
  induction ts generalizing k with
  | nil => rfl
  | cons t ts ih =>
    simp only [tierBodiesG, itemsL, tiersL, ih, tierBodyG_praat]
    rfl

/-- **praatio's emitter is the instance `praatLayout` of the family** -/
theorem writeLong_praat (num : α → String) (g : Tg α) (lo hi : α) :
    writeLong praatLayout num g lo hi = (tgToLong num g lo hi).toList := by
  rw [emitLong_toList]
  unfold writeLong writeLongS fileLong
  rw [tiersG_praat]
  rfl

/-- `C01.parseLong_emit` again, as an instance of the family -/
theorem parseLong_praat (num : α → String) (hnum : ∀ x, LongNum (num x).toList) (g : Tg α) (lo hi : α)
    (hkw : ∀ t ∈ g.tiers, NoKwLong t) (hlab : ∀ t ∈ g.tiers, StrippedLabels t)
    (hcr : ∀ t ∈ g.tiers, NoCRLF t) :
    Rd.parseLong (Txt.ofString (tgToLong num g lo hi)) = .ok (rawOf num g lo hi) := by
  have := parseLong_layout praatLayout praatLayout_ok num hnum g lo hi hkw hlab hcr
  rw [writeLong_praat] at this
  exact this

/-- **ELAN-style files are read back** -/
theorem parseLong_elan (num : α → String) (hnum : ∀ x, LongNum (num x).toList) (g : Tg α) (lo hi : α)
    (hkw : ∀ t ∈ g.tiers, NoKwLong t) (hlab : ∀ t ∈ g.tiers, StrippedLabels t)
    (hcr : ∀ t ∈ g.tiers, NoCRLF t) :
    Rd.parseLong (writeLong elanLayout num g lo hi).toArray = .ok (rawOf num g lo hi) :=
  parseLong_layout elanLayout elanLayout_ok num hnum g lo hi hkw hlab hcr

/-- **long and short encodings of the same data open to the same result** (any long layout, LF or CRLF) — negative times
included (`hnumL` admits a sign since fix A30: `long_short_negative_regression`), tier names with surrounding blanks or tabs
included (no hypothesis on names since fix A31: `long_short_name_blank_regression`).  The remaining hypotheses exclude exactly
the cases in which the two readers still DIFFER or are not both defined (multi-line names are no longer among them: fixes A32,
A33 — `long_short_name_newline_regression`, `long_short_name_row_regression`): the keywords of A10 (`hkwL`, `hkwS`: `C01.parseLong_keyword_counterexample`,
`C01.parseShort_keyword_counterexample`), no tier at all (`hne`: `C01.parseShort_no_tiers` — the short-format reader raises
`IndexError`, the long-format one returns no tiers).  NO hypothesis on labels: both readers strip a label (`label.strip()`) and
change nothing else — `parseLong_layout_strip`, `C01.parseShort_emit_strip`. -/
theorem long_short_equal (L : Layout) (hok : L.ok = true) (num : α → String) (hnumL : ∀ x, LongNum (num x).toList)
    (hnumS : ∀ x, NumWord (num x)) (g : Tg α) (lo hi : α) (hne : g.tiers ≠ [])
    (hkwL : ∀ t ∈ g.tiers, NoKwLong t) (hkwS : ∀ t ∈ g.tiers, NoKw t)
    (hcr : ∀ t ∈ g.tiers, NoCRLF t) :
    Rd.parseLong (writeLong L num g lo hi).toArray = Rd.parseShort (Txt.ofString (tgToShort num g lo hi)) ∧
    Rd.parseLong (crlfOf (writeLong L num g lo hi)).toArray = Rd.parseShort (Txt.ofString (tgToShort num g lo hi)) := by
  rw [parseLong_layout_strip L hok num hnumL g lo hi hkwL hcr,
    parseLong_layout_crlf_strip L hok num hnumL g lo hi hkwL hcr,
    parseShort_emit_strip num hnumS g lo hi hne hkwS hcr]
  exact ⟨rfl, rfl⟩

/-! ## `includeEmptyIntervals = False` -/

/-- what `_removeBlanks` does to one tier -/
def dropTier (t : RawTier) : RawTier := { t with entries := t.entries.filter fun e => e.getLast? != some "" }

/-- **`includeEmptyIntervals`**: with `True` nothing changes; with `False` the spans, the tiers, their order, class, name
and span are untouched, and from each tier exactly the entries whose label (last field) is empty are omitted — the others
stay, in order -/
theorem dropEmpty_spec (r : RawTg) :
    dropEmpty true r = r ∧
    (dropEmpty false r).xmin = r.xmin ∧ (dropEmpty false r).xmax = r.xmax ∧
    (dropEmpty false r).tiers = r.tiers.map dropTier ∧
    ∀ t : RawTier, (dropTier t).cls = t.cls ∧ (dropTier t).name = t.name ∧ (dropTier t).xmin = t.xmin ∧
      (dropTier t).xmax = t.xmax ∧ (dropTier t).entries.Sublist t.entries ∧
      ∀ e, e ∈ (dropTier t).entries ↔ e ∈ t.entries ∧ e.getLast? ≠ some "" := by
  refine ⟨rfl, rfl, rfl, rfl, ?_⟩
  intro t
  refine ⟨rfl, rfl, rfl, rfl, ?_, ?_⟩
  · exact (removeBlanks_spec t.entries).1
  · exact (removeBlanks_spec t.entries).2

/-! ## non-vacuity, and the ELAN shape against the fixture's text -/

theorem sample_elan_read_back :
    Rd.parseLong (writeLong elanLayout numN sampleTg 0 5).toArray = .ok (rawOf numN sampleTg 0 5) :=
  parseLong_elan numN numN_long sampleTg 0 5 sample_long_hyps.1 sample_long_hyps.2.1 sample_long_hyps.2.2

def smallTg : Tg Nat := ⟨[.I ⟨"phone", [⟨0, 1, ""⟩, ⟨1, 2, "B"⟩], 0, 2⟩, .P ⟨"pts", [⟨1, "x"⟩], 0, 2⟩], none, none⟩

-- the ELAN layout writes the shape of tests/files/bobby_phones_elan.TextGrid
#guard String.ofList (writeLong elanLayout numN smallTg 0 2) ==
  "File type = \"ooTextFile\"\nObject class = \"TextGrid\"\n\nxmin = 0\nxmax = 2\ntiers? <exists> \nsize = 2 \nitem []: \n" ++
  "    item[1]:\n        class = \"IntervalTier\" \n        name = \"phone\" \n        xmin = 0\n        xmax = 2 \n" ++
  "        intervals: size = 2 \n        intervals [1]\n            xmin = 0 \n            xmax = 1 \n            text = \"\" \n" ++
  "        intervals [2]\n            xmin = 1 \n            xmax = 2 \n            text = \"B\" \n" ++
  "    item[2]:\n        class = \"TextTier\" \n        name = \"pts\" \n        xmin = 0\n        xmax = 2 \n" ++
  "        points: size = 1 \n        points [1]\n            number = 1 \n            mark = \"x\" \n"
#guard String.ofList (writeLong praatLayout numN smallTg 0 2) == tgToLong numN smallTg 0 2

/-- a layout using every freedom at once: tabs, no blanks around `=`, no colons, `item[k]`, `intervals[j]`, mixed trailing -/
def oddLayout : Layout where
  i1 := ['\t']
  i2 := []
  i3 := [' ', '\t']
  i4 := ['\t', '\t']
  gapTop := false
  gapItem := false
  gapEntry := false
  colonItem := false
  colonEntry := false
  eqB := false
  eqA := false
  tr := fun r => match r with
    | .eText | .name => ['\t', ' ']
    | .hMin | .tMax => [' ', ' ', ' ']
    | _ => []

#guard oddLayout.ok
#guard rawEq (Rd.parseLong (writeLong oddLayout numN sampleTg 0 5).toArray) (rawOf numN sampleTg 0 5)
#guard rawEq (Rd.parseLong (crlfOf (writeLong oddLayout numN sampleTg 0 5)).toArray) (rawOf numN sampleTg 0 5)
#guard rawEq (Rd.parseLong (crlfOf (writeLong elanLayout numN smallTg 0 2)).toArray) (rawOf numN smallTg 0 2)
#guard rawEq (Rd.parseText (writeLong elanLayout numN smallTg 0 2).toArray false) (dropEmpty false (rawOf numN smallTg 0 2))

/-! ## regression for finding A22 (fixed in /repo, commit df3976c): the class row in any spacing

Before the fix the reader decided the tier class by the Python test `'class = "IntervalTier"' in tierTxt`; a conformant file
writing `class= "IntervalTier"` (or `class="IntervalTier"`, `class ="IntervalTier"`) was read WITHOUT ANY ERROR as a point tier
with no entries.  The finding came out of the layout-family proof, which at first needed the class row excluded from the
family.  The reader now uses `re.search(r'class ?= ?"IntervalTier"', tierTxt)` (`Rd.matchClass`), the class row follows `eqB` /
`eqA` like every other row, and `parseLong_layout` covers it. -/

/-- praatio's own output for one interval tier `a` with the interval (0, 1, `x y`), except that the class row has no blanks
around `=` -/
def clsBadText : String :=
  "File type = \"ooTextFile\"\nObject class = \"TextGrid\"\n\nxmin = 0 \nxmax = 2 \ntiers? <exists> \nsize = 1 \nitem []: \n" ++
  "    item [1]:\n        class=\"IntervalTier\" \n        name = \"a\" \n        xmin = 0 \n        xmax = 2 \n" ++
  "        intervals: size = 1 \n        intervals [1]:\n            xmin = 0 \n            xmax = 1 \n            text = \"x y\" \n"

def clsTg : Tg Nat := ⟨[.I ⟨"a", [⟨0, 1, "x y"⟩], 0, 2⟩], none, none⟩

#guard clsBadText.replace "class=" "class = " == tgToLong numN clsTg 0 2

/-- **regression (A22)**: the text that used to be read as an empty point tier is read as the interval tier with its interval -/
theorem class_eq_regression :
    rawEq (Rd.parseLong (Txt.ofString clsBadText)) ⟨"0", "2", [⟨"IntervalTier", "a", "0", "2", [["0", "1", "x y"]]⟩]⟩ = true := by
  rw [parseLong_eq]
  decide +kernel

/-- the layout without a blank before `=` anywhere (the harness's "tight" layout): an instance of the family -/
def tightLayout : Layout := { praatLayout with eqB := false }

theorem parseLong_tight (num : α → String) (hnum : ∀ x, LongNum (num x).toList) (g : Tg α) (lo hi : α)
    (hkw : ∀ t ∈ g.tiers, NoKwLong t) (hlab : ∀ t ∈ g.tiers, StrippedLabels t)
    (hcr : ∀ t ∈ g.tiers, NoCRLF t) :
    Rd.parseLong (writeLong tightLayout num g lo hi).toArray = .ok (rawOf num g lo hi) :=
  parseLong_layout tightLayout (by decide) num hnum g lo hi hkw hlab hcr

-- the four spacings of the class row
#guard ["class = ", "class=", "class =", "class= "].all fun c =>
  rawEq (Rd.parseLong (Txt.ofString (clsBadText.replace "class=" c))) ⟨"0", "2", [⟨"IntervalTier", "a", "0", "2", [["0", "1", "x y"]]⟩]⟩
-- a point tier whose name and mark spell the class row is still a point tier
#guard rawEq (Rd.parseLong (writeLong tightLayout numN ⟨[.P ⟨"class= \"IntervalTier\"", [⟨1, "class=\"IntervalTier\""⟩], 0, 2⟩], none, none⟩ 0 2).toArray)
  (rawOf numN ⟨[.P ⟨"class= \"IntervalTier\"", [⟨1, "class=\"IntervalTier\""⟩], 0, 2⟩], none, none⟩ 0 2)

-- outside the family (more than one blank), replayed on the real reader with the same results: two blanks before `[` make
-- the reader drop ALL tiers silently; two blanks around `=` raise ParsingError
#guard rawEq (Rd.parseLong (Txt.ofString ((tgToLong numN clsTg 0 2).replace "item [1]" "item  [1]"))) ⟨"0", "2", []⟩
#guard (match Rd.parseLong (Txt.ofString ((tgToLong numN clsTg 0 2).replace "xmax = 1" "xmax  =  1")) with
  | .error .ParsingError => true
  | _ => false)

/-! ## what the data hypotheses exclude, replayed and proved (hypothesis audit)

`parseLong_layout` and `long_short_equal` carried hypotheses on the numerals (`LongNum`: no sign), on names (single-line; for the
short format strip-invariant) and on labels.  C03 quantifies over files written "from arbitrary tier data"; each excluded case was
replayed on praatio, agreed with the model — and was a genuine defect of one of the two readers.  All three are repaired in /repo
and the hypotheses are gone or weakened; the former counter-example theorems are regression theorems:

* a SIGNED numeral (A30, fixed 818cdcd) — the sign is captured with the numeral on every numeric row (`numAfter_gen`,
  `numAfter_signed_gen`; a concrete file: `neg_zero_start_sample`); a point at `-1` is read as `-1` from the long and from the
  short file (`long_short_negative_regression`).  Before: matched but dropped on start rows, `ParsingError` on `xmax` rows;
* a tier NAME with surrounding blanks (A31, fixed 5bcdbd7): kept by both readers (`long_short_name_blank_regression`).  Before:
  stripped by the short-format reader;
* a multi-line tier NAME (A32, fixed 2c24cb2): read by both readers (`long_short_name_newline_regression`).  Before:
  `ParsingError` in the long-format one.  What the intermediate hypothesis `NameRowFree` still excluded — a name LINE that reads like
  the tier's span row — was defect A33 (fixed c86c7a5: the span rows are searched behind the name): `long_short_name_row_regression`.
-/

/-- **a signed numeral on ANY numeric row** (`xmin`, `xmax` of a tier or an interval, `number` of a point — pattern
`… ?= ?(-?[\d.]+(?:[eE][-+]?\d+)?)\s*$` since fix A30), any layout: the sign is captured with the numeral — `-0` is read as
`-0`, `-1.5` as `-1.5`.  (Before the fix the start rows matched the sign without capturing it and the `xmax` rows did not match
a signed numeral at all.) -/
theorem numAfter_signed_gen (L : Layout) (w tr rest : List Char) (h : UNum w) (htr : Blank tr) :
    numAfter true (eqS L ++ ('-' :: (w ++ (tr ++ '\n' :: rest)))) = some ('-' :: w) :=
  numAfter_gen L ('-' :: w) tr rest (.neg w h) htr

/-- a renderer that writes the time 0 as `-0` (Praat is reported to; C03's quantifier: "'-0' starts") -/
def zeroS (x : Nat) : String := if x = 0 then "-0" else toString x

/-- an interval tier and a point tier starting at 0, first interval / point at 0 -/
def zeroTg : Tg Nat := ⟨[.I ⟨"a", [⟨0, 1, "y"⟩], 0, 2⟩, .P ⟨"p", [⟨0, "y"⟩], 0, 2⟩], none, none⟩

#guard ((tgToLong zeroS zeroTg 0 2).splitOn "-0").length == 6

/-- **`-0` starts, a whole file**: `xmin = -0` in the header, in both tiers, in the first interval, and `number = -0` are
read as written (`-0`: the tier spans become `int("-0") = 0`, the entries' starts `float("-0") = -0.0 == 0`, exactly what the
short-format reader makes of the same numerals) -/
theorem neg_zero_start_sample :
    rawEq (Rd.parseLong (Txt.ofString (tgToLong zeroS zeroTg 0 2)))
      ⟨"-0", "2", [⟨"IntervalTier", "a", "-0", "2", [["-0", "1", "y"]]⟩, ⟨"TextTier", "p", "-0", "2", [["-0", "y"]]⟩]⟩ = true := by
  have hfile : Txt.ofString (tgToLong zeroS zeroTg 0 2) = (fileLong zeroS zeroTg 0 2).toArray := by
    unfold Txt.ofString; rw [emitLong_toList]
  rw [hfile, parseLong_eq, List.toList_toArray]
  decide +kernel

/-- signed decimal integers -/
def intS (x : Int) : String := toString x

theorem intS_word : ∀ x, NumWord (intS x) := by
  have hd : ∀ n : Nat, ∀ c ∈ (toString n).toList, c.isDigit = true := fun n c hc =>
    Nat.isDigit_of_mem_toDigits (by decide) (by decide) (count_toList n ▸ hc)
  have key : ∀ w : String, w.toList ≠ [] → (∀ c ∈ w.toList, c.isDigit = true ∨ c = '-') → NumWord w := by
    intro w hne hc
    have hns : ∀ c ∈ w.toList, pyIsSpace c = false := fun c hm => by
      rcases hc c hm with h | rfl
      · exact C01.digit_not_space c h
      · decide
    have hnq : q ∉ w.toList := fun hm => by
      rcases hc q hm with h | h
      · exact absurd h (by decide)
      · exact absurd h (by decide)
    refine ⟨hne, fun hm => ?_, noEdge_of_all _ hns, segOK_of_no_quote _ hnq, fun ⟨h1, _⟩ => hnq (List.mem_of_head? h1)⟩
    rcases hc '\n' hm with h | h
    · exact absurd h (by decide)
    · exact absurd h (by decide)
  intro x
  cases x with
  | ofNat n =>
    apply key
    · show (toString n).toList ≠ []
      rw [count_toList]; exact Nat.toDigits_ne_nil
    · intro c hc; exact Or.inl (hd n c hc)
  | negSucc n =>
    have e : (intS (Int.negSucc n)).toList = '-' :: (toString (n + 1)).toList := by
      show ("-" ++ Nat.repr (n + 1)).toList = _
      rw [String.toList_append]; rfl
    apply key
    · rw [e]; simp
    · intro c hc
      rw [e] at hc
      rcases List.mem_cons.1 hc with rfl | hc
      · exact Or.inr rfl
      · exact Or.inl (hd (n + 1) c hc)

/-- one point tier on [-3, 2] with a point at -1 -/
def negTg : Tg Int := ⟨[.P ⟨"p", [⟨-1, "y"⟩], -3, 2⟩], none, none⟩

theorem negTg_hyps : negTg.tiers ≠ [] ∧ (∀ t ∈ negTg.tiers, NoKw t) ∧ (∀ t ∈ negTg.tiers, Stripped' t) ∧
    (∀ t ∈ negTg.tiers, NoCRLF t) := by
  refine ⟨by simp [negTg], ?_, ?_, ?_⟩ <;> intro t ht <;>
    simp only [negTg, List.mem_cons, List.not_mem_nil, or_false] at ht <;> subst ht <;> intro s hs <;>
    simp only [texts, List.map_cons, List.map_nil, List.mem_cons, List.not_mem_nil, or_false] at hs
  · rcases hs with rfl | rfl <;> exact segOK_of_occs _ (by decide) (by decide)
  · rcases hs with rfl | rfl <;> rw [pyStrip_eq_iff] <;> exact noEdge_of_stripList _ (by decide)
  · rcases hs with rfl | rfl <;> decide

theorem intS_long : ∀ x, LongNum (intS x).toList := by
  have hd : ∀ n : Nat, UNum (toString n).toList := fun n => by
    apply UNum.plain
    · rw [count_toList]; exact Nat.toDigits_ne_nil
    · intro c hc
      rw [count_toList] at hc
      simp [isDigitDot, Nat.isDigit_of_mem_toDigits (by decide) (by decide) hc]
  intro x
  cases x with
  | ofNat n => exact .pos _ (hd n)
  | negSucc n =>
    have e : (intS (Int.negSucc n)).toList = '-' :: (toString (n + 1)).toList := by
      show ("-" ++ Nat.repr (n + 1)).toList = _
      rw [String.toList_append]; rfl
    rw [e]
    exact .neg _ (hd (n + 1))

theorem negTg_long_hyps : (∀ t ∈ negTg.tiers, NoKwLong t) ∧ (∀ t ∈ negTg.tiers, StrippedLabels t) := by
  refine ⟨?_, ?_⟩ <;> intro t ht <;> simp only [negTg, List.mem_cons, List.not_mem_nil, or_false] at ht <;> subst ht
  · apply noKwLong_of_no_bracket
    intro s hs
    simp only [texts, List.map_cons, List.map_nil, List.mem_cons, List.not_mem_nil, or_false] at hs
    rcases hs with rfl | rfl <;> decide
  · intro s hs
    simp only [labelsOf, List.map_cons, List.map_nil, List.mem_cons, List.not_mem_nil, or_false] at hs
    subst hs
    rw [pyStrip_eq_iff]; exact noEdge_of_stripList _ (by decide)

/-- **NEGATIVE times, regression for A30 (fixed, 818cdcd)** (Praat writes negative times for a TextGrid whose time domain
starts before 0).  The point tier `p` on [-3, 2] with one point at -1, written by praatio's own emitters: the short file AND
the long file are read back exactly (point at `-1`, tier from `-3`), so long and short encodings of the same data open to equal
textgrids.  Before the fix the long file was read WITHOUT ANY ERROR as a tier from `3` to `2` with its point at `1` (the sign
was matched outside the captured group), an interval `(-2, 1, 'x')` came back as `(2, 1)` (TextgridStateError) and an interval
`(-2, -1, 'x')` raised ParsingError (`xmax = -1` matched nothing). -/
theorem long_short_negative_regression :
    Rd.parseShort (Txt.ofString (tgToShort intS negTg (-3) 2)) = .ok (rawOf intS negTg (-3) 2) ∧
    Rd.parseLong (Txt.ofString (tgToLong intS negTg (-3) 2)) = .ok (rawOf intS negTg (-3) 2) ∧
    Rd.parseLong (Txt.ofString (tgToLong intS negTg (-3) 2)) = Rd.parseShort (Txt.ofString (tgToShort intS negTg (-3) 2)) := by
  have hS := parseShort_emit intS intS_word negTg (-3) 2 negTg_hyps.1 negTg_hyps.2.1 negTg_long_hyps.2 negTg_hyps.2.2.2
  have hL := parseLong_emit intS intS_long negTg (-3) 2 negTg_long_hyps.1 negTg_long_hyps.2
    negTg_hyps.2.2.2
  exact ⟨hS, hL, by rw [hS, hL]⟩

/-- **a tier NAME with surrounding blanks, regression for A31 (fixed, 5bcdbd7): long and short encodings open to EQUAL
textgrids**.  The tier named `" a "` (a legal in-memory object — no constructor strips names — and a conformant file:
`name = " a "`): both readers return the name as written.  Before the fix the short-format reader stripped it:
`IntervalTier(" a ", [(0, 1, "x")], 0, 2)` saved and reopened gave `tierNames == (" a ",)` for "long_textgrid", "json",
"textgrid_json" and `("a",)` for "short_textgrid". -/
theorem long_short_name_blank_regression :
    Rd.parseLong (Txt.ofString (tgToLong numN blankNameTg 0 2)) = .ok (rawOf numN blankNameTg 0 2) ∧
    Rd.parseShort (Txt.ofString (tgToShort numN blankNameTg 0 2)) = .ok (rawOf numN blankNameTg 0 2) ∧
    Rd.parseLong (Txt.ofString (tgToLong numN blankNameTg 0 2)) = Rd.parseShort (Txt.ofString (tgToShort numN blankNameTg 0 2)) := by
  have hL : Rd.parseLong (Txt.ofString (tgToLong numN blankNameTg 0 2)) = .ok (rawOf numN blankNameTg 0 2) := by
    apply parseLong_emit numN numN_long blankNameTg 0 2
    · intro t ht
      apply noKwLong_of_no_bracket
      simp only [blankNameTg, List.mem_cons, List.not_mem_nil, or_false] at ht
      subst ht
      intro s hs
      simp only [texts, List.map_cons, List.map_nil, List.mem_cons, List.not_mem_nil, or_false] at hs
      rcases hs with rfl | rfl <;> decide
    · intro t ht s hs
      simp only [blankNameTg, List.mem_cons, List.not_mem_nil, or_false] at ht
      subst ht
      simp only [labelsOf, List.map_cons, List.map_nil, List.mem_cons, List.not_mem_nil, or_false] at hs
      subst hs
      rw [pyStrip_eq_iff]; exact noEdge_of_stripList _ (by decide)
    · exact blankName_hyps.2.2
  exact ⟨hL, parseShort_name_blank_regression.2, by rw [hL, parseShort_name_blank_regression.2]⟩

/-- one point tier named `a⏎b`, no points -/
def nlNameTg : Tg Nat := ⟨[.P ⟨"a\nb", [], 0, 1⟩], some 0, some 1⟩

theorem nlNameTg_short : Rd.parseShort (Txt.ofString (tgToShort numN nlNameTg 0 1)) = .ok (rawOf numN nlNameTg 0 1) := by
  apply parseShort_emit numN numN_word nlNameTg 0 1 (by simp [nlNameTg]) <;> intro t ht <;>
    simp only [nlNameTg, List.mem_cons, List.not_mem_nil, or_false] at ht <;> subst ht <;> intro s hs
  · simp only [texts, List.map_nil, List.mem_cons, List.not_mem_nil, or_false] at hs; subst hs
    exact segOK_of_occs _ (by decide) (by decide)
  · simp [labelsOf] at hs
  · simp only [texts, List.map_nil, List.mem_cons, List.not_mem_nil, or_false] at hs; subst hs
    decide

/-- **a multi-line tier NAME, regression for A32 (fixed, 2c24cb2): read from the short file AND from the long file**, to equal
textgrids.  Before the fix the long-format pattern `name ?= ?"(.*)"\s*$` had no DOTALL: `IntervalTier("a\nb", …)` saved as
"short_textgrid", "json", "textgrid_json" was reopened unchanged; as "long_textgrid": `ParsingError: Expected field in Textgrid
missing.` -/
theorem long_short_name_newline_regression :
    Rd.parseShort (Txt.ofString (tgToShort numN nlNameTg 0 1)) = .ok (rawOf numN nlNameTg 0 1) ∧
    Rd.parseLong (Txt.ofString (tgToLong numN nlNameTg 0 1)) = .ok (rawOf numN nlNameTg 0 1) ∧
    Rd.parseLong (Txt.ofString (tgToLong numN nlNameTg 0 1)) = Rd.parseShort (Txt.ofString (tgToShort numN nlNameTg 0 1)) := by
  have hL : Rd.parseLong (Txt.ofString (tgToLong numN nlNameTg 0 1)) = .ok (rawOf numN nlNameTg 0 1) :=
    C01.parseLong_name_newline_regression
  exact ⟨nlNameTg_short, hL, by rw [hL, nlNameTg_short]⟩

/-- **a multi-line name with a line that reads like the tier's `xmin` row, regression for A33 (fixed, c86c7a5)**: the short file
AND the long file are read back exactly, to equal textgrids (`long_short_equal` has no hypothesis on names beyond the A10
keywords).  Before the fix the long-format reader took the name's line `xmin = 1` for the tier's span row, silently. -/
theorem long_short_name_row_regression :
    Rd.parseShort (Txt.ofString (tgToShort numN C01.rowNameTg 0 2)) = .ok (rawOf numN C01.rowNameTg 0 2) ∧
    Rd.parseLong (Txt.ofString (tgToLong numN C01.rowNameTg 0 2)) = .ok (rawOf numN C01.rowNameTg 0 2) ∧
    Rd.parseLong (Txt.ofString (tgToLong numN C01.rowNameTg 0 2)) = Rd.parseShort (Txt.ofString (tgToShort numN C01.rowNameTg 0 2)) := by
  have hS : Rd.parseShort (Txt.ofString (tgToShort numN C01.rowNameTg 0 2)) = .ok (rawOf numN C01.rowNameTg 0 2) := by
    apply parseShort_emit numN numN_word C01.rowNameTg 0 2 (by simp [C01.rowNameTg]) <;> intro t ht <;>
      simp only [C01.rowNameTg, List.mem_cons, List.not_mem_nil, or_false] at ht <;> subst ht <;> intro s hs
    · simp only [texts, List.map_nil, List.mem_cons, List.not_mem_nil, or_false] at hs; subst hs
      exact segOK_of_occs _ (by decide) (by decide)
    · simp [labelsOf] at hs
    · simp only [texts, List.map_nil, List.mem_cons, List.not_mem_nil, or_false] at hs; subst hs
      decide
  have hL := C01.parseLong_name_row_regression.1
  exact ⟨hS, hL, by rw [hL, hS]⟩

end C03
