import PraatModel.Klatt
import PraatModel.Lemmas.Strip
import PraatModel.Lemmas.KlattStr
namespace C19
open Klatt

/-! # C19 — `_cleanNumericValues` (`cleanRow` / `cleanNumeric`): what the row normaliser does -/

namespace Clean

/-! ## general-purpose helpers (candidates for `Lemmas/KlattStr.lean`) -/

theorem rstrip_idem (x : Txt) : rstrip (rstrip x) = rstrip x := by
  unfold rstrip
  rw [List.reverse_reverse, stripL_idem]

theorem not_mem_allSpace (c : Char) (hc : pyIsSpace c = false) (w : Txt) (h : AllSpace w) : c ∉ w := by
  intro hm
  rw [h c hm] at hc
  cases hc

theorem allSpace_nil : AllSpace [] := by intro c hc; simp at hc

theorem allSpace_blank : AllSpace [' '] := by
  intro c hc
  simp at hc
  subst hc
  decide

theorem allSpace_of_all (w : Txt) (h : w.all pyIsSpace = true) : AllSpace w := by
  intro c hc
  exact List.all_eq_true.1 h c hc

theorem pySplit_no (c : Char) (a : Txt) (h : c ∉ a) : pySplit c a = [a] := by
  unfold pySplit
  simpa using splitCharAux_no c a.length a [] h

theorem pySplit_two (c : Char) (a b : Txt) (ha : c ∉ a) (hb : c ∉ b) : pySplit c (a ++ c :: b) = [a, b] := by
  unfold pySplit
  have : (a ++ c :: b).length = (a.length + b.length) + 1 := by simp; omega
  rw [this, splitCharAux_hit c _ a b [] ha, splitCharAux_no c _ b [] hb]
  simp

/-- `stripL` stops at the first non-blank -/
theorem stripL_append_nonspace (a b : Txt) (c : Char) (hc : pyIsSpace c = false) :
    stripL (a ++ c :: b) = stripL a ++ c :: b := by
  induction a with
  | nil => simp [stripL, hc]
  | cons x xs ih =>
    by_cases hx : pyIsSpace x
    · simp only [List.cons_append, stripL, hx, if_true]; exact ih
    · simp [stripL, hx]

/-- `rstrip` only touches what follows the last non-blank -/
theorem rstrip_append_nonspace (x y : Txt) (c : Char) (hc : pyIsSpace c = false) :
    rstrip (x ++ c :: y) = x ++ c :: rstrip y := by
  unfold rstrip
  have : (x ++ c :: y).reverse = y.reverse ++ c :: x.reverse := by simp
  rw [this, stripL_append_nonspace _ _ _ hc]
  simp

/-- the blanks `stripL` removes -/
theorem stripL_decomp (x : Txt) : ∃ w, AllSpace w ∧ x = w ++ stripL x := by
  induction x with
  | nil => exact ⟨[], allSpace_nil, rfl⟩
  | cons a as ih =>
    by_cases ha : pyIsSpace a
    · obtain ⟨w, hw, e⟩ := ih
      refine ⟨a :: w, ?_, ?_⟩
      · intro c hc
        rcases List.mem_cons.1 hc with rfl | hc
        · exact ha
        · exact hw c hc
      · simp only [stripL, ha, if_true, List.cons_append]
        rw [← e]
    · exact ⟨[], allSpace_nil, by simp [stripL, ha]⟩

/-- every text is `blanks ++ strip(text) ++ blanks` -/
theorem strip_decomp (x : Txt) : ∃ w1 w2, AllSpace w1 ∧ AllSpace w2 ∧ x = w1 ++ stripList x ++ w2 := by
  obtain ⟨w1, hw1, e1⟩ := stripL_decomp x
  obtain ⟨w2, hw2, e2⟩ := stripL_decomp (stripL x).reverse
  refine ⟨w1, w2.reverse, hw1, ?_, ?_⟩
  · intro c hc; exact hw2 c (by simpa using hc)
  · have e3 : stripL x = stripList x ++ w2.reverse := by
      have := congrArg List.reverse e2
      simpa [stripList] using this
    rw [List.append_assoc, ← e3]
    exact e1

theorem rstrip_allSpace (w : Txt) (h : AllSpace w) : rstrip w = [] := by
  have := rstrip_allSpace_append [] w h
  simpa [rstrip_nil] using this

theorem stripList_rstrip (x : Txt) : stripList (rstrip x) = stripList x := by
  obtain ⟨w1, w2, hw1, hw2, e⟩ := strip_decomp x
  have hc : stripList (stripList x) = stripList x := stripList_idem x
  generalize stripList x = core at e hc
  subst e
  rw [rstrip_allSpace_append _ _ hw2]
  by_cases hne : core = []
  · subst hne
    rw [List.append_nil, rstrip_allSpace _ hw1]
    rfl
  · rw [rstrip_append_stripped _ _ hc hne]
    have := stripList_pad w1 core [] hw1 allSpace_nil hc
    simpa using this

theorem splitCharAux_ne_nil (c : Char) (s : Txt) : ∀ (n : Nat) (cur : Txt), splitCharAux c n s cur ≠ [] := by
  induction s with
  | nil => intro n cur; cases n <;> simp [splitCharAux]
  | cons y ys ih =>
    intro n cur
    cases n with
    | zero => simp [splitCharAux]
    | succ n =>
      simp only [splitCharAux]
      split
      · simp
      · exact ih _ _

theorem pySplit_ne_nil (c : Char) (s : Txt) : pySplit c s ≠ [] := splitCharAux_ne_nil c s _ _

/-- the characters of the parts come from the text (or the pending part) -/
theorem splitCharAux_mem (c : Char) (s : Txt) : ∀ (n : Nat) (cur : Txt),
    ∀ p ∈ splitCharAux c n s cur, ∀ x ∈ p, x ∈ cur ∨ x ∈ s := by
  induction s with
  | nil =>
    intro n cur p hp x hx
    have : p = cur.reverse := by cases n <;> simpa [splitCharAux] using hp
    subst this
    left; simpa using hx
  | cons y ys ih =>
    intro n cur p hp x hx
    cases n with
    | zero =>
      have : p = cur.reverse ++ y :: ys := by simpa [splitCharAux] using hp
      subst this
      rcases List.mem_append.1 hx with h | h
      · left; simpa using h
      · right; exact h
    | succ n =>
      simp only [splitCharAux] at hp
      split at hp
      · rcases List.mem_cons.1 hp with rfl | hp
        · left; simpa using hx
        · rcases ih n [] p hp x hx with h | h
          · simp at h
          · right; exact List.mem_cons_of_mem _ h
      · rcases ih (n + 1) (y :: cur) p hp x hx with h | h
        · rcases List.mem_cons.1 h with rfl | h
          · right; simp
          · left; exact h
        · right; exact List.mem_cons_of_mem _ h

theorem pySplit_mem (c : Char) (s : Txt) : ∀ p ∈ pySplit c s, ∀ x ∈ p, x ∈ s := by
  intro p hp x hx
  rcases splitCharAux_mem c s _ [] p hp x hx with h | h
  · simp at h
  · exact h

/-- with enough budget no part contains the separator -/
theorem splitCharAux_free (c : Char) (s : Txt) : ∀ (n : Nat) (cur : Txt), s.length ≤ n → c ∉ cur →
    ∀ p ∈ splitCharAux c n s cur, c ∉ p := by
  induction s with
  | nil =>
    intro n cur _ hcur p hp
    have : p = cur.reverse := by cases n <;> simpa [splitCharAux] using hp
    subst this
    simpa using hcur
  | cons y ys ih =>
    intro n cur hn hcur p hp
    cases n with
    | zero => simp at hn
    | succ n =>
      simp only [splitCharAux] at hp
      split at hp
      · rcases List.mem_cons.1 hp with rfl | hp
        · simpa using hcur
        · exact ih n [] (by simp at hn; omega) (by simp) p hp
      · rename_i hy
        refine ih (n + 1) (y :: cur) (by simp at hn; omega) ?_ p hp
        intro hm
        rcases List.mem_cons.1 hm with rfl | hm
        · exact hy rfl
        · exact hcur hm

theorem pySplit_free (c : Char) (s : Txt) : ∀ p ∈ pySplit c s, c ∉ p :=
  splitCharAux_free c s _ [] (Nat.le_refl _) (by simp)

/-! ## `cleanRow` once the `rstrip`ped row is known to be `a = b` -/

theorem cleanRow_core (row a b : Txt) (hrow : rstrip row = a ++ '=' :: b) (ha : '=' ∉ a) (hb : '=' ∉ b)
    (hmin : contains (t "min") (a ++ '=' :: b) = false) (hmax : contains (t "max") (a ++ '=' :: b) = false) :
    cleanRow row =
      if isIntLit (stripList b) then rstrip (rstrip a ++ t " = " ++ stripList b)
      else
        match fclass (stripList b) with
        | none => rstrip (a ++ '=' :: b)
        | some .zero => rstrip (rstrip a ++ t " = " ++ zeroForm (stripList b))
        | some _ => rstrip (rstrip a ++ t " = " ++ stripList b) := by
  unfold cleanRow
  simp only [hrow, hmin, hmax, pySplit_two '=' a b ha hb]
  rw [if_neg (by simp)]
  split
  · rfl
  · cases hf : fclass (stripList b) with
    | none => rfl
    | some c => cases c <;> rfl

theorem eq_not_space : pyIsSpace '=' = false := by decide

/-- the shape of the `rstrip`ped padded row -/
theorem rstrip_padded (head w1 w2 n w3 : Txt) (hw3 : AllSpace w3) (hn : stripList n = n) (hne : n ≠ []) :
    rstrip (head ++ w1 ++ '=' :: (w2 ++ n ++ w3)) = (head ++ w1) ++ '=' :: (w2 ++ n) := by
  have e : head ++ w1 ++ '=' :: (w2 ++ n ++ w3) = ((head ++ w1 ++ '=' :: w2) ++ n) ++ w3 := by simp
  rw [e, rstrip_allSpace_append _ _ hw3, rstrip_append_stripped _ _ hn hne]
  simp

theorem t_eq : t " = " = [' ', '=', ' '] := by decide
theorem t_eq0 : t " = 0" = [' ', '=', ' ', '0'] := by decide

theorem zeroForm_cases (tail : Txt) : zeroForm tail = t "0" ∨ zeroForm tail = t "-0" := by
  unfold zeroForm; split
  · exact Or.inr rfl
  · exact Or.inl rfl

/-- characters of a rewritten row -/
theorem mem_fmt (head tail r : Txt) (hh : ∀ x ∈ head, x ∈ r) (ht : ∀ x ∈ tail, x ∈ r) (x : Char)
    (hx : x ∈ rstrip (rstrip head ++ t " = " ++ stripList tail)) : x ∈ r ∨ x = ' ' ∨ x = '=' ∨ x = '0' ∨ x = '-' := by
  have hx := rstrip_subset _ x hx
  rcases List.mem_append.1 hx with h | h
  · rcases List.mem_append.1 h with h | h
    · left; exact hh x (rstrip_subset _ x h)
    · rw [t_eq] at h
      simp at h
      rcases h with h | h | h
      · right; left; exact h
      · right; right; left; exact h
      · right; left; exact h
  · left; exact ht x (stripList_subset _ x h)

theorem mem_fmt0 (head tail r : Txt) (hh : ∀ x ∈ head, x ∈ r) (x : Char)
    (hx : x ∈ rstrip (rstrip head ++ t " = " ++ zeroForm tail)) : x ∈ r ∨ x = ' ' ∨ x = '=' ∨ x = '0' ∨ x = '-' := by
  have hx := rstrip_subset _ x hx
  rcases List.mem_append.1 hx with h | h
  · rcases List.mem_append.1 h with h | h
    · left; exact hh x (rstrip_subset _ x h)
    · rw [t_eq] at h
      simp at h
      rcases h with h | h | h
      · right; left; exact h
      · right; right; left; exact h
      · right; left; exact h
  · rcases zeroForm_cases tail with e | e <;> rw [e] at h
    · have : x = '0' := by simpa [t] using h
      right; right; right; left; exact this
    · have : x = '-' ∨ x = '0' := by simpa [t] using h
      rcases this with h | h
      · right; right; right; right; exact h
      · right; right; right; left; exact h

/-- every character of a cleaned row comes from the row or is one of `' '`, `'='`, `'0'`, `'-'` -/
theorem cleanRow_mem (r : Txt) : ∀ x ∈ cleanRow r, x ∈ r ∨ x = ' ' ∨ x = '=' ∨ x = '0' ∨ x = '-' := by
  intro x hx
  have hrr : ∀ y ∈ rstrip (rstrip r), y ∈ r := fun y hy => rstrip_subset _ y (rstrip_subset _ y hy)
  unfold cleanRow at hx
  simp only at hx
  split at hx
  · left; exact hrr x hx
  · split at hx
    · rename_i head tail hs
      have hh : ∀ y ∈ head, y ∈ r := fun y hy =>
        rstrip_subset _ y (pySplit_mem '=' _ head (by rw [hs]; simp) y hy)
      have ht : ∀ y ∈ tail, y ∈ r := fun y hy =>
        rstrip_subset _ y (pySplit_mem '=' _ tail (by rw [hs]; simp) y hy)
      split at hx
      · exact mem_fmt head tail r hh ht x hx
      · split at hx
        · left; exact hrr x hx
        · exact mem_fmt0 head _ r hh x hx
        · exact mem_fmt head tail r hh ht x hx
    · left; exact hrr x hx

theorem cleanRow_nl_free (r : Txt) (h : '\n' ∉ r) : '\n' ∉ cleanRow r := by
  intro hm
  rcases cleanRow_mem r _ hm with h1 | h1 | h1 | h1 | h1
  · exact h h1
  · revert h1; decide
  · revert h1; decide
  · revert h1; decide
  · revert h1; decide

theorem t_eq_blank (head n : Txt) : head ++ t " = " ++ n = head ++ [' '] ++ '=' :: ([' '] ++ n ++ []) := by
  rw [t_eq]; simp

end Clean

open Clean

/-! ## main theorems -/

/-- a row `head <blanks> = <blanks> n <blanks>` whose tail is integer-looking or a non-zero float literal
is rewritten to the normal form `head = n`.  (The hypotheses of this and the next five theorems spell out
the shape of the row — the decomposition `head`, blanks, `=`, blanks, `n`, blanks is unique: `head` ends in a
non-blank and has no `=`, `n` is stripped and has no `=` (for a float literal a consequence, `Lit.not_mem`) —
and which case of `_cleanNumericValues` applies; together with `cleanRow_minmax`, `cleanRow_no_eq` and
`cleanRow_not_number` the cases cover every row with at most one `=`.) -/
theorem cleanRow_spacing (head w1 w2 n w3 : Txt)
    (hh : rstrip head = head) (hhe : '=' ∉ head) (hw1 : AllSpace w1) (hw2 : AllSpace w2) (hw3 : AllSpace w3)
    (hn : stripList n = n) (hne : '=' ∉ n)
    (hnum : isIntLit n = true ∨ ∃ c, fclass n = some c ∧ c ≠ FClass.zero)
    (hmin : contains (t "min") (head ++ w1 ++ '=' :: (w2 ++ n)) = false)
    (hmax : contains (t "max") (head ++ w1 ++ '=' :: (w2 ++ n)) = false) :
    cleanRow (head ++ w1 ++ '=' :: (w2 ++ n ++ w3)) = head ++ t " = " ++ n := by
  have hnn : n ≠ [] := by
    intro e; subst e
    rcases hnum with h | ⟨c, h, _⟩
    · revert h; decide
    · rw [show fclass ([] : Txt) = none from by decide] at h; cases h
  have ha : '=' ∉ head ++ w1 := by
    simp [hhe, not_mem_allSpace '=' eq_not_space w1 hw1]
  have hb : '=' ∉ w2 ++ n := by
    simp [hne, not_mem_allSpace '=' eq_not_space w2 hw2]
  rw [cleanRow_core _ _ _ (rstrip_padded head w1 w2 n w3 hw3 hn hnn) ha hb hmin hmax]
  have hs : stripList (w2 ++ n) = n := by
    have := stripList_pad w2 n [] hw2 allSpace_nil hn
    simpa using this
  rw [hs, rstrip_allSpace_append _ _ hw1, hh, rstrip_append_stripped _ _ hn hnn]
  by_cases hi : isIntLit n = true
  · simp [hi]
  · rcases hnum with h | ⟨c, hc, hcz⟩
    · exact absurd h hi
    · simp only [hi, hc]
      cases c <;> simp at hcz ⊢

/-- a row already in normal form `head = numeral` (integer-looking, or a non-zero float literal) is unchanged -/
theorem cleanRow_unchanged (head n : Txt)
    (hh : rstrip head = head) (hhe : '=' ∉ head) (hn : stripList n = n) (hne : '=' ∉ n)
    (hnum : isIntLit n = true ∨ ∃ c, fclass n = some c ∧ c ≠ FClass.zero)
    (hmin : contains (t "min") (head ++ t " = " ++ n) = false)
    (hmax : contains (t "max") (head ++ t " = " ++ n) = false) :
    cleanRow (head ++ t " = " ++ n) = head ++ t " = " ++ n := by
  have e : head ++ t " = " ++ n = head ++ [' '] ++ '=' :: ([' '] ++ n) := by rw [t_eq]; simp
  have := cleanRow_spacing head [' '] [' '] n [] hh hhe allSpace_blank allSpace_blank allSpace_nil hn hne hnum
    (by rw [← e]; exact hmin) (by rw [← e]; exact hmax)
  exact (congrArg cleanRow (t_eq_blank head n)).trans this

/-- a zero float literal that is not integer-looking is rewritten to `0` — or to `-0` when it starts with a
minus sign, so that the sign of a negative zero survives (`zeroForm`) -/
theorem cleanRow_zero (head w1 w2 n w3 : Txt)
    (hh : rstrip head = head) (hhe : '=' ∉ head) (hw1 : AllSpace w1) (hw2 : AllSpace w2) (hw3 : AllSpace w3)
    (hn : stripList n = n) (hne : '=' ∉ n)
    (hz : fclass n = some FClass.zero) (hi : isIntLit n = false)
    (hmin : contains (t "min") (head ++ w1 ++ '=' :: (w2 ++ n)) = false)
    (hmax : contains (t "max") (head ++ w1 ++ '=' :: (w2 ++ n)) = false) :
    cleanRow (head ++ w1 ++ '=' :: (w2 ++ n ++ w3)) = head ++ t " = " ++ zeroForm n := by
  have hnn : n ≠ [] := by
    intro e; subst e
    revert hz; decide
  have ha : '=' ∉ head ++ w1 := by
    simp [hhe, not_mem_allSpace '=' eq_not_space w1 hw1]
  have hb : '=' ∉ w2 ++ n := by
    simp [hne, not_mem_allSpace '=' eq_not_space w2 hw2]
  rw [cleanRow_core _ _ _ (rstrip_padded head w1 w2 n w3 hw3 hn hnn) ha hb hmin hmax]
  have hs : stripList (w2 ++ n) = n := by
    have := stripList_pad w2 n [] hw2 allSpace_nil hn
    simpa using this
  rw [hs, rstrip_allSpace_append _ _ hw1, hh]
  simp only [hi, hz]
  simp only [Bool.false_eq_true, if_false]
  rcases zeroForm_cases n with e | e <;> rw [e]
  · exact rstrip_append_stripped _ (t "0") (by decide) (by decide)
  · exact rstrip_append_stripped _ (t "-0") (by decide) (by decide)

/-- rows mentioning `min` / `max` are left alone apart from trailing blanks -/
theorem cleanRow_minmax (row : Txt)
    (h : contains (t "min") (rstrip row) = true ∨ contains (t "max") (rstrip row) = true) :
    cleanRow row = rstrip row := by
  unfold cleanRow
  simp only [if_pos h, rstrip_idem]

/-- rows without `=` are left alone apart from trailing blanks -/
theorem cleanRow_no_eq (row : Txt) (h : '=' ∉ row) : cleanRow row = rstrip row := by
  have h' : '=' ∉ rstrip row := fun hm => h (rstrip_subset _ _ hm)
  unfold cleanRow
  simp only [pySplit_no '=' _ h', rstrip_idem]
  simp

/-- a row `head = tail` whose tail is neither `int()`- nor `float()`-readable is left alone apart from trailing blanks -/
theorem cleanRow_not_number (head tail : Txt) (hh : '=' ∉ head) (ht : '=' ∉ tail)
    (hmin : contains (t "min") (rstrip (head ++ '=' :: tail)) = false)
    (hmax : contains (t "max") (rstrip (head ++ '=' :: tail)) = false)
    (hi : isIntLit (stripList tail) = false) (hf : fclass (stripList tail) = none) :
    cleanRow (head ++ '=' :: tail) = rstrip (head ++ '=' :: tail) := by
  have hr : rstrip (head ++ '=' :: tail) = head ++ '=' :: rstrip tail :=
    rstrip_append_nonspace head tail '=' eq_not_space
  have ht' : '=' ∉ rstrip tail := fun hm => ht (rstrip_subset _ _ hm)
  rw [hr] at hmin hmax
  rw [cleanRow_core _ _ _ hr hh ht' hmin hmax, stripList_rstrip, hi, hf]
  simp only [Bool.false_eq_true, if_false]
  rw [← hr, rstrip_idem]

/-- `_cleanNumericValues` works row by row: the rows of the result are the cleaned rows of the input -/
theorem cleanNumeric_rows (s : Txt) : pySplit '\n' (cleanNumeric s) = (pySplit '\n' s).map cleanRow := by
  unfold cleanNumeric
  apply pySplit_join
  · intro e
    exact pySplit_ne_nil '\n' s (List.map_eq_nil_iff.1 e)
  · intro p hp
    obtain ⟨r, hr, rfl⟩ := List.mem_map.1 hp
    exact cleanRow_nl_free r (pySplit_free '\n' s r hr)

theorem cleanNumeric_row_count (s : Txt) : (pySplit '\n' (cleanNumeric s)).length = (pySplit '\n' s).length := by
  rw [cleanNumeric_rows, List.length_map]

/-! ## non-vacuity -/

#guard cleanRow (t "formants: size=5") = t "formants: size = 5"
#guard cleanRow (t "    value = 0.0 ") = t "    value = 0"
#guard cleanRow (t "    value = -0.0") = t "    value = -0"
#guard cleanRow (t "xmin = 0.0 ") = t "xmin = 0.0"
#guard cleanRow (t "value = 1e-05") = t "value = 1e-05"
#guard cleanRow (t "value = 007") = t "value = 007"
#guard cleanRow (t "points [1]:   ") = t "points [1]:"
#guard cleanRow (t "name = abc  ") = t "name = abc"
#guard cleanNumeric (t "a=1 \nb = 0.00\nxmax = 0.0 \n") = t "a = 1\nb = 0\nxmax = 0.0\n"

example : cleanRow (t "    value = 1e+20") = t "    value = 1e+20" :=
  cleanRow_unchanged (t "    value") (t "1e+20") (by decide) (by decide) (by decide) (by decide)
    (Or.inr ⟨FClass.pos, by decide, by decide⟩) (by decide) (by decide)

-- the same with a negative exponent (`fclass` compares against `2 ^ 1075`, hence the raised limits)
set_option exponentiation.threshold 2000 in
set_option maxRecDepth 100000 in
example : cleanRow (t "    value = 1e-05") = t "    value = 1e-05" :=
  cleanRow_unchanged (t "    value") (t "1e-05") (by decide) (by decide) (by decide) (by decide)
    (Or.inr ⟨FClass.pos, by decide, by decide⟩) (by decide) (by decide)

-- an integer-looking tail is kept as written (leading zeros included)
example : cleanRow (t "    number = 007") = t "    number = 007" :=
  cleanRow_unchanged (t "    number") (t "007") (by decide) (by decide) (by decide) (by decide)
    (Or.inl (by decide)) (by decide) (by decide)

example : cleanRow (t "    value   =0.00  ") = t "    value = 0" :=
  cleanRow_zero (t "    value") (t "   ") [] (t "0.00") (t "  ") (by decide) (by decide)
    (allSpace_of_all _ (by decide)) allSpace_nil (allSpace_of_all _ (by decide)) (by decide) (by decide) (by decide) (by decide) (by decide) (by decide)

/-! ## numerals: what a `float()` literal can consist of

A *numeral* (`Lit`) is any string `float()` accepts and `strip()` leaves alone.  Every such string consists of
digits, `_`, `.`, `e`/`E`, signs and the letters of `inf` / `infinity` / `nan` (`fclass_chars`), so it contains
no newline, `=`, `<`, `?`, `:`, blank, and none of the letters `s`, `w`, `x`, `m`: every character condition the
round-trip proofs need of a numeral is a consequence (`Lit.not_mem`), not an extra hypothesis. -/

/-- a numeral: any string `float()` accepts and `strip()` leaves alone (every `repr()` of a float or int) -/
def Lit (n : Txt) : Prop := stripList n = n ∧ (fclass n).isSome

/-- the characters a `float()` literal can consist of (ASCII): digits, `_`, `.`, exponent marker, signs, and the
letters of `inf` / `infinity` / `nan` in either case -/
def numChar (c : Char) : Bool := isDigit c || "_.eE+-infatyINFATY".toList.contains c

theorem digitsGo_prefix (s : Txt) : ∀ (acc d r : Txt), digitsGo s acc = (d, r) →
    ∃ u, s = u ++ r ∧ ∀ c ∈ u, numChar c = true := by
  induction s with
  | nil => intro acc d r h; simp only [digitsGo, Prod.mk.injEq] at h; exact ⟨[], by simp [h.2], by simp⟩
  | cons c cs ih =>
    intro acc d r h
    have step : ∀ acc', digitsGo cs acc' = (d, r) → numChar c = true →
        ∃ u, c :: cs = u ++ r ∧ ∀ x ∈ u, numChar x = true := by
      intro acc' h' hc
      obtain ⟨u, hu, hall⟩ := ih _ _ _ h'
      refine ⟨c :: u, by rw [List.cons_append, ← hu], ?_⟩
      intro x hx
      rcases List.mem_cons.1 hx with rfl | hx
      · exact hc
      · exact hall x hx
    have stop : (acc.reverse, c :: cs) = (d, r) → ∃ u, c :: cs = u ++ r ∧ ∀ x ∈ u, numChar x = true := by
      intro h'
      simp only [Prod.mk.injEq] at h'
      exact ⟨[], by simp [h'.2], by simp⟩
    by_cases hc : isDigit c = true
    · simp only [digitsGo, hc, if_true] at h
      exact step _ h (by simp [numChar, hc])
    · cases cs with
      | nil =>
        simp only [digitsGo, hc, if_false, Bool.false_eq_true, Bool.and_false] at h
        exact stop h
      | cons d2 ds =>
        rw [digitsGo] at h
        simp only [hc, if_false, Bool.false_eq_true] at h
        split at h
        · rename_i hc2
          have : c = '_' := by simp only [Bool.and_eq_true, beq_iff_eq] at hc2; exact hc2.1.1
          exact step _ h (by subst this; decide)
        · exact stop h

theorem splitSign_chars (s : Txt) : ∃ u, s = u ++ (splitSign s).2 ∧ ∀ c ∈ u, numChar c = true := by
  unfold splitSign
  split
  · exact ⟨['-'], by simp, by decide⟩
  · exact ⟨['+'], by simp, by decide⟩
  · exact ⟨[], by simp, by simp⟩

def lc (c : Char) : Char := if 'A' ≤ c ∧ c ≤ 'Z' then Char.ofNat (c.toNat + 32) else c

theorem lower_mem (s : Txt) (c : Char) (h : c ∈ s) : lc c ∈ lower s := by
  unfold lower
  exact List.mem_map.2 ⟨c, h, rfl⟩

theorem lc_letters : ∀ c : Char, lc c ∈ "infinityan".toList → numChar c = true := by
  intro c h
  unfold lc at h
  split at h
  · rename_i hu
    have h1 : 'A'.val ≤ c.val := hu.1
    have h2 : c.val ≤ 'Z'.val := hu.2
    rw [UInt32.le_iff_toNat_le] at h1 h2
    have h1 : 65 ≤ c.toNat := h1
    have h2 : c.toNat ≤ 90 := h2
    have hc : Char.ofNat c.toNat = c := Char.ofNat_toNat c
    have key : ∀ k : Fin 26, Char.ofNat (65 + k.val + 32) ∈ "infinityan".toList → numChar (Char.ofNat (65 + k.val)) = true := by decide
    have := key ⟨c.toNat - 65, by omega⟩
    simp only at this
    have e : 65 + (c.toNat - 65) = c.toNat := by omega
    rw [e, hc] at this
    exact this h
  · have : c ∈ ['i','n','f','i','n','i','t','y','a','n'] := h
    simp only [List.mem_cons, List.not_mem_nil, or_false] at this
    rcases this with rfl | rfl | rfl | rfl | rfl | rfl | rfl | rfl | rfl | rfl <;> decide

theorem inf_sub : ∀ x : Char, (x ∈ "inf".toList ∨ x ∈ "infinity".toList ∨ x ∈ "nan".toList) → x ∈ "infinityan".toList := by
  intro x h
  have e1 : "inf".toList = ['i','n','f'] := rfl
  have e2 : "infinity".toList = ['i','n','f','i','n','i','t','y'] := rfl
  have e3 : "nan".toList = ['n','a','n'] := rfl
  have e4 : "infinityan".toList = ['i','n','f','i','n','i','t','y','a','n'] := rfl
  rw [e1, e2, e3] at h; rw [e4]
  simp only [List.mem_cons, List.not_mem_nil, or_false] at h ⊢
  rcases h with (h | h | h) | (h | h | h | h | h | h | h | h) | (h | h | h) <;> simp [h]

theorem lower_chars (body L : Txt) (h : lower body = L)
    (hL : L = "inf".toList ∨ L = "infinity".toList ∨ L = "nan".toList) : ∀ c ∈ body, numChar c = true := by
  intro c hc
  apply lc_letters
  have := lower_mem body c hc
  rw [h] at this
  apply inf_sub
  rcases hL with rfl | rfl | rfl
  · exact Or.inl this
  · exact Or.inr (Or.inl this)
  · exact Or.inr (Or.inr this)

theorem fclass_numStrip_chars (s : Txt) (h : (fclass s).isSome) : ∀ c ∈ numStrip s, numChar c = true := by
  unfold fclass at h
  generalize numStrip s = ns at *
  obtain ⟨u0, hu0, hall0⟩ := splitSign_chars ns
  generalize hsp : splitSign ns = sp at *
  obtain ⟨negv, body⟩ := sp
  simp only at h hu0
  suffices hb : ∀ c ∈ body, numChar c = true by
    intro c hc
    rw [hu0] at hc
    rcases List.mem_append.1 hc with hc | hc
    · exact hall0 c hc
    · exact hb c hc
  split at h
  · rename_i hi
    rcases hi with hi | hi
    · exact lower_chars body _ hi (Or.inl rfl)
    · exact lower_chars body _ hi (Or.inr (Or.inl rfl))
  · split at h
    · rename_i hi
      exact lower_chars body _ hi (Or.inr (Or.inr rfl))
    · generalize hd1 : digitsGo body [] = p1 at h
      obtain ⟨d1, r1⟩ := p1
      obtain ⟨u1, hb1, hall1⟩ := digitsGo_prefix body [] d1 r1 hd1
      simp only at h
      have hcases : (∃ r, r1 = '.' :: r) ∨ (∀ r, r1 = '.' :: r → False) := by
        cases r1 with
        | nil => right; intro r hr; cases hr
        | cons x xs =>
          by_cases hx : x = '.'
          · left; exact ⟨xs, by rw [hx]⟩
          · right; intro r hr; simp only [List.cons.injEq] at hr; exact hx hr.1
      -- `r2` (what follows the fraction part) is empty or an exponent part
      have expo : ∀ (r2 : Txt) (o : Option Int), (match r2 with
            | [] => some (0 : Int)
            | e :: r =>
              if e = 'e' ∨ e = 'E' then
                if List.isEmpty (digitsGo (splitSign r).snd []).fst = true ∨
                    (!List.isEmpty (digitsGo (splitSign r).snd []).snd) = true then none
                else some (if (splitSign r).fst = true then -↑(digitsVal (digitsGo (splitSign r).snd []).fst)
                    else ↑(digitsVal (digitsGo (splitSign r).snd []).fst))
              else none) = o → o.isSome → ∀ c ∈ r2, numChar c = true := by
        intro r2 o hex ho
        split at hex
        · intro c hc; simp at hc
        · rename_i e r
          split at hex
          · rename_i he
            split at hex
            · subst hex; simp at ho
            · rename_i hcond
              simp only [not_or, Bool.not_eq_true, Bool.not_eq_eq_eq_not, Bool.not_true] at hcond
              obtain ⟨us, hus, halls⟩ := splitSign_chars r
              obtain ⟨u3, hu3, hall3⟩ := digitsGo_prefix (splitSign r).snd [] _ _ (Prod.ext rfl rfl : digitsGo (splitSign r).snd [] = ((digitsGo (splitSign r).snd []).fst, (digitsGo (splitSign r).snd []).snd))
              have hnil : (digitsGo (splitSign r).snd []).snd = [] := by
                have := hcond.2
                cases hq : (digitsGo (splitSign r).snd []).snd with
                | nil => rfl
                | cons a as => rw [hq] at this; simp at this
              rw [hnil, List.append_nil] at hu3
              intro c hc
              rcases List.mem_cons.1 hc with rfl | hc
              · rcases he with rfl | rfl <;> decide
              · rw [hus] at hc
                rcases List.mem_append.1 hc with hc | hc
                · exact halls c hc
                · rw [hu3] at hc; exact hall3 c hc
          · subst hex; simp at ho
      have fin : ∀ v r2, r1 = v ++ r2 → (∀ c ∈ v, numChar c = true) → (∀ c ∈ r2, numChar c = true) →
          ∀ c ∈ body, numChar c = true := by
        intro v r2 hv hallv hr2 c hc
        rw [hb1, hv] at hc
        rcases List.mem_append.1 hc with hc | hc
        · exact hall1 c hc
        · rcases List.mem_append.1 hc with hc | hc
          · exact hallv c hc
          · exact hr2 c hc
      rcases hcases with ⟨r, hr⟩ | hnd
      · subst hr
        simp only at h
        obtain ⟨u2, hu2, hall2⟩ := digitsGo_prefix r [] _ _ (Prod.ext rfl rfl : digitsGo r [] = ((digitsGo r []).fst, (digitsGo r []).snd))
        refine fin ('.' :: u2) (digitsGo r []).snd (by rw [List.cons_append, ← hu2]) ?_ ?_
        · intro c hc
          rcases List.mem_cons.1 hc with rfl | hc
          · decide
          · exact hall2 c hc
        · split at h
          · simp at h
          · split at h
            · simp at h
            · rename_i E hE
              exact expo _ _ hE rfl
      · simp only at h
        refine fin [] r1 (by simp) (by simp) ?_
        split at h
        · simp at h
        · split at h
          · simp at h
          · rename_i E hE
            exact expo _ _ hE rfl

theorem stripLBy_head' (p : Char → Bool) (c : Char) (cs : Txt) (h : p c = false) : stripLBy p (c :: cs) = c :: cs := by
  simp [stripLBy, h]

theorem numSpace_of_not_space (c : Char) (h : pyIsSpace c = false) : isNumSpace c = false := by
  simp [isNumSpace, h]

/-- `strip()` leaves it alone ⇒ so does the blank-skipping of `float()` / `int()` -/
theorem numStrip_of_stripped (n : Txt) (h : stripList n = n) : numStrip n = n := by
  unfold numStrip
  cases n with
  | nil => rfl
  | cons c cs =>
    rw [stripLBy_head' _ c cs (numSpace_of_not_space c (head_of_stripped _ h c cs rfl))]
    obtain ⟨d, hl, hd⟩ := last_of_stripped _ h (by simp)
    cases hr : (c :: cs).reverse with
    | nil => simp at hr
    | cons e er =>
      have : (c :: cs).getLast? = some e := by
        rw [List.getLast?_eq_head?_reverse, hr]; rfl
      rw [hl] at this; cases this
      rw [stripLBy_head' _ d er (numSpace_of_not_space d hd), ← hr, List.reverse_reverse]

/-- **every `float()` literal that `strip()` leaves alone consists of numeral characters only**: digits, `_`,
`.`, `e`/`E`, signs, and the letters of `inf` / `infinity` / `nan` -/
theorem fclass_chars (n : Txt) (hs : stripList n = n) (hf : (fclass n).isSome) : ∀ c ∈ n, numChar c = true := by
  have := fclass_numStrip_chars n hf
  rwa [numStrip_of_stripped n hs] at this

/-- so such a literal contains none of the characters the readers and the cleaner key on -/
theorem lit_not_mem (n : Txt) (hs : stripList n = n) (hf : (fclass n).isSome) (x : Char) (hx : numChar x = false) : x ∉ n := by
  intro hm
  rw [fclass_chars n hs hf x hm] at hx
  cases hx

theorem Lit.not_mem {n : Txt} (h : Lit n) (x : Char) (hx : numChar x = false) : x ∉ n := lit_not_mem n h.1 h.2 x hx

theorem Lit.ne_nil {n : Txt} (h : Lit n) : n ≠ [] := by
  intro e; subst e
  have : fclass [] = none := by decide
  have h2 := h.2
  rw [this] at h2; cases h2

end C19
