import PraatModel.Scripts
import PraatModel.Lemmas.Strip
import PraatModel.Props.C05
import PraatModel.Props.C12

/-!
# praatio_scripts.splitTierEntries / spellCheckEntries — theorems (registered under C05, C12, C13)

Exact instance (`Int`).  The division `(end - start) / n` is exact on the integer grid iff `n ∣ end - start`; the
hypothesis `SplitGrid` says so for the entries that are split.  It restricts the REPRESENTATION, not the input: any
finite set of rational boundaries is put on such a grid by one common scale factor, and every definition here is
invariant under rescaling (the X run does exactly this with the factor 64 and runs the cases whose divisions come out
on the grid).
-/
namespace Scripts
open C12 (AnyWF dropName widenLo widenHi)

/-! ## `str.split()` -/

theorem splitWsGo_words (cs : List Char) : ∀ (cur : List Char), (∀ c ∈ cur, pyIsSpace c = false) →
    ∀ w ∈ splitWsGo cs cur, w ≠ [] ∧ ∀ c ∈ w, pyIsSpace c = false := by
  induction cs with
  | nil =>
    intro cur hc w hw
    cases cur with
    | nil => simp [splitWsGo] at hw
    | cons x xs =>
      simp only [splitWsGo, List.mem_singleton] at hw
      subst hw
      refine ⟨by simp, ?_⟩
      intro c hcm; exact hc c (List.mem_reverse.1 hcm)
  | cons c cs ih =>
    intro cur hc w hw
    simp only [splitWsGo] at hw
    by_cases hsp : pyIsSpace c = true
    · rw [if_pos hsp] at hw
      by_cases he : cur.isEmpty = true
      · rw [if_pos he] at hw; exact ih [] (by simp) w hw
      · rw [if_neg he] at hw
        rcases List.mem_cons.1 hw with h | h
        · subst h
          refine ⟨?_, ?_⟩
          · intro h0; apply he; rw [List.reverse_eq_nil_iff] at h0; simp [h0]
          · intro c' hcm; exact hc c' (List.mem_reverse.1 hcm)
        · exact ih [] (by simp) w h
    · rw [if_neg hsp] at hw
      apply ih (c :: cur) _ w hw
      intro c' hc'
      rcases List.mem_cons.1 hc' with h | h
      · subst h; simpa using hsp
      · exact hc c' h

/-- every word that `str.split()` returns is non-empty and contains no white space -/
theorem pySplit_words (s w : String) (hw : w ∈ pySplit s) :
    w ≠ "" ∧ ∀ c ∈ w.toList, pyIsSpace c = false := by
  unfold pySplit at hw
  obtain ⟨cs, hcs, rfl⟩ := List.mem_map.1 hw
  obtain ⟨h1, h2⟩ := splitWsGo_words s.toList [] (by simp) cs hcs
  refine ⟨?_, by simpa using h2⟩
  intro h0
  apply h1
  have := congrArg String.toList h0
  simpa using this

/-- … hence `strip()` leaves it alone (what the constructor and `insertEntry` do to a label) -/
theorem pySplit_stripped (s w : String) (hw : w ∈ pySplit s) : pyStrip w = w := by
  obtain ⟨_, h2⟩ := pySplit_words s w hw
  rw [pyStrip_eq_iff]
  constructor
  · intro c rest h; exact h2 c (by rw [h]; simp)
  · intro c h; exact h2 c (List.mem_of_getLast? h)

/-! ## equal subdivision -/

/-- `l` tiles `[a, b]`: it starts at `a`, every member has positive length, each starts where its predecessor ends,
the last one ends at `b` -/
def Tiles : Int → Int → List (Iv Int) → Prop
  | a, b, [] => a = b
  | a, b, x :: xs => x.s = a ∧ x.s < x.e ∧ Tiles x.e b xs

theorem Tiles.facts : ∀ (l : List (Iv Int)) (a b : Int), Tiles a b l →
    a ≤ b ∧ Pos l ∧ Disj l ∧ ∀ x ∈ l, a ≤ x.s ∧ x.e ≤ b := by
  intro l
  induction l with
  | nil => intro a b h; simp only [Tiles] at h; subst h; simp [Pos, Disj]
  | cons x xs ih =>
    intro a b h
    obtain ⟨h1, h2, h3⟩ := h
    obtain ⟨i1, i2, i3, i4⟩ := ih x.e b h3
    refine ⟨by omega, ?_, ?_, ?_⟩
    · intro y hy
      rcases List.mem_cons.1 hy with h | h
      · subst h; exact h2
      · exact i2 y h
    · unfold Disj
      rw [List.pairwise_cons]
      exact ⟨fun y hy => (i4 y hy).1, i3⟩
    · intro y hy
      rcases List.mem_cons.1 hy with h | h
      · subst h; omega
      · have := i4 y h; omega

theorem splitBound_lt (s e d : Int) (n i : Nat) (h : i < n) : splitBound s e d n i = s + d * (i : Int) := by
  unfold splitBound
  rw [if_neg (by omega)]
  rfl

theorem splitBound_succ (s e d : Int) (n i : Nat) (h : i < n) (hd : d * (n : Int) = e - s) :
    splitBound s e d n (i + 1) = s + d * (i : Int) + d := by
  unfold splitBound
  by_cases hi : i + 1 = n
  · rw [if_pos hi]
    subst hi
    have : d * ((i + 1 : Nat) : Int) = d * (i : Int) + d := by
      rw [Int.natCast_add, Int.mul_add]; simp
    omega
  · rw [if_neg hi]
    show s + d * ((i + 1 : Nat) : Int) = _
    have : d * ((i + 1 : Nat) : Int) = d * (i : Int) + d := by
      rw [Int.natCast_add, Int.mul_add]; simp
    omega

/-- the words, from index `i` on, tile the rest of the entry, and their labels are the words -/
theorem splitGo_tiles (s e d : Int) (n : Nat) (hd : d * (n : Int) = e - s) (hpos : 0 < d) :
    ∀ (ws : List String) (i : Nat), i + ws.length = n →
      Tiles (s + d * (i : Int)) e (splitGo s e d n i ws) ∧ (splitGo s e d n i ws).map (·.l) = ws := by
  intro ws
  induction ws with
  | nil =>
    intro i hi
    simp only [List.length_nil, Nat.add_zero] at hi
    subst hi
    simp only [splitGo, Tiles, List.map_nil, and_true]
    omega
  | cons w ws ih =>
    intro i hi
    simp only [List.length_cons] at hi
    have hlt : i < n := by omega
    obtain ⟨t1, t2⟩ := ih (i + 1) (by omega)
    have e1 := splitBound_lt s e d n i hlt
    have e2 := splitBound_succ s e d n i hlt hd
    have e3 : d * ((i + 1 : Nat) : Int) = d * (i : Int) + d := by
      rw [Int.natCast_add, Int.mul_add]; simp
    simp only [splitGo, Tiles, List.map_cons, t2, and_true]
    refine ⟨e1, by rw [e1, e2]; omega, ?_⟩
    rw [e2]
    have e4 : s + d * (i : Int) + d = s + d * ((i + 1 : Nat) : Int) := by omega
    rw [e4]
    exact t1

/-- the entries on which the exact division is exact: the word count divides the length -/
def SplitGrid (es : List (Iv Int)) : Prop :=
  ∀ iv ∈ es, pySplit iv.l ≠ [] → ((pySplit iv.l).length : Int) ∣ iv.e - iv.s

/-- **one source entry, full specification**: an entry without words contributes nothing; otherwise its words, in
order, tile exactly `[start, end]` and the labels are exactly the words -/
theorem splitWords_spec (iv : Iv Int) (hpos : iv.s < iv.e)
    (hdiv : pySplit iv.l ≠ [] → ((pySplit iv.l).length : Int) ∣ iv.e - iv.s) :
    (pySplit iv.l = [] → splitWords iv = []) ∧
    (pySplit iv.l ≠ [] → Tiles iv.s iv.e (splitWords iv) ∧ (splitWords iv).map (·.l) = pySplit iv.l) := by
  constructor
  · intro h; simp [splitWords, h]
  · intro hne
    have hn : (pySplit iv.l).length ≠ 0 := by
      intro h0; exact hne (List.length_eq_zero_iff.1 h0)
    obtain ⟨k, hk⟩ := hdiv hne
    have hnpos : (0 : Int) < ((pySplit iv.l).length : Int) := by omega
    have hd : (iv.e - iv.s) / ((pySplit iv.l).length : Int) = k := by
      rw [hk]; exact Int.mul_ediv_cancel_left k (by omega)
    have hkpos : 0 < k := by
      by_cases h : 0 < k
      · exact h
      · exfalso
        have : ((pySplit iv.l).length : Int) * k ≤ 0 := Int.mul_nonpos_of_nonneg_of_nonpos (by omega) (by omega)
        omega
    have hmul : k * ((pySplit iv.l).length : Int) = iv.e - iv.s := by rw [hk, Int.mul_comm]
    have key := splitGo_tiles iv.s iv.e k (pySplit iv.l).length hmul hkpos (pySplit iv.l) 0 (by simp)
    have hd' : SplitArith.divN (iv.e - iv.s) (pySplit iv.l).length = k := hd
    simp only [splitWords, if_neg hn, hd']
    simpa using key


/-! ## the whole function -/

theorem getTier_mem {g : Tg Int} {n : String} {t : AnyTier Int} (h : g.getTier n = .ok t) : t ∈ g.tiers ∧ t.name = n := by
  unfold Tg.getTier at h
  split at h
  · rename_i u hu; cases h; exact C12.find_name hu
  · cases h

/-- the tier that carries the words keeps / gets the target's name -/
theorem splitNewTier_name {g : Tg Int} {tgt : String} {target : Option (ITier Int)} {newEs : List (Iv Int)} {nt : ITier Int}
    (ht : ∀ t, target = some t → t.name = tgt) (h : splitNewTier g tgt target newEs = .ok nt) : nt.name = tgt := by
  cases target with
  | none => exact C12.mkITier_name h
  | some t =>
    simp only [splitNewTier] at h
    have := C05.foldlM_inv (fun u => u.name = tgt) (fun acc e => acc.insertEntry e .error)
      (fun a b a' ha hab => by rw [C12.insertEntry_name hab]; exact ha) newEs t nt (ht t rfl) h
    exact this

/-- … and is well-formed whenever the existing target is (no other hypothesis: `C05.construct_wf`, `C11.step_wf`) -/
theorem splitNewTier_wf {g : Tg Int} {tgt : String} {target : Option (ITier Int)} {newEs : List (Iv Int)} {nt : ITier Int}
    (ht : ∀ t, target = some t → t.WF) (h : splitNewTier g tgt target newEs = .ok nt) : nt.WF := by
  cases target with
  | none => exact (C05.construct_wf _ _ _ _).1 nt h
  | some t =>
    simp only [splitNewTier] at h
    exact C05.foldlM_inv (fun u => u.WF) (fun acc e => acc.insertEntry e .error)
      (fun a b a' ha hab => C11.step_wf a ha (.insert b .error) a' hab) newEs t nt (ht t rfl) h

theorem splitTarget_some {g : Tg Int} {tgt : String} {win : Option (Int × Int)} {t : ITier Int}
    (h : splitTarget g tgt win = .ok (some t)) :
    ∃ a b u, win = some (a, b) ∧ AnyTier.I u ∈ g.tiers ∧ u.name = tgt ∧ u.eraseRegion a b .truncate false = .ok t := by
  unfold splitTarget at h
  cases win with
  | none => cases h
  | some ab =>
    obtain ⟨a, b⟩ := ab
    simp only at h
    split at h
    · split at h
      · rename_i u hu
        obtain ⟨v, hv, hv2⟩ := C12.map_ok h
        cases hv2
        obtain ⟨m1, m2⟩ := getTier_mem hu
        exact ⟨a, b, u, rfl, m1, m2, hv⟩
      · cases h
      · cases h
    · cases h

theorem splitInstall_eq {g g' : Tg Int} {tgt : String} {nt : ITier Int} (hn : nt.name = tgt)
    (h : splitInstall g tgt nt = .ok g') :
    g' = ⟨dropName g.tiers tgt ++ [.I nt], some (widenLo g.lo nt.lo), some (widenHi g.hi nt.hi)⟩ := by
  unfold splitInstall at h
  obtain ⟨g1, h1, h2⟩ := C12.bind_ok h
  have hg1 : g1 = ⟨dropName g.tiers tgt, g.lo, g.hi⟩ := by
    split at h1
    · rename_i hc
      rw [C12.removeTier_eq, if_pos (List.contains_iff_mem.1 hc)] at h1
      cases h1; rfl
    · rename_i hc
      have := C12.pure_ok h1
      subst this
      have hnm : tgt ∉ C12.namesOf g.tiers := by
        intro hm; apply hc; exact List.contains_iff_mem.2 hm
      rw [C12.dropName_of_not_mem hnm]
  obtain ⟨_, _, h3⟩ := C12.addTier_inv h2
  rw [h3, hg1]
  rfl

/-- **C12 — shape of every successful call** (no hypothesis at all): the tier named `targetTierName` is removed if it
was there, ONE interval tier of that name is appended LAST, all other tiers are the same objects in the same order,
and the textgrid's span only widens, to cover the new tier -/
theorem split_shape (g g' : Tg Int) (src tgt : String) (a b : Option Int)
    (h : g.splitTierEntries src tgt a b = .ok g') :
    ∃ nt : ITier Int, nt.name = tgt ∧
      g' = ⟨dropName g.tiers tgt ++ [.I nt], some (widenLo g.lo nt.lo), some (widenHi g.hi nt.hi)⟩ := by
  unfold Tg.splitTierEntries at h
  obtain ⟨source, _, h⟩ := C12.bind_ok h
  obtain ⟨es, _, h⟩ := C12.bind_ok h
  obtain ⟨target, htg, h⟩ := C12.bind_ok h
  obtain ⟨nt, hnt, h⟩ := C12.bind_ok h
  have hn : nt.name = tgt := by
    apply splitNewTier_name _ hnt
    intro t ht
    subst ht
    obtain ⟨_, _, u, _, _, hu, he⟩ := splitTarget_some htg
    rw [C12.ITier.eraseRegion_name he, hu]
  exact ⟨nt, hn, splitInstall_eq hn h⟩

/-- the names after the call: the old ones without the target, then the target -/
theorem split_names (g g' : Tg Int) (src tgt : String) (a b : Option Int)
    (h : g.splitTierEntries src tgt a b = .ok g') :
    g'.names = (g.names.filter (· != tgt)) ++ [tgt] := by
  obtain ⟨nt, hn, rfl⟩ := split_shape g g' src tgt a b h
  simp [Tg.names, dropName, List.filter_map, hn, AnyTier.name, Function.comp_def]

/-- **C05 — every tier of the returned textgrid is well-formed** if the tiers of the argument are (whatever the
labels, the window, the word counts; no grid hypothesis) -/
theorem split_wf (g g' : Tg Int) (hwf : ∀ t ∈ g.tiers, AnyWF t) (src tgt : String) (a b : Option Int)
    (h : g.splitTierEntries src tgt a b = .ok g') : ∀ t ∈ g'.tiers, AnyWF t := by
  have hshape := split_shape g g' src tgt a b h
  unfold Tg.splitTierEntries at h
  obtain ⟨source, _, h⟩ := C12.bind_ok h
  obtain ⟨es, _, h⟩ := C12.bind_ok h
  obtain ⟨target, htg, h⟩ := C12.bind_ok h
  obtain ⟨nt, hnt, h⟩ := C12.bind_ok h
  have hntwf : nt.WF := by
    apply splitNewTier_wf _ hnt
    intro t ht
    subst ht
    obtain ⟨a', b', u, _, hmem, _, he⟩ := splitTarget_some htg
    exact C07.erase_wf_any u (hwf _ hmem) a' b' .truncate false t he
  obtain ⟨nt', hn', rfl⟩ := hshape
  have hn : nt.name = tgt := by
    apply splitNewTier_name _ hnt
    intro t ht
    subst ht
    obtain ⟨_, _, u, _, _, hu, he⟩ := splitTarget_some htg
    rw [C12.ITier.eraseRegion_name he, hu]
  have := splitInstall_eq hn h
  have hnt' : nt' = nt := by
    have h2 := congrArg Tg.tiers this
    simp only at h2
    have := List.append_inj_right' h2 rfl
    cases this; rfl
  subst hnt'
  intro t ht
  simp only [List.mem_append, List.mem_singleton] at ht
  rcases ht with ht | ht
  · exact hwf t (List.mem_filter.1 ht).1
  · subst ht; exact hntwf


/-! ## full functional specification, whole-tier call (no window) -/

/-- what the loop over the source entries produces, for ANY well-formed source on the grid: positive, disjoint, in time
order, stripped labels, every word inside the entry it comes from — nothing else is added -/
theorem flatMap_split (es : List (Iv Int)) (hp : Pos es) (hd : Disj es) (hg : SplitGrid es) :
    Pos (es.flatMap splitWords) ∧ Disj (es.flatMap splitWords) ∧ Stripped (es.flatMap splitWords) ∧
    ∀ x ∈ es.flatMap splitWords, ∃ iv ∈ es, x ∈ splitWords iv ∧ iv.s ≤ x.s ∧ x.e ≤ iv.e ∧ x.l ∈ pySplit iv.l := by
  have one : ∀ iv ∈ es, Pos (splitWords iv) ∧ Disj (splitWords iv) ∧
      ∀ x ∈ splitWords iv, iv.s ≤ x.s ∧ x.e ≤ iv.e ∧ x.l ∈ pySplit iv.l := by
    intro iv hiv
    obtain ⟨h0, h1⟩ := splitWords_spec iv (hp iv hiv) (hg iv hiv)
    by_cases hne : pySplit iv.l = []
    · rw [h0 hne]; simp [Pos, Disj]
    · obtain ⟨ht, hl⟩ := h1 hne
      obtain ⟨_, f2, f3, f4⟩ := Tiles.facts _ _ _ ht
      refine ⟨f2, f3, fun x hx => ⟨(f4 x hx).1, (f4 x hx).2, ?_⟩⟩
      rw [← hl]; exact List.mem_map_of_mem hx
  have mem : ∀ x ∈ es.flatMap splitWords, ∃ iv ∈ es, x ∈ splitWords iv ∧ iv.s ≤ x.s ∧ x.e ≤ iv.e ∧ x.l ∈ pySplit iv.l := by
    intro x hx
    obtain ⟨iv, hiv, hxi⟩ := List.mem_flatMap.1 hx
    obtain ⟨_, _, h3⟩ := one iv hiv
    exact ⟨iv, hiv, hxi, h3 x hxi⟩
  refine ⟨?_, ?_, ?_, mem⟩
  · intro x hx
    obtain ⟨iv, hiv, hxi, _⟩ := mem x hx
    exact (one iv hiv).1 x hxi
  · unfold Disj
    rw [List.pairwise_flatMap]
    refine ⟨fun iv hiv => (one iv hiv).2.1, ?_⟩
    refine List.Pairwise.imp_of_mem ?_ hd
    intro u v hu hv huv x hx y hy
    have := (one u hu).2.2 x hx
    have := (one v hv).2.2 y hy
    omega
  · intro x hx
    obtain ⟨iv, _, _, _, _, hl⟩ := mem x hx
    exact pySplit_stripped iv.l x.l hl

theorem splitInstall_ok (g : Tg Int) (tgt : String) (nt : ITier Int) (hn : nt.name = tgt) :
    ∃ g', splitInstall g tgt nt = .ok g' := by
  unfold splitInstall
  by_cases hc : g.names.contains tgt = true
  · rw [if_pos hc, C12.removeTier_eq, if_pos (List.contains_iff_mem.1 hc)]
    obtain ⟨g', h', _⟩ := C12.addTier_spec ⟨dropName g.tiers tgt, g.lo, g.hi⟩ (.I nt) none .warning
      (by
        intro hm
        have : tgt ∈ C12.namesOf (dropName g.tiers tgt) := by
          have h2 : (AnyTier.I nt).name = tgt := hn
          rw [h2] at hm; exact hm
        exact (C12.mem_names_dropName.1 this).1 rfl) (by simp)
    exact ⟨g', h'⟩
  · rw [if_neg hc]
    obtain ⟨g', h', _⟩ := C12.addTier_spec g (.I nt) none .warning
      (by
        intro hm; apply hc
        have : tgt ∈ g.names := by
          have h2 : (AnyTier.I nt).name = tgt := hn
          rw [h2] at hm; exact hm
        exact List.contains_iff_mem.2 this) (by simp)
    exact ⟨g', h'⟩

/-- **full functional specification of `splitTierEntries(tg, source, target)`** (exact arithmetic): for a well-formed
source tier on the grid the call SUCCEEDS; the textgrid gets one interval tier named `target`, appended last in place
of any tier of that name; its entries are exactly the words of the source entries — `flatMap_split` /
`splitWords_spec`: per entry the words tile `[start, end]` in order, labels are the words, an entry without words
contributes nothing, nothing else is added — and its span is the textgrid's -/
theorem split_whole_spec (g : Tg Int) (src tgt : String) (s : ITier Int) (lo hi : Int)
    (hsrc : g.getTier src = .ok (.I s)) (hwf : s.WF) (hg : SplitGrid s.es)
    (hlo : g.lo = some lo) (hhi : g.hi = some hi) (hlh : lo ≤ hi) :
    ∃ nt g', g.splitTierEntries src tgt none none = .ok g' ∧ nt.WF ∧ nt.name = tgt ∧
      nt.es = s.es.flatMap splitWords ∧
      g' = ⟨dropName g.tiers tgt ++ [.I nt], some (widenLo g.lo nt.lo), some (widenHi g.hi nt.hi)⟩ := by
  obtain ⟨f1, f2, f3, _⟩ := flatMap_split s.es hwf.pos hwf.disj hg
  obtain ⟨nt, m1, m2, m3, m4, _, _⟩ := mkITier_wf tgt (s.es.flatMap splitWords) lo hi hlh f1 f2 f3
  obtain ⟨g', hg'⟩ := splitInstall_ok g tgt nt m4
  refine ⟨nt, g', ?_, m2, m4, m3, splitInstall_eq m4 hg'⟩
  unfold Tg.splitTierEntries
  rw [hsrc]
  simp only [splitWindow, sourceEntries, splitTarget, splitNewTier, bind, Except.bind, hlo, hhi, m1]
  exact hg'


/-! ## full functional specification, windowed call -/

/-- inserting, in 'error' mode, a list of positive, mutually disjoint, stripped entries none of which collides with the
tier: every insertion succeeds and the result holds exactly the old entries and the new ones -/
theorem fold_insert : ∀ (l : List (Iv Int)) (t : ITier Int), t.WF → Pos l → Disj l → Stripped l →
    (∀ x ∈ l, ∀ iv ∈ t.es, iv.e ≤ x.s ∨ x.e ≤ iv.s) →
    ∃ nt, l.foldlM (fun acc e => acc.insertEntry e .error) t = .ok nt ∧ nt.WF ∧ nt.name = t.name ∧
      ∀ y, y ∈ nt.es ↔ y ∈ t.es ∨ y ∈ l := by
  intro l
  induction l with
  | nil => intro t hwf _ _ _ _; exact ⟨t, rfl, hwf, rfl, by simp⟩
  | cons x l ih =>
    intro t hwf hp hd hs hfree
    obtain ⟨t1, h1, w1, n1, m1, _, _⟩ := C11.insert_nocollision t hwf x (hp x (by simp)) .error (hfree x (by simp))
    have hx : C11.stripped x = x := C11.strip_id x (hs x (by simp))
    rw [hx] at m1
    have hd' := List.pairwise_cons.1 hd
    obtain ⟨nt, h2, w2, n2, m2⟩ := ih t1 w1 (fun y hy => hp y (List.mem_cons_of_mem _ hy)) hd'.2
      (fun y hy => hs y (List.mem_cons_of_mem _ hy))
      (by
        intro y hy iv hiv
        rcases (m1 iv).1 hiv with h | h
        · exact hfree y (List.mem_cons_of_mem _ hy) iv h
        · subst h; exact Or.inl (hd'.1 y hy))
    refine ⟨nt, ?_, w2, by rw [n2, n1], ?_⟩
    · simp only [List.foldlM_cons, bind, Except.bind, h1]; exact h2
    · intro y; rw [m2, m1]; simp only [List.mem_cons, or_assoc]

/-- the window of a call, the cropped source entries and what they produce -/
theorem cropped_words (s : ITier Int) (hwf : s.WF) (a b : Int) (hab : a < b)
    (hg : SplitGrid (getIvs a b .truncated s.es)) :
    sourceEntries (.I s) (some (a, b)) = .ok (getIvs a b .truncated s.es) ∧
    Pos ((getIvs a b .truncated s.es).flatMap splitWords) ∧ Disj ((getIvs a b .truncated s.es).flatMap splitWords) ∧
    Stripped ((getIvs a b .truncated s.es).flatMap splitWords) ∧
    ∀ x ∈ (getIvs a b .truncated s.es).flatMap splitWords, a ≤ x.s ∧ x.e ≤ b := by
  obtain ⟨t', c1, c2, _, c4, _, _⟩ := C06.crop_norebase s hwf a b hab .truncated
  obtain ⟨sp1, sp2⟩ := C06.crop_norebase_span s hwf a b hab .truncated (by decide) t' c1
  have hp : Pos (getIvs a b .truncated s.es) := by rw [← c4]; exact c2.pos
  have hd : Disj (getIvs a b .truncated s.es) := by rw [← c4]; exact c2.disj
  obtain ⟨f1, f2, f3, f4⟩ := flatMap_split _ hp hd hg
  refine ⟨by simp only [sourceEntries, c1]; rw [← c4]; rfl, f1, f2, f3, ?_⟩
  intro x hx
  obtain ⟨iv, hiv, _, h1, h2, _⟩ := f4 x hx
  rw [← c4] at hiv
  have := c2.inLo iv hiv
  have := c2.inHi iv hiv
  omega

/-- **full functional specification of the windowed call with an existing target tier** (exact arithmetic): for
well-formed source and target, `a < b`, the call SUCCEEDS; the new target holds exactly (i) the pieces of the old
target's entries OUTSIDE the window (`pieces a b .truncate`: an entry clear of the window unchanged, a straddling one cut
at the window edge — outside `[a, b]` the tier is unchanged, `C07.isErased_labelAt`) and (ii) the words of the source
entries cropped to the window (`flatMap_split`/`splitWords_spec`: they tile each cropped entry) — nothing else; name,
position and span as in `split_shape` -/
theorem split_window_spec (g : Tg Int) (src tgt : String) (s u : ITier Int) (startT endT : Option Int) (a b : Int)
    (hwin : splitWindow g startT endT = some (a, b)) (hab : a < b)
    (hsrc : g.getTier src = .ok (.I s)) (hwf : s.WF) (hg : SplitGrid (getIvs a b .truncated s.es))
    (htg : g.getTier tgt = .ok (.I u)) (huwf : u.WF) :
    ∃ nt g', g.splitTierEntries src tgt startT endT = .ok g' ∧ nt.WF ∧ nt.name = tgt ∧
      (∀ y, y ∈ nt.es ↔ (∃ iv ∈ u.es, y ∈ pieces a b .truncate iv) ∨
                        y ∈ (getIvs a b .truncated s.es).flatMap splitWords) ∧
      g' = ⟨dropName g.tiers tgt ++ [.I nt], some (widenLo g.lo nt.lo), some (widenHi g.hi nt.hi)⟩ := by
  obtain ⟨c0, f1, f2, f3, f5⟩ := cropped_words s hwf a b hab hg
  obtain ⟨t0, e1, e2⟩ := C07.erase_noshrink u huwf a b hab .truncate (by decide)
  have hclear := C07.isErased_clear u t0 huwf a b hab .truncate e2
  obtain ⟨nt, i1, i2, i3, i4⟩ := fold_insert _ t0 e2.wf f1 f2 f3 (by
    intro x hx iv hiv
    have := hclear iv hiv
    have := f5 x hx
    have := e2.wf.pos iv hiv
    have := f1 x hx
    omega)
  obtain ⟨hmem, hname⟩ := getTier_mem htg
  have hn : nt.name = tgt := by rw [i3, e2.name]; exact hname
  obtain ⟨g', hg'⟩ := splitInstall_ok g tgt nt hn
  refine ⟨nt, g', ?_, i2, hn, ?_, splitInstall_eq hn hg'⟩
  · have hc : g.names.contains tgt = true := by
      apply List.contains_iff_mem.2
      have : (AnyTier.I u).name ∈ g.names := List.mem_map_of_mem hmem
      rw [hname] at this; exact this
    unfold Tg.splitTierEntries
    rw [hsrc]
    simp only [hwin, c0, splitTarget, hc, htg, e1, splitNewTier, bind, Except.bind, if_true, Functor.map, Except.map, i1]
    exact hg'
  · intro y; rw [i4, e2.mem]

/-- **the windowed call without an existing target**: the new tier is built by the constructor over the textgrid's span
from the words of the cropped source entries -/
theorem split_window_new_spec (g : Tg Int) (src tgt : String) (s : ITier Int) (startT endT : Option Int) (a b lo hi : Int)
    (hwin : splitWindow g startT endT = some (a, b)) (hab : a < b)
    (hsrc : g.getTier src = .ok (.I s)) (hwf : s.WF) (hg : SplitGrid (getIvs a b .truncated s.es))
    (hfresh : tgt ∉ g.names) (hlo : g.lo = some lo) (hhi : g.hi = some hi) (hlh : lo ≤ hi) :
    ∃ nt g', g.splitTierEntries src tgt startT endT = .ok g' ∧ nt.WF ∧ nt.name = tgt ∧
      nt.es = (getIvs a b .truncated s.es).flatMap splitWords ∧
      g' = ⟨dropName g.tiers tgt ++ [.I nt], some (widenLo g.lo nt.lo), some (widenHi g.hi nt.hi)⟩ := by
  obtain ⟨c0, f1, f2, f3, _⟩ := cropped_words s hwf a b hab hg
  obtain ⟨nt, m1, m2, m3, m4, _, _⟩ := mkITier_wf tgt _ lo hi hlh f1 f2 f3
  obtain ⟨g', hg'⟩ := splitInstall_ok g tgt nt m4
  refine ⟨nt, g', ?_, m2, m4, m3, splitInstall_eq m4 hg'⟩
  have hc : g.names.contains tgt = false := by
    cases h : g.names.contains tgt with
    | false => rfl
    | true => exact absurd (List.contains_iff_mem.1 h) hfresh
  unfold Tg.splitTierEntries
  rw [hsrc]
  simp only [hwin, c0, splitTarget, hc, splitNewTier, bind, Except.bind, hlo, hhi, m1]
  exact hg'

/-- a window with `startT ≥ endT` is refused with ArgumentError (by the crop of the source), before anything else -/
theorem split_window_rejects (g : Tg Int) (src tgt : String) (s : ITier Int) (startT endT : Option Int) (a b : Int)
    (hwin : splitWindow g startT endT = some (a, b)) (hab : b ≤ a) (hsrc : g.getTier src = .ok (.I s)) :
    g.splitTierEntries src tgt startT endT = .error .ArgumentError := by
  unfold Tg.splitTierEntries
  rw [hsrc]
  simp [hwin, sourceEntries, C06.crop_rejects s a b .truncated false hab, bind, Except.bind, Functor.map, Except.map]

/-! ## C13: a raising call has not touched the textgrid -/

/-- `splitTierEntries` modifies the textgrid it is given — but only in its last step (`removeTier` + `addTier`), and that
step cannot fail (`splitInstall_ok`: the name has just been removed, the reporting mode is 'warning').  So whenever the
call raises, the exception comes from one of the four steps BEFORE the first mutation — looking up the source, cropping
it, erasing the window from a COPY of the target, building the new tier — and the caller's textgrid is exactly as
before (the correspondence run compares the real object before and after every raising call). -/
theorem split_fails_before_mutation (g : Tg Int) (src tgt : String) (a b : Option Int) (e : Err)
    (h : g.splitTierEntries src tgt a b = .error e) :
    g.getTier src = .error e ∨
    ∃ source, g.getTier src = .ok source ∧
      (sourceEntries source (splitWindow g a b) = .error e ∨
       ∃ es, sourceEntries source (splitWindow g a b) = .ok es ∧
         (splitTarget g tgt (splitWindow g a b) = .error e ∨
          ∃ target, splitTarget g tgt (splitWindow g a b) = .ok target ∧
            splitNewTier g tgt target (es.flatMap splitWords) = .error e)) := by
  unfold Tg.splitTierEntries at h
  cases h1 : g.getTier src with
  | error e1 => rw [h1] at h; left; cases h; rfl
  | ok source =>
    right; refine ⟨source, rfl, ?_⟩
    rw [h1] at h
    simp only [bind, Except.bind] at h
    cases h2 : sourceEntries source (splitWindow g a b) with
    | error e2 => rw [h2] at h; left; cases h; rfl
    | ok es =>
      right; refine ⟨es, rfl, ?_⟩
      rw [h2] at h
      simp only at h
      cases h3 : splitTarget g tgt (splitWindow g a b) with
      | error e3 => rw [h3] at h; left; cases h; rfl
      | ok target =>
        right; refine ⟨target, rfl, ?_⟩
        rw [h3] at h
        simp only at h
        cases h4 : splitNewTier g tgt target (es.flatMap splitWords) with
        | error e4 => rw [h4] at h; cases h; rfl
        | ok nt =>
          exfalso
          rw [h4] at h
          simp only at h
          have hn : nt.name = tgt := by
            apply splitNewTier_name _ h4
            intro t ht
            subst ht
            obtain ⟨_, _, u, _, _, hu, he⟩ := splitTarget_some h3
            rw [C12.ITier.eraseRegion_name he, hu]
          obtain ⟨g', hg'⟩ := splitInstall_ok g tgt nt hn
          rw [hg'] at h
          cases h

/-! ## spellCheckEntries -/

/-- **C12/C05 — every successful `spellCheckEntries`**: the (copied) textgrid gets ONE new interval tier named
`newTierName`, appended last; every other tier is untouched, in the same order; the new tier is well-formed
(`C05.construct_wf`); the name was not in use; the span only widens -/
theorem spell_shape (g g' : Tg Int) (target nn : String) (check : String → Bool)
    (h : g.spellCheckEntries target nn check = .ok g') :
    ∃ nt : ITier Int, nt.name = nn ∧ nt.WF ∧ nn ∉ g.names ∧
      g' = ⟨g.tiers ++ [.I nt], some (widenLo g.lo nt.lo), some (widenHi g.hi nt.hi)⟩ := by
  unfold Tg.spellCheckEntries at h
  obtain ⟨t, _, h⟩ := C12.bind_ok h
  obtain ⟨es, _, h⟩ := C12.bind_ok h
  obtain ⟨nt, hnt, h⟩ := C12.bind_ok h
  obtain ⟨a1, _, a3⟩ := C12.addTier_inv h
  have hn := C12.mkITier_name hnt
  refine ⟨nt, hn, (C05.construct_wf _ _ _ _).1 nt hnt, ?_, a3⟩
  intro hm; apply a1
  show nt.name ∈ g.names
  rw [hn]; exact hm

/-- a name that is in use is never accepted (the code raises TierNameExistsError from `addTier`; the argument is a copy) -/
theorem spell_duplicate (g : Tg Int) (target nn : String) (check : String → Bool) (hn : nn ∈ g.names) (g' : Tg Int) :
    g.spellCheckEntries target nn check ≠ .ok g' := by
  intro h
  obtain ⟨_, _, _, h3, _⟩ := spell_shape g g' target nn check h
  exact h3 hn

theorem spell_wf (g g' : Tg Int) (hwf : ∀ t ∈ g.tiers, AnyWF t) (target nn : String) (check : String → Bool)
    (h : g.spellCheckEntries target nn check = .ok g') : ∀ t ∈ g'.tiers, AnyWF t := by
  obtain ⟨nt, _, hw, _, rfl⟩ := spell_shape g g' target nn check h
  intro t ht
  simp only [List.mem_append, List.mem_singleton] at ht
  rcases ht with ht | ht
  · exact hwf t ht
  · subst ht; exact hw

/-- what is reported for one entry: same start and end, the rejected words of the punctuation-free label in order,
joined by ", "; an entry without a rejected word is not reported -/
theorem spellOne_spec (check : String → Bool) (iv : Iv Int) :
    (misspelled check iv.l = [] → spellOne check iv = none) ∧
    (misspelled check iv.l ≠ [] → spellOne check iv = some ⟨iv.s, iv.e, pyJoin ", " (misspelled check iv.l)⟩) ∧
    (∀ w ∈ misspelled check iv.l, check w = false ∧ w ∈ pySplit (dropPunct iv.l)) := by
  refine ⟨?_, ?_, ?_⟩
  · intro h; simp [spellOne, h]
  · intro h
    have : (misspelled check iv.l).isEmpty = false := by
      cases hm : misspelled check iv.l with
      | nil => exact absurd hm h
      | cons _ _ => rfl
    simp [spellOne, this]
  · intro w hw
    unfold misspelled at hw
    obtain ⟨h1, h2⟩ := List.mem_filter.1 hw
    exact ⟨by simpa using h2, h1⟩

/-- first and last character exist and are not white space -/
def Edges (cs : List Char) : Prop :=
  (∃ c rest, cs = c :: rest ∧ pyIsSpace c = false) ∧ (∃ c, cs.getLast? = some c ∧ pyIsSpace c = false)

theorem Edges.noEdge {cs : List Char} (h : Edges cs) : NoEdgeSpace cs := by
  obtain ⟨⟨c, rest, h1, h2⟩, ⟨d, h3, h4⟩⟩ := h
  constructor
  · intro c' rest' h'; rw [h1] at h'; cases h'; exact h2
  · intro c' h'; rw [h3] at h'; cases h'; exact h4

theorem Edges.append3 {xs zs : List Char} (ys : List Char) (hx : Edges xs) (hz : Edges zs) : Edges (xs ++ ys ++ zs) := by
  obtain ⟨⟨c, rest, h1, h2⟩, _⟩ := hx
  obtain ⟨⟨c', rest', h1', _⟩, ⟨d, h3, h4⟩⟩ := hz
  constructor
  · exact ⟨c, rest ++ ys ++ zs, by rw [h1]; simp, h2⟩
  · refine ⟨d, ?_, h4⟩
    rw [List.getLast?_append, h3]
    rfl

theorem word_edges (w : String) (h : w ≠ "" ∧ ∀ c ∈ w.toList, pyIsSpace c = false) : Edges w.toList := by
  obtain ⟨h1, h2⟩ := h
  have hne : w.toList ≠ [] := by
    intro h0; apply h1
    have : w = String.ofList w.toList := by simp
    rw [this, h0]
  constructor
  · cases hl : w.toList with
    | nil => exact absurd hl hne
    | cons c rest => exact ⟨c, rest, rfl, h2 c (by rw [hl]; simp)⟩
  · obtain ⟨d, hd⟩ : ∃ d, w.toList.getLast? = some d := ⟨_, List.getLast?_eq_some_getLast hne⟩
    exact ⟨d, hd, h2 d (List.mem_of_getLast? hd)⟩

theorem pyJoin_comma_edges : ∀ (ms : List String), ms ≠ [] →
    (∀ w ∈ ms, w ≠ "" ∧ ∀ c ∈ w.toList, pyIsSpace c = false) → Edges (pyJoin ", " ms).toList := by
  intro ms
  induction ms with
  | nil => intro h; exact absurd rfl h
  | cons x xs ih =>
    intro _ hw
    cases xs with
    | nil => simpa [pyJoin] using word_edges x (hw x (by simp))
    | cons y ys =>
      have h2 := ih (by simp) (fun w hm => hw w (List.mem_cons_of_mem _ hm))
      have h1 := word_edges x (hw x (by simp))
      have := Edges.append3 ", ".toList h1 h2
      simpa [pyJoin, String.toList_append] using this

/-- the label `", ".join(rejected words)` carries no surrounding white space -/
theorem pyJoin_comma_stripped (ms : List String) (hne : ms ≠ [])
    (hw : ∀ w ∈ ms, w ≠ "" ∧ ∀ c ∈ w.toList, pyIsSpace c = false) : pyStrip (pyJoin ", " ms) = pyJoin ", " ms := by
  rw [pyStrip_eq_iff]; exact (pyJoin_comma_edges ms hne hw).noEdge

theorem spellOne_some {check : String → Bool} {iv o : Iv Int} (h : spellOne check iv = some o) :
    o.s = iv.s ∧ o.e = iv.e ∧ misspelled check iv.l ≠ [] ∧ o.l = pyJoin ", " (misspelled check iv.l) := by
  unfold spellOne at h
  simp only at h
  split at h
  · cases h
  · rename_i hne
    cases h
    refine ⟨rfl, rfl, ?_, rfl⟩
    intro h0; apply hne; rw [h0]; rfl

/-- **full functional specification of `spellCheckEntries`** (exact; no grid needed — no arithmetic happens): for a
well-formed interval tier `target` and a fresh name the call SUCCEEDS; the result is the argument's tiers, untouched and
in order, plus ONE well-formed tier `newTierName` over the textgrid's span whose entries are exactly, in order, the
entries of `target` that have a rejected word — same start and end, label = the rejected words of the punctuation-free
label joined by ", " (`spellOne_spec`) -/
theorem spell_spec (g : Tg Int) (target nn : String) (check : String → Bool) (t : ITier Int) (lo hi : Int)
    (ht : g.getTier target = .ok (.I t)) (hwf : t.WF) (hfresh : nn ∉ g.names)
    (hlo : g.lo = some lo) (hhi : g.hi = some hi) (hlh : lo ≤ hi) :
    ∃ nt, g.spellCheckEntries target nn check =
        .ok ⟨g.tiers ++ [.I nt], some (widenLo g.lo nt.lo), some (widenHi g.hi nt.hi)⟩ ∧
      nt.WF ∧ nt.name = nn ∧ nt.es = t.es.filterMap (spellOne check) := by
  have hp : Pos (t.es.filterMap (spellOne check)) := by
    intro o ho
    obtain ⟨iv, hiv, hfo⟩ := List.mem_filterMap.1 ho
    obtain ⟨h1, h2, _⟩ := spellOne_some hfo
    have := hwf.pos iv hiv
    omega
  have hd : Disj (t.es.filterMap (spellOne check)) := by
    unfold Disj
    refine List.Pairwise.filterMap (spellOne check) ?_ hwf.disj
    intro u v huv o ho o' ho'
    obtain ⟨_, h2, _⟩ := spellOne_some (Option.mem_def.1 ho)
    obtain ⟨h1', _, _⟩ := spellOne_some (Option.mem_def.1 ho')
    omega
  have hs : Stripped (t.es.filterMap (spellOne check)) := by
    intro o ho
    obtain ⟨iv, _, hfo⟩ := List.mem_filterMap.1 ho
    obtain ⟨_, _, h3, h4⟩ := spellOne_some hfo
    rw [h4]
    apply pyJoin_comma_stripped _ h3
    intro w hw
    exact pySplit_words _ w ((spellOne_spec check iv).2.2 w hw).2
  obtain ⟨nt, m1, m2, m3, m4, _, _⟩ := mkITier_wf nn _ lo hi hlh hp hd hs
  obtain ⟨g', a1, a2, a3, a4⟩ := C12.addTier_spec g (.I nt) none .warning
    (by intro hm; apply hfresh; have h2 : (AnyTier.I nt).name = nn := m4; rw [h2] at hm; exact hm) (by simp)
  refine ⟨nt, ?_, m2, m4, m3⟩
  unfold Tg.spellCheckEntries
  rw [ht]
  simp only [spellEntries, bind, Except.bind, hlo, hhi, m1]
  rw [a1]
  obtain ⟨tiers, glo, ghi⟩ := g'
  simp only at a2 a3 a4
  rw [a2, a3, a4, hlo, hhi]
  rfl

/-! ## concrete states that meet the hypotheses; regressions -/

def exSrc : ITier Int := ⟨"src", [⟨504, 528, "the blue cat"⟩, ⟨528, 560, ""⟩, ⟨576, 640, "a\tb"⟩], 0, 640⟩
def exTg : Tg Int := ⟨[.I exSrc, .I ⟨"words", [⟨0, 64, "old"⟩], 0, 640⟩], some 0, some 640⟩

theorem exSrc_wf : exSrc.WF := by
  refine ⟨?_, ?_, ?_, ?_, ?_, by decide⟩ <;> simp [exSrc, Pos, Disj, Stripped, pyStrip, stripList, stripL, pyIsSpace]

theorem exSrc_grid : SplitGrid exSrc.es := by
  intro iv hiv
  simp only [exSrc, List.mem_cons, List.not_mem_nil, or_false] at hiv
  rcases hiv with h | h | h <;> subst h <;> decide +kernel

/-- the hypotheses of `split_whole_spec` are met by `exTg` (docstring example on the grid, plus a blank entry) -/
theorem exTg_hyps : exTg.getTier "src" = .ok (.I exSrc) ∧ exSrc.WF ∧ SplitGrid exSrc.es ∧
    exTg.lo = some 0 ∧ exTg.hi = some 640 := ⟨by simp [exTg, Tg.getTier, AnyTier.name, exSrc], exSrc_wf, exSrc_grid, rfl, rfl⟩

/-- S1-1 (fixed in /repo 51efa36): an entry whose label has no words contributes nothing (was: ZeroDivisionError) -/
theorem split_blank_regression (s e : Int) : splitWords (⟨s, e, " \t "⟩ : Iv Int) = [] := by
  have : pySplit " \t " = [] := by decide
  simp [splitWords, this]

/-- S1-2 (fixed in /repo 47499b1): the last boundary is the entry's end itself, whatever `len * n` is — in ANY
arithmetic (`α` generic), so in binary64 the last word cannot stick out of its entry by an ulp -/
theorem split_last_boundary {α : Type} [Add α] [SplitArith α] (s e len : α) (n : Nat) : splitBound s e len n n = e := by
  simp [splitBound]

#guard (exTg.splitTierEntries "src" "words" none none).toOption.map (fun g => g.tiers.map fun
  | .I t => (t.name, t.es.map fun iv => (iv.s, iv.e, iv.l)) | .P t => (t.name, [])) ==
  some [("src", [(504, 528, "the blue cat"), (528, 560, ""), (576, 640, "a\tb")]),
        ("words", [(504, 512, "the"), (512, 520, "blue"), (520, 528, "cat"), (576, 608, "a"), (608, 640, "b")])]
#guard (exTg.splitTierEntries "src" "words" (some 32) (some 516)).toOption.map (fun g => g.tiers.map fun
  | .I t => (t.name, t.es.map fun iv => (iv.s, iv.e, iv.l)) | .P t => (t.name, [])) ==
  some [("src", [(504, 528, "the blue cat"), (528, 560, ""), (576, 640, "a\tb")]),
        ("words", [(0, 32, "old"), (504, 508, "the"), (508, 512, "blue"), (512, 516, "cat")])]
#guard (exTg.spellCheckEntries "src" "errors" fun w => w == "the").toOption.map (fun g => g.tiers.map fun
  | .I t => (t.name, t.es.map fun iv => (iv.s, iv.e, iv.l)) | .P t => (t.name, [])) ==
  some [("src", [(504, 528, "the blue cat"), (528, 560, ""), (576, 640, "a\tb")]), ("words", [(0, 64, "old")]),
        ("errors", [(504, 528, "blue, cat"), (576, 640, "a, b")])]

end Scripts
