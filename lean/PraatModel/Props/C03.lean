import PraatModel.Open
import PraatModel.Props.C01

/-!
# C03 — the reader returns what a conformant file encodes: duplicate-name policy, blank removal

The two text parsers are tied to the code by the correspondence run on files produced by the independent writer
(every layout × encoding × newline) and by unit comparison of each matcher with `re` itself; the label codec is C01's
`scanText_written` / `word_written` (all labels).  Proved here: the duplicate-tier-name policy and `_removeBlanks`.
-/
namespace C03

/-- the candidates tried by the renaming loop are pairwise different -/
def CandInj (sfx : Nat → String) : Prop := ∀ (name : String) (i j : Nat), name ++ "_" ++ sfx i = name ++ "_" ++ sfx j → i = j

theorem findFree_fresh (sfx : Nat → String) (hinj : CandInj sfx) (name : String) (seen : List String)
    (fuel i : Nat) (T : List String) (hT : ∀ j, i ≤ j → name ++ "_" ++ sfx j ∈ seen → name ++ "_" ++ sfx j ∈ T)
    (hlen : T.length < fuel) : findFree sfx name seen fuel i ∉ seen := by
  induction fuel generalizing i T with
  | zero => omega
  | succ fuel ih =>
    simp only [findFree]
    by_cases hc : name ++ "_" ++ sfx i ∈ seen
    · rw [if_pos hc]
      have hcT := hT i (Nat.le_refl i) hc
      apply ih (i + 1) (T.erase (name ++ "_" ++ sfx i))
      · intro j hj hjs
        have hjT := hT j (by omega) hjs
        have hne : name ++ "_" ++ sfx j ≠ name ++ "_" ++ sfx i := by
          intro e; have := hinj name j i e; omega
        exact (List.mem_erase_of_ne hne).2 hjT
      · rw [List.length_erase_of_mem hcT]
        have : 0 < T.length := List.length_pos_of_mem hcT
        omega
    · rw [if_neg hc]; exact hc

theorem renameDups_spec (sfx : Nat → String) (hinj : CandInj sfx) (seen names : List String) (hs : seen.Nodup) :
    (seen ++ renameDups sfx seen names).Nodup ∧ (renameDups sfx seen names).length = names.length := by
  induction names generalizing seen with
  | nil => simp [renameDups, hs]
  | cons n rest ih =>
    simp only [renameDups]
    generalize hn' : (if n ∈ seen then findFree sfx n seen (seen.length + 1) 2 else n) = n'
    have hfresh : n' ∉ seen := by
      rw [← hn']
      by_cases h : n ∈ seen
      · rw [if_pos h]
        exact findFree_fresh sfx hinj n seen (seen.length + 1) 2 seen (fun _ _ h => h) (by omega)
      · rw [if_neg h]; exact h
    have hs' : (seen ++ [n']).Nodup := by
      rw [List.nodup_append]
      refine ⟨hs, by simp, ?_⟩
      intro a ha b hb
      simp only [List.mem_singleton] at hb; subst hb
      intro e; subst e; exact hfresh ha
    obtain ⟨i1, i2⟩ := ih (seen ++ [n']) hs'
    constructor
    · have : seen ++ n' :: renameDups sfx (seen ++ [n']) rest = (seen ++ [n']) ++ renameDups sfx (seen ++ [n']) rest := by simp
      rw [this]; exact i1
    · simp [i2]

/-- **rename mode**: the resulting names are pairwise distinct, one per tier, in file order -/
theorem dupnames_rename (sfx : Nat → String) (hinj : CandInj sfx) (names : List String) :
    (renameDups sfx [] names).Nodup ∧ (renameDups sfx [] names).length = names.length := by
  have := renameDups_spec sfx hinj [] names (by simp)
  simpa using this

/-- a name that has not occurred before is kept as it is (first occurrences keep their name) -/
theorem dupnames_first_kept (sfx : Nat → String) (seen : List String) (n : String) (rest : List String) (h : n ∉ seen) :
    renameDups sfx seen (n :: rest) = n :: renameDups sfx (seen ++ [n]) rest := by
  simp [renameDups, h]

/-- a file without duplicate names is left alone -/
theorem dupnames_id (sfx : Nat → String) (seen names : List String) (h : (seen ++ names).Nodup) :
    renameDups sfx seen names = names := by
  induction names generalizing seen with
  | nil => rfl
  | cons n rest ih =>
    have hn : n ∉ seen := by
      intro hm
      have := (List.nodup_append.1 h).2.2 n hm n (by simp)
      exact this rfl
    rw [dupnames_first_kept sfx seen n rest hn, ih (seen ++ [n]) (by simpa using h)]

/-- **error mode**: `DuplicateTierName` exactly when a name repeats -/
theorem dupnames_error (seen names : List String) (hs : seen.Nodup) :
    checkDups seen names = .ok () ↔ (seen ++ names).Nodup := by
  induction names generalizing seen with
  | nil => simp [checkDups, hs]
  | cons n rest ih =>
    simp only [checkDups]
    by_cases h : n ∈ seen
    · simp only [h, if_true]
      constructor
      · intro e; cases e
      · intro hnd
        have := (List.nodup_append.1 hnd).2.2 n h n (by simp)
        exact absurd rfl this
    · simp only [h, if_false]
      have hs' : (seen ++ [n]).Nodup := by
        rw [List.nodup_append]
        refine ⟨hs, by simp, ?_⟩
        intro a ha b hb
        simp only [List.mem_singleton] at hb; subst hb
        intro e; subst e; exact h ha
      rw [ih (seen ++ [n]) hs']
      simp

/-- `_removeBlanks`: with includeEmptyIntervals=False exactly the entries whose label is empty disappear; order and
everything else is untouched -/
theorem removeBlanks_spec (es : List (List String)) :
    (es.filter fun e => e.getLast? != some "").Sublist es ∧
    ∀ e, e ∈ (es.filter fun e => e.getLast? != some "") ↔ e ∈ es ∧ e.getLast? ≠ some "" := by
  constructor
  · exact List.filter_sublist
  · intro e; simp [List.mem_filter]

#guard renameDups toString [] ["a", "a", "a_2", "a", "b"] == ["a", "a_2", "a_2_2", "a_3", "b"]

end C03
