/-! # C03 — property theorems (to be filled) -/
