/-! # C13 — property theorems (to be filled) -/
