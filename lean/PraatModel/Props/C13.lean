import PraatModel.Props.C11
import PraatModel.Props.C12

/-!
# C13 — copy-returning operations never mutate; failed mutations change nothing

The model is purely functional: a copy-returning operation cannot touch its receiver, and a mutator that returns
`.error` returns no new state at all.  What these statements are worth is decided by the correspondence check, which
re-runs every history on the real objects and compares snapshots of receiver and arguments before and after each
call, on the success and on the exception path (harness/props/C13.py).  The theorems below record the part that IS a
property of the algorithm: which failure causes are detected before anything is modified.
-/
namespace C13

/-- Textgrid mutators (addTier, removeTier, renameTier, replaceTier): a failing step leaves the textgrid unchanged -/
theorem tg_mutator_atomic (g : Tg Int) (op : C12.TgOp) (e : Err) (h : C12.step g op = .error e) :
    C12.run g [op] = g := C12.mutator_atomic g op e h

/-- tier mutators (insertEntry, deleteEntry): a failing step leaves the tier unchanged, along any history -/
theorem tier_mutator_atomic (t : ITier Int) (op : C11.Op) (e : Err) (h : C11.step t op = .error e) :
    C11.run t [op] = t := by
  simp [C11.run, h]

/-- `addTier`: both failure causes (name clash, span change under reportingMode='error') are decided from the
arguments alone, before the tier list or the span is touched -/
theorem addTier_fails_before_mutation (g : Tg Int) (t : AnyTier Int) (idx : Option Int) (rep : Report) (e : Err)
    (h : g.addTier t idx rep = .error e) :
    (t.name ∈ g.names ∧ e = .TierNameExistsError) ∨
    (t.name ∉ g.names ∧ rep = .error ∧ e = .TextgridStateAutoModified) := by
  by_cases hn : t.name ∈ g.names
  · left; rw [C12.addTier_dup g t idx rep hn] at h; cases h; exact ⟨hn, rfl⟩
  · right
    by_cases hr : rep = .error ∧ C12.spanChanges g.lo g.hi t = true
    · obtain ⟨hr1, hr2⟩ := hr
      subst hr1
      rw [C12.addTier_report g t idx hn hr2] at h; cases h; exact ⟨hn, rfl, rfl⟩
    · obtain ⟨g', hg', _⟩ := C12.addTier_spec g t idx rep hn hr
      rw [hg'] at h; cases h

/-- collision in `error` mode is detected before any entry is deleted or added — for ANY entry (any label; a
zero-length or reversed one is refused even earlier, `C11.insert_rejects`) -/
theorem insertEntry_collision_atomic (t : ITier Int) (hwf : t.WF) (x : Iv Int)
    (iv : Iv Int) (hiv : iv ∈ t.es) (hcol : iv.s < x.e ∧ x.s < iv.e) :
    C11.run t [.insert x .error] = t := by
  by_cases hx : x.s < x.e
  · simp [C11.run, C11.step, C11.insert_error t hwf x hx iv hiv hcol]
  · simp [C11.run, C11.step, C11.insert_rejects t x .error (by omega)]

end C13
