/-! # C17 — property theorems (to be filled) -/
