import PraatModel.Extract
import PraatModel.Props.C15
import PraatModel.Props.C16
import PraatModel.Props.C06
import PraatModel.Props.C12

/-!
# C17 — interval-driven audio extraction keeps and drops exactly the marked samples

Everything is about the model `PraatModel/Extract.lean` (which builds on `Audio.lean`, on the
`invertIntervalList` of `Query.lean` and on the `Textgrid.crop` of `Textgrid.lean`).  The times of one
call are integers over a common denominator `den > 0`, so the theorems hold for all rational (hence
all binary64) times, recordings of any length and any positive sample width.

| clause | theorem(s) |
|---|---|
| order of the lists | `readFramesAtTimes_perm`, `computeKeepDelete_perm`, `invert_perm`, `sortIv_sortedDisjoint` (the lists may be given in any order) |
| keep list | `keep_spec` (any order, the empty list included), `keep_empty_regression`, `read_window`, `window_eq_getFrames`, `window_samples` |
| delete list | `invert_eq_complement`, `complement_spec`, `delete_spec`, `delete_eq_keep_complement` |
| replacement | `replace_keep`, `replace_delete` (original length, kept samples at their original position; the duration need not be a sample position) |
| rejection | `both_lists_rejected`, `out_of_range_rejected` (both bounds, any order), `nonpositive_interval_rejected`, `negative_time_regression` |
| not rejected (disjointness is assumed, not enforced) | `overlap_keep_counterexample`, `nested_delete_counterexample`, `nested_out_of_range_counterexample` |
| generators | `silence_length`, `silence_zero`, `sine_length` |
| extractSubwav | `extract_spec` (every `s ≤ e`, clamped into the recording), `extract_reversed` (ArgumentError), `extract_outside`, `extract_eq_getSubwav` |
| splitAudioOnTier | `split_one_per_entry`, `split_names_nodup`, `split_frames`, `split_entry_outside`, `split_tg_span`, `split_tg_label` |
-/
open Audio Extract
namespace C17

/-! ## 1. the order of the marked intervals -/

theorem le_iff (a b : Marked) :
    Marked.le a b = true ↔
      a.s < b.s ∨ (a.s = b.s ∧ (a.e < b.e ∨ (a.e = b.e ∧ (a.keep = true → b.keep = true)))) := by
  obtain ⟨as, ae, ak⟩ := a; obtain ⟨bs, be, bk⟩ := b
  simp only [Marked.le]
  by_cases h1 : as < bs
  · simp [h1]
  · by_cases h2 : bs < as
    · simp [h1, h2]; omega
    · have : as = bs := by omega
      subst this
      by_cases h3 : ae < be
      · simp [h3]
      · by_cases h4 : be < ae
        · simp [h3, h4]; omega
        · have : ae = be := by omega
          subst this
          cases ak <;> cases bk <;> simp

theorem le_trans (a b c : Marked) (h1 : Marked.le a b = true) (h2 : Marked.le b c = true) : Marked.le a c = true := by
  rw [le_iff] at *
  rcases h1 with h1 | ⟨h1, h1' | ⟨h1', h1''⟩⟩ <;> rcases h2 with h2 | ⟨h2, h2' | ⟨h2', h2''⟩⟩
  all_goals first
    | (left; omega)
    | (right; refine ⟨by omega, ?_⟩; first | (left; omega) | (right; exact ⟨by omega, fun h => h2'' (h1'' h)⟩))

theorem le_total (a b : Marked) : (Marked.le a b || Marked.le b a) = true := by
  rw [Bool.or_eq_true, le_iff, le_iff]
  rcases Int.lt_trichotomy a.s b.s with h | h | h
  · left; left; exact h
  · rcases Int.lt_trichotomy a.e b.e with h' | h' | h'
    · left; right; exact ⟨h, Or.inl h'⟩
    · cases hk : a.keep
      · left; right; exact ⟨h, Or.inr ⟨h', by simp⟩⟩
      · right; right; exact ⟨h.symm, Or.inr ⟨h'.symm, fun _ => rfl⟩⟩
    · right; right; exact ⟨h.symm, Or.inl h'⟩
  · right; left; exact h

theorem le_antisymm (a b : Marked) (h1 : Marked.le a b = true) (h2 : Marked.le b a = true) : a = b := by
  rw [le_iff] at h1 h2
  obtain ⟨as, ae, ak⟩ := a; obtain ⟨bs, be, bk⟩ := b
  simp only at h1 h2
  have hs : as = bs := by omega
  subst hs
  have he : ae = be := by omega
  subst he
  have hk : ak = bk := by
    rcases h1 with h1 | ⟨_, h1 | ⟨_, h1⟩⟩ <;> rcases h2 with h2 | ⟨_, h2 | ⟨_, h2⟩⟩ <;> try omega
    cases ak <;> cases bk <;> simp_all
  subst hk; rfl

/-- a list sorted by the tuple order that has the same members as the input *is* the sorted input -/
theorem mergeSort_eq_of_sorted_perm (l t : List Marked) (hp : l.Perm t) (hs : t.Pairwise (fun a b => Marked.le a b = true)) :
    l.mergeSort Marked.le = t := by
  apply List.Perm.eq_of_pairwise (le := fun a b => Marked.le a b = true)
  · intro a b _ _ h1 h2; exact le_antisymm a b h1 h2
  · exact List.pairwise_mergeSort (fun a b c => le_trans a b c) le_total l
  · exact hs
  · exact (List.mergeSort_perm l Marked.le).trans hp

/-! ## 2. chains, the complement, the time-ordered tiling -/

/-- `L` is a list of positive-length intervals, sorted, pairwise disjoint (touching allowed), inside `[a, b]` -/
def InChain : Int → List (Int × Int) → Int → Prop
  | a, [], b => a ≤ b
  | a, p :: rest, b => a ≤ p.1 ∧ p.1 < p.2 ∧ InChain p.2 rest b

/-- the same, in the vocabulary of the property: positive, within `[lo, hi]`, sorted and disjoint -/
def SortedDisjoint (L : List (Int × Int)) (lo hi : Int) : Prop :=
  lo ≤ hi ∧ (∀ p ∈ L, p.1 < p.2 ∧ lo ≤ p.1 ∧ p.2 ≤ hi) ∧ L.Pairwise (fun x y => x.2 ≤ y.1)

instance (L : List (Int × Int)) (lo hi : Int) : Decidable (SortedDisjoint L lo hi) :=
  inferInstanceAs (Decidable (_ ∧ _ ∧ _))

theorem inChain_of_sortedDisjoint (L : List (Int × Int)) (lo hi : Int) (h : SortedDisjoint L lo hi) : InChain lo L hi := by
  obtain ⟨hlh, hin, hpw⟩ := h
  induction L generalizing lo with
  | nil => exact hlh
  | cons p rest ih =>
    obtain ⟨hp1, hp2, hp3⟩ := hin p (by simp)
    obtain ⟨hpr, hrest⟩ := List.pairwise_cons.1 hpw
    refine ⟨hp2, hp1, ih p.2 hp3 ?_ hrest⟩
    intro q hq
    obtain ⟨hq1, _, hq3⟩ := hin q (List.mem_cons_of_mem _ hq)
    exact ⟨hq1, hpr q hq, hq3⟩

theorem InChain.le : ∀ {a : Int} {L : List (Int × Int)} {b : Int}, InChain a L b → a ≤ b
  | _, [], _, h => h
  | _, p :: rest, _, ⟨h1, h2, h3⟩ => by have := InChain.le h3; omega

/-- the gaps of `[a, b]` not covered by `L`, in time order (no empty piece) -/
def complement : Int → List (Int × Int) → Int → List (Int × Int)
  | a, [], b => if a < b then [(a, b)] else []
  | a, p :: rest, b => (if a < p.1 then [(a, p.1)] else []) ++ complement p.2 rest b

/-- `[a, b]` cut at the intervals of `L`, in time order: the members of `L` carry the label `inner`,
the gaps the opposite label -/
def tiling (inner : Bool) : Int → List (Int × Int) → Int → List Marked
  | a, [], b => if a < b then [⟨a, b, !inner⟩] else []
  | a, p :: rest, b => (if a < p.1 then [⟨a, p.1, !inner⟩] else []) ++ ⟨p.1, p.2, inner⟩ :: tiling inner p.2 rest b

/-- consecutive pieces of positive length from `a` to `b` -/
def Tiles : Int → List Marked → Int → Prop
  | a, [], b => a = b
  | a, m :: rest, b => m.s = a ∧ m.s < m.e ∧ Tiles m.e rest b

theorem tiling_tiles (inner : Bool) : ∀ (a : Int) (L : List (Int × Int)) (b : Int), InChain a L b → Tiles a (tiling inner a L b) b
  | a, [], b, h => by
    unfold tiling
    by_cases hab : a < b
    · rw [if_pos hab]; exact ⟨rfl, hab, rfl⟩
    · rw [if_neg hab]; show a = b; have : a ≤ b := h; omega
  | a, p :: rest, b, ⟨h1, h2, h3⟩ => by
    unfold tiling
    have ih := tiling_tiles inner p.2 rest b h3
    by_cases hap : a < p.1
    · rw [if_pos hap]; exact ⟨rfl, hap, rfl, h2, ih⟩
    · rw [if_neg hap]
      have : a = p.1 := by omega
      exact ⟨this.symm, h2, ih⟩

theorem Tiles.le : ∀ {a : Int} {ms : List Marked} {b : Int}, Tiles a ms b → a ≤ b
  | _, [], _, h => by have : _ = _ := h; omega
  | _, m :: rest, _, ⟨h1, h2, h3⟩ => by have := Tiles.le h3; omega

theorem Tiles.mem : ∀ {a : Int} {ms : List Marked} {b : Int}, Tiles a ms b → ∀ m ∈ ms, a ≤ m.s ∧ m.s < m.e ∧ m.e ≤ b
  | _, [], _, _, m, hm => by cases hm
  | a, x :: rest, b, ⟨h1, h2, h3⟩, m, hm => by
    rcases List.mem_cons.1 hm with rfl | hm
    · have := Tiles.le h3; omega
    · have := Tiles.mem h3 m hm; omega

theorem Tiles.getLast : ∀ {a : Int} {ms : List Marked} {b : Int}, Tiles a ms b → ∀ m, ms.getLast? = some m → m.e = b
  | _, [], _, _, m, hm => by simp at hm
  | a, [x], b, ⟨h1, h2, h3⟩, m, hm => by
    simp at hm; subst hm; exact h3
  | a, x :: y :: rest, b, ⟨h1, h2, h3⟩, m, hm => by
    rw [List.getLast?_cons_cons] at hm
    exact Tiles.getLast h3 m hm

theorem Tiles.sorted : ∀ {a : Int} {ms : List Marked} {b : Int}, Tiles a ms b → ms.Pairwise (fun x y => Marked.le x y = true)
  | _, [], _, _ => List.Pairwise.nil
  | a, x :: rest, b, ⟨h1, h2, h3⟩ => by
    refine List.pairwise_cons.2 ⟨?_, Tiles.sorted h3⟩
    intro y hy
    have := Tiles.mem h3 y hy
    rw [le_iff]; left; omega

def mk (lab : Bool) (p : Int × Int) : Marked := ⟨p.1, p.2, lab⟩

theorem markKeep_eq : markKeep = mk true := rfl
theorem markDelete_eq : markDelete = mk false := rfl

theorem tiling_filter_inner (inner : Bool) : ∀ (a : Int) (L : List (Int × Int)) (b : Int),
    (tiling inner a L b).filter (fun m => m.keep == inner) = L.map (mk inner)
  | a, [], b => by unfold tiling; split <;> simp
  | a, p :: rest, b => by
    unfold tiling
    rw [List.filter_append, List.filter_cons]
    have ih := tiling_filter_inner inner p.2 rest b
    split <;> simp [ih, mk]

theorem tiling_filter_outer (inner : Bool) : ∀ (a : Int) (L : List (Int × Int)) (b : Int),
    (tiling inner a L b).filter (fun m => !(m.keep == inner)) = (complement a L b).map (mk (!inner))
  | a, [], b => by unfold tiling complement; split <;> simp [mk]
  | a, p :: rest, b => by
    unfold tiling complement
    rw [List.filter_append, List.filter_cons]
    have ih := tiling_filter_outer inner p.2 rest b
    split <;> simp [ih, mk]

/-- the members of `L` labelled `inner` plus the gaps labelled `!inner` are the pieces of the tiling -/
theorem tiling_perm (inner : Bool) (a : Int) (L : List (Int × Int)) (b : Int) :
    (L.map (mk inner) ++ (complement a L b).map (mk (!inner))).Perm (tiling inner a L b) := by
  rw [← tiling_filter_inner inner a L b, ← tiling_filter_outer inner a L b]
  exact List.filter_append_perm _ _

/-- **the sorted list of marked intervals is the time-ordered tiling** (keep list given): whatever the order in
which the kept intervals `K` (the members of the chain `L`) and the gaps `G` are handed to `sorted` -/
theorem sortMarked_keep (a : Int) (L : List (Int × Int)) (b : Int) (h : InChain a L b)
    (K G : List (Int × Int)) (hK : K.Perm L) (hG : G.Perm (complement a L b)) :
    sortMarked K G = tiling true a L b := by
  unfold sortMarked
  rw [markKeep_eq, markDelete_eq]
  exact mergeSort_eq_of_sorted_perm _ _ (((hK.map _).append (hG.map _)).trans (tiling_perm true a L b))
    (tiling_tiles true a L b h).sorted

/-- … (delete list given) -/
theorem sortMarked_delete (a : Int) (L : List (Int × Int)) (b : Int) (h : InChain a L b)
    (G D : List (Int × Int)) (hG : G.Perm (complement a L b)) (hD : D.Perm L) :
    sortMarked G D = tiling false a L b := by
  unfold sortMarked
  rw [markKeep_eq, markDelete_eq]
  refine mergeSort_eq_of_sorted_perm _ _ ?_ (tiling_tiles false a L b h).sorted
  exact ((hG.map _).append (hD.map _)).trans (List.perm_append_comm.trans (tiling_perm false a L b))

/-- the marked list depends only on the members of the two lists, not on their order (`sorted` of tuples is a
total order without ties between different tuples) -/
theorem sortMarked_perm {K K' D D' : List (Int × Int)} (hK : K.Perm K') (hD : D.Perm D') :
    sortMarked K D = sortMarked K' D' := by
  unfold sortMarked
  exact mergeSort_eq_of_sorted_perm _ _
    (((hK.map _).append (hD.map _)).trans (List.mergeSort_perm _ _).symm)
    (List.pairwise_mergeSort (fun a b c => le_trans a b c) le_total _)

/-! ## 3. the order in which the intervals are given does not matter

`utils.invertIntervalList` sorts its input and `_computeKeepDeleteIntervals` sorts the marked intervals, so every
result below depends only on the *members* of the keep / delete list.  A list of pairwise disjoint intervals in any
order (`DisjointIn`) is therefore treated like its time-ordered arrangement `sortIv`. -/

theorem pairLe_iff (a b : Int × Int) : pairLe a b = true ↔ a.1 < b.1 ∨ (a.1 = b.1 ∧ a.2 ≤ b.2) := by
  simp only [pairLe]
  by_cases h1 : a.1 < b.1
  · simp [h1]
  · by_cases h2 : b.1 < a.1
    · simp [h1, h2]; omega
    · simp [h1, h2]; omega

theorem pairLe_trans (a b c : Int × Int) (h1 : pairLe a b = true) (h2 : pairLe b c = true) : pairLe a c = true := by
  rw [pairLe_iff] at *; omega

theorem pairLe_total (a b : Int × Int) : (pairLe a b || pairLe b a) = true := by
  rw [Bool.or_eq_true, pairLe_iff, pairLe_iff]; omega

theorem pairLe_antisymm (a b : Int × Int) (h1 : pairLe a b = true) (h2 : pairLe b a = true) : a = b := by
  rw [pairLe_iff] at h1 h2
  exact Prod.ext (by omega) (by omega)

/-- the intervals in time order: Python's `sorted` on `(start, end)` tuples -/
def sortIv (L : List (Int × Int)) : List (Int × Int) := L.mergeSort pairLe

theorem sortIv_perm (L : List (Int × Int)) : (sortIv L).Perm L := List.mergeSort_perm L pairLe

theorem sortIv_sorted (L : List (Int × Int)) : (sortIv L).Pairwise (fun a b => pairLe a b = true) :=
  List.pairwise_mergeSort (fun a b c => pairLe_trans a b c) pairLe_total L

theorem sortIv_nil : sortIv [] = [] := by simp [sortIv]

theorem sortIv_ne_nil {L : List (Int × Int)} (h : L ≠ []) : sortIv L ≠ [] := by
  intro h0
  have hl := (sortIv_perm L).length_eq
  rw [h0] at hl
  exact h (List.eq_nil_of_length_eq_zero hl.symm)

theorem sortIv_eq_of_perm {L L' : List (Int × Int)} (h : L.Perm L') : sortIv L = sortIv L' := by
  apply List.Perm.eq_of_pairwise (le := fun a b => pairLe a b = true)
  · intro a b _ _ h1 h2; exact pairLe_antisymm a b h1 h2
  · exact sortIv_sorted L
  · exact sortIv_sorted L'
  · exact ((sortIv_perm L).trans h).trans (sortIv_perm L').symm

/-- a list that is already in time order (positive lengths, each interval ending before the next starts) is its
own sorted arrangement -/
theorem sortIv_of_sorted (L : List (Int × Int)) (hpos : ∀ p ∈ L, p.1 < p.2) (hpw : L.Pairwise (fun x y => x.2 ≤ y.1)) :
    sortIv L = L :=
  List.mergeSort_of_pairwise (C15.pairLe_of_chain _ hpos hpw)

/-- `L` is a list of positive-length, pairwise disjoint (touching allowed) intervals inside `[lo, hi]`, **in any
order** — the property's "list of disjoint intervals" -/
def DisjointIn (L : List (Int × Int)) (lo hi : Int) : Prop :=
  lo ≤ hi ∧ (∀ p ∈ L, p.1 < p.2 ∧ lo ≤ p.1 ∧ p.2 ≤ hi) ∧ L.Pairwise (fun x y => x.2 ≤ y.1 ∨ y.2 ≤ x.1)

instance (L : List (Int × Int)) (lo hi : Int) : Decidable (DisjointIn L lo hi) :=
  inferInstanceAs (Decidable (_ ∧ _ ∧ _))

theorem disjointIn_of_sortedDisjoint (L : List (Int × Int)) (lo hi : Int) (h : SortedDisjoint L lo hi) :
    DisjointIn L lo hi :=
  ⟨h.1, h.2.1, h.2.2.imp (fun h => Or.inl h)⟩

/-- sorting pairwise disjoint intervals of positive length puts each one before the start of the next -/
theorem sortIv_chain (L : List (Int × Int)) (hpos : ∀ p ∈ L, p.1 < p.2)
    (hd : L.Pairwise (fun x y => x.2 ≤ y.1 ∨ y.2 ≤ x.1)) : (sortIv L).Pairwise (fun x y => x.2 ≤ y.1) := by
  have hd' : (sortIv L).Pairwise (fun x y => x.2 ≤ y.1 ∨ y.2 ≤ x.1) :=
    (List.Perm.pairwise_iff (fun h => h.symm) (sortIv_perm L)).2 hd
  refine List.Pairwise.imp_of_mem ?_ (hd'.and (sortIv_sorted L))
  intro x y hx hy h
  obtain ⟨h1, h2⟩ := h
  have := hpos x ((sortIv_perm L).mem_iff.1 hx)
  have := hpos y ((sortIv_perm L).mem_iff.1 hy)
  rw [pairLe_iff] at h2
  omega

/-- **a list of disjoint intervals in any order, sorted, is a sorted disjoint list** -/
theorem sortIv_sortedDisjoint (L : List (Int × Int)) (lo hi : Int) (h : DisjointIn L lo hi) :
    SortedDisjoint (sortIv L) lo hi :=
  ⟨h.1, fun p hp => h.2.1 p ((sortIv_perm L).mem_iff.1 hp), sortIv_chain L (fun p hp => (h.2.1 p hp).1) h.2.2⟩

/-- `utils.invertIntervalList` depends only on the members of its input (it sorts first) -/
theorem invert_perm {L L' : List (Int × Int)} (h : L.Perm L') (lo hi : Option Int) :
    invertIntervalList L lo hi = invertIntervalList L' lo hi := by
  have hs : L.mergeSort pairLe = L'.mergeSort pairLe := sortIv_eq_of_perm h
  unfold invertIntervalList
  rw [h.any_eq, hs]

/-- **`_computeKeepDeleteIntervals` depends only on the members of the keep list and of the delete list** -/
theorem computeKeepDelete_perm (a b : Int) {K K' D D' : List (Int × Int)} (hK : K.Perm K') (hD : D.Perm D') :
    computeKeepDelete a b (some K) D = computeKeepDelete a b (some K') D' := by
  have e1 : ∀ kk, sortMarked kk D = sortMarked kk D' := fun kk => sortMarked_perm (List.Perm.refl _) hD
  have e2 : ∀ d, sortMarked K d = sortMarked K' d := fun d => sortMarked_perm hK (List.Perm.refl _)
  unfold computeKeepDelete
  simp only [Option.getD_some, Option.isNone_some, hK.isEmpty_eq, hD.isEmpty_eq, invert_perm hD, invert_perm hK, e1, e2]

theorem computeKeepDelete_perm_none (a b : Int) {D D' : List (Int × Int)} (hD : D.Perm D') :
    computeKeepDelete a b none D = computeKeepDelete a b none D' := by
  have e1 : ∀ kk, sortMarked kk D = sortMarked kk D' := fun kk => sortMarked_perm (List.Perm.refl _) hD
  unfold computeKeepDelete
  simp only [Option.getD_none, hD.isEmpty_eq, invert_perm hD, e1]

/-- **`readFramesAtTimes` depends only on the members of the keep list and of the delete list** -/
theorem readFramesAtTimes_perm (den : Nat) (f : WavFile) (dur : Int) (gen : Option (Int → List UInt8))
    {K K' D D' : List (Int × Int)} (hK : K.Perm K') (hD : D.Perm D') :
    readFramesAtTimes den f dur (some K) D gen = readFramesAtTimes den f dur (some K') D' gen ∧
    readFramesAtTimes den f dur none D gen = readFramesAtTimes den f dur none D' gen := by
  unfold readFramesAtTimes
  rw [computeKeepDelete_perm 0 dur hK hD, computeKeepDelete_perm_none 0 dur hD]
  exact ⟨rfl, rfl⟩

/-! ## 3b. `invertIntervalList` on a chain is the complement -/

/-- end of the last interval of `(_, e) :: L` -/
def lastEnd : Int → List (Int × Int) → Int
  | e, [] => e
  | _, p :: rest => lastEnd p.2 rest

theorem getLast_lastEnd : ∀ (x : Int × Int) (L : List (Int × Int)), ∃ g, (x :: L).getLast? = some g ∧ g.2 = lastEnd x.2 L
  | x, [] => ⟨x, by simp, rfl⟩
  | x, p :: rest => by
    obtain ⟨g, hg, hg2⟩ := getLast_lastEnd p rest
    exact ⟨g, by rw [List.getLast?_cons_cons]; exact hg, hg2⟩

/-- the gaps after a first element ending at `e`, with the garbage tail `(b, b+1)` when the last end is before `b` -/
theorem gaps2_chain : ∀ (x : Int × Int) (L : List (Int × Int)) (b : Int), InChain x.2 L b →
    C15.gaps2 (x :: L ++ (if lastEnd x.2 L < b then [(b, b)] else [])) = complement x.2 L b
  | x, [], b, h => by
    have hle : x.2 ≤ b := h
    unfold complement lastEnd
    by_cases hlt : x.2 < b
    · rw [if_pos hlt, if_pos hlt]
      show C15.gaps2 [x, (b, b)] = _
      rw [C15.gaps2_cons2]
      have : ¬ x.2 = b := by omega
      simp [this, C15.gaps2]
    · rw [if_neg hlt, if_neg hlt]; simp [C15.gaps2]
  | x, p :: rest, b, ⟨h1, h2, h3⟩ => by
    have ih := gaps2_chain p rest b h3
    show C15.gaps2 (x :: p :: (rest ++ _)) = _
    rw [C15.gaps2_cons2]
    unfold complement
    have hl : lastEnd x.2 (p :: rest) = lastEnd p.2 rest := rfl
    rw [hl]
    have ih' : C15.gaps2 (p :: (rest ++ if lastEnd p.2 rest < b then [(b, b)] else [])) = complement p.2 rest b := ih
    rw [ih']
    by_cases hxp : x.2 < p.1
    · rw [if_pos hxp, if_neg (by omega)]
    · rw [if_neg hxp, if_pos (by omega)]

theorem chain_pairwise : ∀ (a : Int) (L : List (Int × Int)) (b : Int), InChain a L b →
    (∀ p ∈ L, p.1 < p.2 ∧ a ≤ p.1) ∧ L.Pairwise (fun x y => x.2 ≤ y.1)
  | _, [], _, _ => ⟨by simp, List.Pairwise.nil⟩
  | a, p :: rest, b, ⟨h1, h2, h3⟩ => by
    obtain ⟨ih1, ih2⟩ := chain_pairwise p.2 rest b h3
    refine ⟨?_, List.pairwise_cons.2 ⟨fun q hq => (ih1 q hq).2, ih2⟩⟩
    intro q hq
    rcases List.mem_cons.1 hq with rfl | hq
    · exact ⟨h2, h1⟩
    · have := ih1 q hq; omega

/-- **`utils.invertIntervalList` on sorted disjoint intervals inside `[a, b]` returns exactly the gaps**, in
order: nothing for touching neighbours, nothing before an interval starting at `a` or after one ending at `b` -/
theorem invert_eq_complement_sorted (a : Int) (L : List (Int × Int)) (b : Int) (h : InChain a L b) (hne : L ≠ []) :
    invertIntervalList L (some a) (some b) = .ok (complement a L b) := by
  obtain ⟨f, rest, rfl⟩ : ∃ f rest, L = f :: rest := by
    cases L with
    | nil => exact absurd rfl hne
    | cons f rest => exact ⟨f, rest, rfl⟩
  obtain ⟨hpos, hpw⟩ := chain_pairwise a _ b h
  obtain ⟨h1, h2, h3⟩ := h
  obtain ⟨g, hg, hg2⟩ := getLast_lastEnd f rest
  have hsort : (f :: rest).mergeSort pairLe = f :: rest :=
    List.mergeSort_of_pairwise (C15.pairLe_of_chain _ (fun p hp => (hpos p hp).1) hpw)
  have hcall : invertIntervalList (f :: rest) (some a) (some b) =
      .ok (C15.gaps2 ((if a < f.1 then [(a, a)] else []) ++ (f :: rest) ++ (if g.2 < b then [(b, b)] else []))) := by
    unfold invertIntervalList
    rw [if_neg]
    · simp only [hsort, hg, List.head?_cons]
      rfl
    · simp only [List.any_eq_true, Bool.not_eq_true', decide_eq_false_iff_not, not_exists, not_and, Decidable.not_not]
      exact fun p hp => (hpos p hp).1
  rw [hcall, hg2]
  congr 1
  by_cases haf : a < f.1
  · rw [if_pos haf]
    exact gaps2_chain (a, a) (f :: rest) b ⟨h1, h2, h3⟩
  · rw [if_neg haf]
    have := gaps2_chain f rest b h3
    unfold complement
    rw [if_neg haf]
    exact this

/-- **`utils.invertIntervalList` on disjoint intervals inside `[a, b]`, given in any order, returns exactly the gaps**
of the time-ordered arrangement, in order — also for the empty list on a span of positive length (the one gap
`(a, b)`).  What is left out, the empty list on the empty span `a = b`, returns the zero-length piece `(a, a)`:
`marked_keep_degenerate`. -/
theorem invert_eq_complement (a : Int) (L : List (Int × Int)) (b : Int) (h : DisjointIn L a b) (hne : L ≠ [] ∨ a < b) :
    invertIntervalList L (some a) (some b) = .ok (complement a (sortIv L) b) := by
  rw [invert_perm (sortIv_perm L).symm]
  by_cases hL : L = []
  · subst hL
    have hab : a < b := by
      rcases hne with h | h
      · exact absurd rfl h
      · exact h
    rw [sortIv_nil, C15.invert_empty]
    unfold complement
    rw [if_pos hab]
  · exact invert_eq_complement_sorted a _ b (inChain_of_sortedDisjoint _ _ _ (sortIv_sortedDisjoint L a b h))
      (sortIv_ne_nil hL)

/-- **the complement is what it should be**: its pieces have positive length, lie in `[a, b]`, are sorted and
disjoint, and a time of `[a, b)` lies in exactly one of: an interval of `L`, a piece of the complement -/
theorem complement_spec : ∀ (a : Int) (L : List (Int × Int)) (b : Int), InChain a L b →
    SortedDisjoint (complement a L b) a b ∧
    ∀ x, a ≤ x → x < b → (C15.covers2 L x ∨ C15.covers2 (complement a L b) x) ∧
      ¬ (C15.covers2 L x ∧ C15.covers2 (complement a L b) x)
  | a, [], b, h => by
    have hab : a ≤ b := h
    unfold complement
    by_cases hlt : a < b
    · rw [if_pos hlt]
      refine ⟨⟨hab, by simp; omega, by simp⟩, ?_⟩
      intro x h1 h2
      refine ⟨Or.inr ⟨(a, b), by simp, h1, h2⟩, ?_⟩
      rintro ⟨⟨p, hp, _⟩, _⟩; cases hp
    · rw [if_neg hlt]
      refine ⟨⟨hab, by simp, by simp⟩, ?_⟩
      intro x h1 h2; omega
  | a, p :: rest, b, ⟨h1, h2, h3⟩ => by
    obtain ⟨⟨ihle, ihin, ihpw⟩, ihcov⟩ := complement_spec p.2 rest b h3
    have hpb := InChain.le h3
    obtain ⟨hrpos, _⟩ := chain_pairwise p.2 rest b h3
    unfold complement
    refine ⟨⟨by omega, ?_, ?_⟩, ?_⟩
    · intro q hq
      rcases List.mem_append.1 hq with hq | hq
      · split at hq
        · simp at hq; subst hq; simp only; omega
        · cases hq
      · have := ihin q hq; omega
    · rw [List.pairwise_append]
      refine ⟨by split <;> simp, ihpw, ?_⟩
      intro x hx y hy
      split at hx
      · simp at hx; subst hx
        have := ihin y hy; simp only; omega
      · cases hx
    · intro x hx1 hx2
      by_cases hxp : x < p.1
      · -- in the first gap
        have hgap : (a, p.1) ∈ (if a < p.1 then [(a, p.1)] else []) ++ complement p.2 rest b := by
          rw [if_pos (by omega)]; simp
        refine ⟨Or.inr ⟨(a, p.1), hgap, hx1, hxp⟩, ?_⟩
        rintro ⟨⟨q, hq, hq1, hq2⟩, _⟩
        rcases List.mem_cons.1 hq with rfl | hq
        · omega
        · have := (hrpos q hq).2; omega
      · by_cases hxq : x < p.2
        · refine ⟨Or.inl ⟨p, by simp, by omega, hxq⟩, ?_⟩
          rintro ⟨_, ⟨q, hq, hq1, hq2⟩⟩
          rcases List.mem_append.1 hq with hq | hq
          · split at hq
            · simp at hq; subst hq; simp only at hq2; omega
            · cases hq
          · have := ihin q hq; omega
        · obtain ⟨ih1, ih2⟩ := ihcov x (by omega) hx2
          refine ⟨?_, ?_⟩
          · rcases ih1 with ⟨q, hq, hq'⟩ | ⟨q, hq, hq'⟩
            · exact Or.inl ⟨q, List.mem_cons_of_mem _ hq, hq'⟩
            · exact Or.inr ⟨q, List.mem_append.2 (Or.inr hq), hq'⟩
          · rintro ⟨⟨q, hq, hq1, hq2⟩, ⟨r, hr, hr1, hr2⟩⟩
            have hr' : r ∈ complement p.2 rest b := by
              rcases List.mem_append.1 hr with hr | hr
              · split at hr
                · simp at hr; subst hr; simp only at hr2; omega
                · cases hr
              · exact hr
            rcases List.mem_cons.1 hq with rfl | hq
            · omega
            · exact ih2 ⟨⟨q, hq, hq1, hq2⟩, ⟨r, hr', hr1, hr2⟩⟩


/-! ## 4. the sample index of a time, the window of a kept stretch -/

/-- the sample index `round(rate * t)` of the time `t / den` (as a natural number; times are non-negative) -/
def idx (den rate : Nat) (t : Int) : Nat := (samplesIn den rate t).toNat

/-- the bytes of the samples `[round(rate·s), round(rate·e))` of the file -/
def window (den : Nat) (f : WavFile) (p : Int × Int) : List UInt8 :=
  (f.data.drop (idx den f.rate p.1 * f.width)).take ((idx den f.rate p.2 - idx den f.rate p.1) * f.width)

theorem samplesIn_nonneg (den rate : Nat) (hden : 0 < den) (t : Int) (ht : 0 ≤ t) : 0 ≤ samplesIn den rate t :=
  C16.roundHalfEven_nonneg _ _ hden (Int.mul_nonneg (by omega) ht)

theorem samplesIn_mono (den rate : Nat) (hden : 0 < den) (s t : Int) (h : s ≤ t) : samplesIn den rate s ≤ samplesIn den rate t :=
  C16.roundHalfEven_mono _ _ den hden (Int.mul_le_mul_of_nonneg_left h (by omega))

theorem idx_cast (den rate : Nat) (hden : 0 < den) (t : Int) (ht : 0 ≤ t) : ((idx den rate t : Nat) : Int) = samplesIn den rate t :=
  Int.toNat_of_nonneg (samplesIn_nonneg den rate hden t ht)

theorem idx_mono (den rate : Nat) (hden : 0 < den) (s t : Int) (h : s ≤ t) : idx den rate s ≤ idx den rate t :=
  Int.toNat_le_toNat (samplesIn_mono den rate hden s t h)

theorem idx_zero (den rate : Nat) (hden : 0 < den) : idx den rate 0 = 0 := by
  unfold idx samplesIn
  rw [Int.mul_zero, C16.roundHalfEven_zero den hden]; rfl

/-- a time on a sample position: `rate · t / den` is the integer `m` -/
def OnGrid (den rate : Nat) (t : Int) : Prop := ∃ m : Int, (rate : Int) * t = m * den

theorem samplesIn_onGrid (den rate : Nat) (hden : 0 < den) (t m : Int) (h : (rate : Int) * t = m * den) :
    samplesIn den rate t = m := by
  unfold samplesIn; rw [h]; exact C16.roundHalfEven_exact m den hden

theorem window_length (den : Nat) (f : WavFile) (p : Int × Int) (h2 : idx den f.rate p.2 ≤ f.nframes) :
    (window den f p).length = (idx den f.rate p.2 - idx den f.rate p.1) * f.width := by
  unfold window
  rw [List.length_take, List.length_drop]
  have hlen : f.nframes * f.width ≤ f.data.length := Nat.div_mul_le_self _ _
  have hB : idx den f.rate p.2 * f.width ≤ f.data.length := Nat.le_trans (Nat.mul_le_mul_right _ h2) hlen
  rw [Nat.sub_mul]
  omega

/-- `setpos(a); readframes(max(b - a, 0))` for a position `a` of the file -/
theorem readAt_window (f : WavFile) (a b : Int) (hs : 0 ≤ a) (hsn : a ≤ f.nframes) :
    f.readAt a (max (b - a) 0) = .ok ((f.data.drop (a.toNat * f.width)).take ((b.toNat - a.toNat) * f.width)) := by
  unfold WavFile.readAt
  rw [if_neg (by omega)]
  by_cases hle : b ≤ a
  · have hm : max (b - a) 0 = 0 := by omega
    have hz : b.toNat - a.toNat = 0 := by omega
    simp [hm, hz]
  · have hm : max (b - a) 0 = b - a := by omega
    have h1' : ¬ (b - a = 0) := by omega
    have h2' : ¬ (b - a < 0) := by omega
    have h3' : (b - a).toNat = b.toNat - a.toNat := by omega
    rw [hm]
    simp [h1', h2', h3']

/-- the frame index of the time `t / den`, clamped into the file: `min(max(round(rate·t), 0), nframes)`
(`readFramesAtTime` as repaired, commit 3f424d1) -/
def cidx (den : Nat) (f : WavFile) (t : Int) : Nat := clampSample (samplesIn den f.rate t) f.nframes

/-- the bytes of the frames between the two clamped frame indices -/
def cwindow (den : Nat) (f : WavFile) (p : Int × Int) : List UInt8 :=
  (f.data.drop (cidx den f p.1 * f.width)).take ((cidx den f p.2 - cidx den f p.1) * f.width)

/-- **reading a stretch returns the bytes of the samples between the two nearest sample indices of the file** —
for EVERY pair of times, on or off the sample grid, negative, beyond the end, reversed (`e < s` reads nothing).
No hypothesis: `readFramesAtTime` never raises (before the repair 3f424d1 a start index outside `0 … nframes` made
`setpos` raise `wave.Error`). -/
theorem read_window (den : Nat) (f : WavFile) (s e : Int) :
    readFramesAtTime f ⟨s, den⟩ ⟨e, den⟩ = .ok (cwindow den f (s, e)) := by
  have h := readAt_window f ((cidx den f s : Nat) : Int) ((cidx den f e : Nat) : Int) (by omega)
    (by have := C16.clampSample_le (samplesIn den f.rate s) f.nframes; unfold cidx; omega)
  rw [Int.toNat_natCast, Int.toNat_natCast] at h
  exact h

/-- the formerly rejected starts, explicitly: a start index before the first frame reads from the first frame, a
start index beyond the last position reads nothing -/
theorem read_window_outside (den : Nat) (f : WavFile) (s e : Int) :
    (samplesIn den f.rate s ≤ 0 →
      readFramesAtTime f ⟨s, den⟩ ⟨e, den⟩ = .ok (f.data.take (cidx den f e * f.width))) ∧
    ((f.nframes : Int) ≤ samplesIn den f.rate s → readFramesAtTime f ⟨s, den⟩ ⟨e, den⟩ = .ok []) := by
  rw [read_window]
  unfold cwindow
  constructor
  · intro h
    have : cidx den f s = 0 := C16.clampSample_nonpos _ _ h
    simp [this]
  · intro h
    have h1 : cidx den f s = f.nframes := C16.clampSample_beyond _ _ h
    have h2 : cidx den f e ≤ f.nframes := C16.clampSample_le _ _
    have : cidx den f e - cidx den f s = 0 := by omega
    simp [this]

/-- when the end index is inside the file the clamped window is the plain window `[round(rate·s), round(rate·e))` -/
theorem cwindow_eq_window (den : Nat) (f : WavFile) (s e : Int) (h2 : idx den f.rate e ≤ f.nframes) :
    cwindow den f (s, e) = window den f (s, e) := by
  have hce : cidx den f e = idx den f.rate e := by
    unfold cidx clampSample idx at *; omega
  unfold cwindow window
  simp only [hce]
  by_cases hs : idx den f.rate s ≤ f.nframes
  · have hcs : cidx den f s = idx den f.rate s := by
      unfold cidx clampSample idx at *; omega
    rw [hcs]
  · have hcs : cidx den f s = f.nframes := by
      unfold cidx clampSample idx at *; omega
    have z1 : idx den f.rate e - cidx den f s = 0 := by omega
    have z2 : idx den f.rate e - idx den f.rate s = 0 := by omega
    rw [z1, z2]; simp

/-- the form used below: a window `0 ≤ s ≤ e` whose end index is inside the file -/
theorem read_window_in (den : Nat) (hden : 0 < den) (f : WavFile) (s e : Int) (hs : 0 ≤ s) (hse : s ≤ e)
    (he : idx den f.rate e ≤ f.nframes) :
    readFramesAtTime f ⟨s, den⟩ ⟨e, den⟩ = .ok (window den f (s, e)) := by
  rw [read_window, cwindow_eq_window den f s e he]

theorem take_min_drop_min {β} (l : List β) (x y : Nat) :
    (l.take (min y l.length)).drop (min x l.length) = (l.drop x).take (y - x) := by
  have ht : l.take (min y l.length) = l.take y := by
    by_cases h : y ≤ l.length
    · rw [Nat.min_eq_left h]
    · rw [Nat.min_eq_right (by omega), List.take_length, List.take_of_length_le (by omega)]
  rw [ht]
  by_cases hx : x ≤ l.length
  · rw [Nat.min_eq_left hx, List.drop_take]
  · rw [Nat.min_eq_right (by omega), List.drop_eq_nil_of_le (by rw [List.length_take]; omega),
      List.drop_eq_nil_of_le (by omega), List.take_nil]

/-- the Python slice `frames[a*w : b*w]` for non-negative sample indices -/
theorem getB_window (data : List UInt8) (w : Nat) (a b : Int) (hs : 0 ≤ a) (he : 0 ≤ b) :
    getB data (a * w) (b * w) = (data.drop (a.toNat * w)).take ((b.toNat - a.toNat) * w) := by
  have ha : a * (w : Int) = ((a.toNat * w : Nat) : Int) := by
    rw [Int.natCast_mul, Int.toNat_of_nonneg hs]
  have hb : b * (w : Int) = ((b.toNat * w : Nat) : Int) := by
    rw [Int.natCast_mul, Int.toNat_of_nonneg he]
  unfold getB slice
  rw [ha, hb]
  unfold pyClamp
  rw [if_neg (by omega), if_neg (by omega), Int.toNat_natCast, Int.toNat_natCast, take_min_drop_min, Nat.sub_mul]

/-- the window is what `Wav.getFrames` returns for the same times on the recording loaded in memory — for ALL times
(negative, reversed or beyond the end included: both classes clamp the index into the recording) -/
theorem window_eq_getFrames (den : Nat) (f : WavFile) (s e : Int) :
    cwindow den f (s, e) = Wav.getFramesRaw ⟨f.width, f.rate, f.data⟩ ⟨s, den⟩ ⟨e, den⟩ := by
  have h1 := read_window den f s e
  rw [C16.query_eq_wav] at h1
  exact (Except.ok.inj h1).symm

/-- at sample level: the window holds the samples `[round(rate·s), round(rate·e))` of the recording (an end index
inside the file: enforced for every interval of a keep / delete list, `out_of_range_rejected`) -/
theorem window_samples (den : Nat) (f : WavFile) (hw : 0 < f.width) (p : Int × Int) (h2 : idx den f.rate p.2 ≤ f.nframes) :
    unpack f.width (window den f p) =
      ((unpack f.width f.data).drop (idx den f.rate p.1)).take (idx den f.rate p.2 - idx den f.rate p.1) := by
  by_cases h1 : idx den f.rate p.1 ≤ idx den f.rate p.2
  · have hlen : f.nframes * f.width ≤ f.data.length := Nat.div_mul_le_self _ _
    have hA : idx den f.rate p.1 * f.width ≤ f.data.length :=
      Nat.le_trans (Nat.mul_le_mul_right _ (Nat.le_trans h1 h2)) hlen
    have hB : idx den f.rate p.2 * f.width ≤ f.data.length := Nat.le_trans (Nat.mul_le_mul_right _ h2) hlen
    unfold window
    rw [C16.unpack_take _ _ hw _ (by rw [List.length_drop, Nat.sub_mul]; omega), C16.unpack_drop _ _ hw _ hA]
  · have hz : idx den f.rate p.2 - idx den f.rate p.1 = 0 := by omega
    unfold window
    rw [hz]
    simp [unpack, unpackN]

/-! ## 5. assembling the result -/

theorem assemble_none_filter (den : Nat) (f : WavFile) : ∀ ms : List Marked,
    assemble den f none ms = assemble den f none (ms.filter (fun m => m.keep))
  | [] => rfl
  | m :: rest => by
    have ih := assemble_none_filter den f rest
    cases hk : m.keep
    · rw [List.filter_cons_of_neg (by simp [hk])]
      simp only [assemble, hk, Bool.false_eq_true, if_false]
      exact ih
    · rw [List.filter_cons_of_pos (by simp [hk])]
      simp only [assemble, hk, if_true, ih]

/-- kept stretches inside the file are read in order -/
theorem assemble_keeps (den : Nat) (hden : 0 < den) (f : WavFile) (gen : Option (Int → List UInt8)) :
    ∀ L : List (Int × Int), (∀ p ∈ L, 0 ≤ p.1 ∧ p.1 ≤ p.2 ∧ idx den f.rate p.2 ≤ f.nframes) →
      assemble den f gen (L.map (mk true)) = .ok (L.flatMap (window den f))
  | [], _ => rfl
  | p :: rest, h => by
    obtain ⟨h1, h2, h3⟩ := h p (by simp)
    have ih := assemble_keeps den hden f gen rest (fun q hq => h q (List.mem_cons_of_mem _ hq))
    simp only [List.map_cons, assemble, mk, if_true]
    rw [read_window_in den hden f p.1 p.2 h1 h2 h3, ih]
    simp [List.flatMap_cons]

/-! ## 6. `_computeKeepDeleteIntervals` on well-formed lists: the time-ordered tiling -/

theorem isEmpty_false {β} (l : List β) (h : l ≠ []) : l.isEmpty = false := by
  cases l with
  | nil => exact absurd rfl h
  | cons _ _ => rfl

/-- **keep list** (possibly empty — then nothing is kept): the marked intervals are, in time order, the given
intervals labelled `keep` and the gaps of `[start, stop]` labelled `delete`; touching intervals produce no empty piece -/
theorem marked_keep_sorted (a b : Int) (K : List (Int × Int)) (h : InChain a K b) (hne : K ≠ [] ∨ a < b) :
    computeKeepDelete a b (some K) [] = .ok (tiling true a K b) := by
  by_cases hK : K = []
  · subst hK
    have hab : a < b := by
      rcases hne with h | h
      · exact absurd rfl h
      · exact h
    unfold computeKeepDelete
    simp only [Option.getD_some, List.isEmpty_nil, Bool.not_true, Bool.false_and, Option.isNone_some,
      Bool.false_eq_true, if_false]
    rw [C15.invert_empty]
    simp only
    unfold sortMarked tiling
    rw [if_pos hab]
    simp [markDelete]
  · unfold computeKeepDelete
    simp only [Option.getD_some, isEmpty_false K hK, List.isEmpty_nil, Bool.not_false, Bool.not_true, Bool.and_false,
      Bool.false_and, Option.isNone_some, Bool.false_eq_true, if_false]
    rw [invert_eq_complement_sorted a K b h hK]
    simp only
    rw [sortMarked_keep a K b h _ _ (List.Perm.refl _) (List.Perm.refl _)]

/-- the degenerate case: an empty keep list on an empty span -/
theorem marked_keep_degenerate (a : Int) : computeKeepDelete a a (some []) [] = .ok [⟨a, a, false⟩] := by
  unfold computeKeepDelete
  simp only [Option.getD_some, List.isEmpty_nil, Bool.not_true, Bool.false_and, Option.isNone_some,
    Bool.false_eq_true, if_false]
  rw [C15.invert_empty]
  simp only
  unfold sortMarked
  simp [markDelete]

/-- **delete list** (no keep list, or an empty one): the given intervals labelled `delete`, the gaps labelled `keep` -/
theorem marked_delete_sorted (a b : Int) (keep : Option (List (Int × Int))) (hk : keep.getD [] = [])
    (D : List (Int × Int)) (h : InChain a D b) (hne : D ≠ []) :
    computeKeepDelete a b keep D = .ok (tiling false a D b) := by
  unfold computeKeepDelete
  simp only [hk, isEmpty_false D hne, List.isEmpty_nil, Bool.not_false, Bool.not_true, Bool.and_false,
    Bool.and_true, Bool.false_eq_true, if_false, if_true]
  rw [invert_eq_complement_sorted a D b h hne]
  simp only
  rw [sortMarked_delete a D b h _ _ (List.Perm.refl _) (List.Perm.refl _)]

/-- no keep list and no (or an empty) delete list: everything is kept -/
theorem marked_none (a b : Int) : computeKeepDelete a b none [] = .ok [⟨a, b, true⟩] := by
  unfold computeKeepDelete sortMarked
  simp [markKeep]

/-- **keep list, any order** (possibly empty — then nothing is kept): the marked intervals are, in time order, the
given intervals labelled `keep` and the gaps of `[start, stop]` labelled `delete`; touching intervals produce no empty
piece.  (The empty list on an empty span: `marked_keep_degenerate`.) -/
theorem marked_keep (a b : Int) (K : List (Int × Int)) (h : DisjointIn K a b) (hne : K ≠ [] ∨ a < b) :
    computeKeepDelete a b (some K) [] = .ok (tiling true a (sortIv K) b) := by
  rw [computeKeepDelete_perm a b (sortIv_perm K).symm (List.Perm.refl [])]
  exact marked_keep_sorted a b _ (inChain_of_sortedDisjoint _ _ _ (sortIv_sortedDisjoint K a b h))
    (hne.imp sortIv_ne_nil id)

/-- **delete list, any order** (no keep list, or an empty one): the given intervals labelled `delete`, the gaps
labelled `keep`.  (A non-empty keep list as well: `both_lists_rejected`; an empty delete list: `marked_none`,
`marked_keep`.) -/
theorem marked_delete (a b : Int) (keep : Option (List (Int × Int))) (hk : keep.getD [] = [])
    (D : List (Int × Int)) (h : DisjointIn D a b) (hne : D ≠ []) :
    computeKeepDelete a b keep D = .ok (tiling false a (sortIv D) b) := by
  have hc := inChain_of_sortedDisjoint _ _ _ (sortIv_sortedDisjoint D a b h)
  have key := marked_delete_sorted a b keep hk (sortIv D) hc (sortIv_ne_nil hne)
  rw [← key]
  cases keep with
  | none => exact computeKeepDelete_perm_none a b (sortIv_perm D).symm
  | some K => exact computeKeepDelete_perm a b (List.Perm.refl K) (sortIv_perm D).symm

/-- delete list without a keep list, the empty delete list included when the span has positive length -/
theorem marked_delete_none (a b : Int) (D : List (Int × Int)) (h : DisjointIn D a b) (hne : D ≠ [] ∨ a < b) :
    computeKeepDelete a b none D = .ok (tiling false a (sortIv D) b) := by
  by_cases hL : D = []
  · subst hL
    have hab : a < b := by
      rcases hne with h | h
      · exact absurd rfl h
      · exact h
    rw [marked_none, sortIv_nil]
    unfold tiling
    rw [if_pos hab]; rfl
  · exact marked_delete a b none rfl D h hL

/-- the partition statement of the design: for a keep (delete) list of disjoint intervals inside `[start, stop]`, in
any order, the result tiles `[start, stop]` in time order with pieces of positive length, the given intervals carry
the list's label, the gaps the other one.  The empty list is included when the span has positive length (for the
empty span see `marked_keep_degenerate`: the one piece then has length zero). -/
theorem keepdelete_partition (a b : Int) (L : List (Int × Int)) (h : DisjointIn L a b) (hne : L ≠ [] ∨ a < b) :
    (∃ ms, computeKeepDelete a b (some L) [] = .ok ms ∧ Tiles a ms b ∧
        ms.filter (fun m => m.keep) = (sortIv L).map markKeep ∧
        ms.filter (fun m => !m.keep) = (complement a (sortIv L) b).map markDelete) ∧
    (∃ ms, computeKeepDelete a b none L = .ok ms ∧ Tiles a ms b ∧
        ms.filter (fun m => !m.keep) = (sortIv L).map markDelete ∧
        ms.filter (fun m => m.keep) = (complement a (sortIv L) b).map markKeep) := by
  have hc := inChain_of_sortedDisjoint _ a b (sortIv_sortedDisjoint L a b h)
  rw [markKeep_eq, markDelete_eq]
  refine ⟨⟨_, marked_keep a b L h hne, tiling_tiles true a _ b hc, ?_, ?_⟩,
    ⟨_, marked_delete_none a b L h hne, tiling_tiles false a _ b hc, ?_, ?_⟩⟩
  · have := tiling_filter_inner true a (sortIv L) b; simpa using this
  · have := tiling_filter_outer true a (sortIv L) b; simpa using this
  · have := tiling_filter_inner false a (sortIv L) b; simpa using this
  · have := tiling_filter_outer false a (sortIv L) b; simpa using this

theorem checkBounds_tiles (a b : Int) (ms : List Marked) (h : Tiles a ms b) (hne : ms ≠ []) (ha : 0 ≤ a) :
    checkBounds b ms = .ok () := by
  obtain ⟨m, hm⟩ : ∃ m, ms.getLast? = some m := ⟨_, List.getLast?_eq_some_getLast hne⟩
  have hme := h.getLast m hm
  cases ms with
  | nil => exact absurd rfl hne
  | cons x rest =>
    obtain ⟨hx, _, _⟩ := h
    unfold checkBounds
    rw [hm]
    simp only [List.head?_cons]
    rw [if_neg (by omega)]

/-- what makes `readFramesAtTimes` raise `ArgumentError` after the intervals are marked -/
theorem checkBounds_err (dur : Int) (ms : List Marked)
    (h : (∃ x, ms.head? = some x ∧ x.s < 0) ∨ (∃ m, ms.getLast? = some m ∧ dur < m.e)) :
    checkBounds dur ms = .error (.praat .ArgumentError) := by
  cases ms with
  | nil => rcases h with ⟨x, hx, _⟩ | ⟨m, hm, _⟩ <;> simp at *
  | cons y rest =>
    obtain ⟨l, hl⟩ : ∃ l, (y :: rest).getLast? = some l := ⟨_, List.getLast?_eq_some_getLast (by simp)⟩
    unfold checkBounds
    rw [hl]
    simp only [List.head?_cons]
    rw [if_pos]
    rcases h with ⟨x, hx, hx0⟩ | ⟨m, hm, hmd⟩
    · simp only [List.head?_cons, Option.some.injEq] at hx
      subst hx; exact Or.inl hx0
    · rw [hl] at hm; cases hm; exact Or.inr hmd

theorem tiling_ne_nil (inner : Bool) (a b : Int) (L : List (Int × Int)) (hne : L ≠ [] ∨ a < b) : tiling inner a L b ≠ [] := by
  cases L with
  | nil =>
    have hab : a < b := by
      rcases hne with h | h
      · exact absurd rfl h
      · exact h
    unfold tiling; rw [if_pos hab]; simp
  | cons p rest => unfold tiling; split <;> simp

/-! ## 7. keep list, delete list (no replacement) -/

/-- what is assumed of the duration handed to `_computeKeepDeleteIntervals`: it is not negative and its sample
index is the frame count (true of `nframes / float(frameRate)`, and of the exact quotient).  Not a condition on the
caller's input: `dur` stands for a value the code computes itself from the file header, and the binary64 quotient
satisfies both parts for every frame count below `2^52` (its relative error is at most `2⁻⁵³`, so
`|rate · dur − nframes| < 1/2`: `DurNear`); the differential runs compare the value bit for bit.  Likewise `0 < den` in
the theorems below is the invariant of the representation (times are numerators over a common positive denominator),
not a condition on the times. -/
def DurOk (den : Nat) (f : WavFile) (dur : Int) : Prop := 0 ≤ dur ∧ samplesIn den f.rate dur = f.nframes
instance (den : Nat) (f : WavFile) (dur : Int) : Decidable (DurOk den f dur) := inferInstanceAs (Decidable (_ ∧ _))

theorem idx_dur (den : Nat) (f : WavFile) (dur : Int) (h : DurOk den f dur) : idx den f.rate dur = f.nframes := by
  unfold idx; rw [h.2]; rfl

/-- `keep_spec` for a list given in time order -/
theorem keep_spec_sorted (den : Nat) (hden : 0 < den) (f : WavFile) (dur : Int) (hdur : DurOk den f dur)
    (K : List (Int × Int)) (hK : SortedDisjoint K 0 dur) :
    readFramesAtTimes den f dur (some K) [] none = .ok (K.flatMap (window den f)) := by
  have hc := inChain_of_sortedDisjoint K 0 dur hK
  by_cases hne : K ≠ [] ∨ 0 < dur
  · unfold readFramesAtTimes
    rw [marked_keep_sorted 0 dur K hc hne]
    simp only
    rw [checkBounds_tiles 0 dur _ (tiling_tiles true 0 K dur hc) (tiling_ne_nil true 0 dur K hne) (Int.le_refl _)]
    simp only
    rw [assemble_none_filter]
    have hf := tiling_filter_inner true 0 K dur
    have hf' : (tiling true 0 K dur).filter (fun m => m.keep) = K.map (mk true) := by
      rw [← hf]; congr 1; funext m; simp
    rw [hf']
    apply assemble_keeps den hden f none K
    intro p hp
    obtain ⟨h1, h2, h3⟩ := hK.2.1 p hp
    refine ⟨h2, by omega, ?_⟩
    rw [← idx_dur den f dur hdur]
    exact idx_mono den f.rate hden _ _ h3
  · have hK0 : K = [] := by
      by_cases h : K = []
      · exact h
      · exact absurd (Or.inl h) hne
    have hd0 : dur = 0 := by have := hdur.1; omega
    subst hK0; subst hd0
    unfold readFramesAtTimes
    rw [marked_keep_degenerate]
    rfl

/-- `delete_spec` for a list given in time order -/
theorem delete_spec_sorted (den : Nat) (hden : 0 < den) (f : WavFile) (dur : Int) (hdur : DurOk den f dur)
    (D : List (Int × Int)) (hD : SortedDisjoint D 0 dur) :
    readFramesAtTimes den f dur none D none = .ok ((complement 0 D dur).flatMap (window den f)) := by
  have hc := inChain_of_sortedDisjoint D 0 dur hD
  obtain ⟨hcomp, _⟩ := complement_spec 0 D dur hc
  have hkeeps : assemble den f none ((complement 0 D dur).map (mk true)) = .ok ((complement 0 D dur).flatMap (window den f)) := by
    apply assemble_keeps den hden f none
    intro p hp
    obtain ⟨h1, h2, h3⟩ := hcomp.2.1 p hp
    refine ⟨h2, by omega, ?_⟩
    rw [← idx_dur den f dur hdur]
    exact idx_mono den f.rate hden _ _ h3
  by_cases hne : D = []
  · subst hne
    unfold readFramesAtTimes
    rw [marked_none]
    simp only [checkBounds, List.head?_cons, List.getLast?_singleton]
    rw [if_neg (by omega)]
    simp only
    by_cases h0 : 0 < dur
    · have : complement 0 [] dur = [(0, dur)] := by unfold complement; rw [if_pos h0]
      rw [this] at hkeeps ⊢
      exact hkeeps
    · have hd0 : dur = 0 := by have := hdur.1; omega
      subst hd0
      have : complement 0 [] 0 = [] := by unfold complement; rw [if_neg (by omega)]
      rw [this]
      have := assemble_keeps den hden f none [(0, 0)] (by
        intro p hp; simp at hp; subst hp
        refine ⟨by simp, by simp, ?_⟩
        show idx den f.rate 0 ≤ f.nframes
        rw [idx_zero den f.rate hden]; omega)
      simp only [List.map_cons, List.map_nil, mk] at this
      rw [this]
      simp [window, idx_zero den f.rate hden]
  · unfold readFramesAtTimes
    rw [marked_delete_sorted 0 dur none rfl D hc hne]
    simp only
    rw [checkBounds_tiles 0 dur _ (tiling_tiles false 0 D dur hc) (tiling_ne_nil false 0 dur D (Or.inl hne)) (Int.le_refl _)]
    simp only
    rw [assemble_none_filter]
    have hf := tiling_filter_outer false 0 D dur
    have hf' : (tiling false 0 D dur).filter (fun m => m.keep) = (complement 0 D dur).map (mk true) := by
      have hfun : (fun m : Marked => m.keep) = (fun m => !(m.keep == false)) := by funext m; cases m.keep <;> rfl
      rw [hfun]; exact hf
    rw [hf']
    exact hkeeps

/-- **keep_spec**: for every keep list of disjoint intervals inside `[0, duration]`, **given in any order** — the
empty list included: then nothing is kept — the result is the concatenation, in time order, of the windows of the
kept intervals -/
theorem keep_spec (den : Nat) (hden : 0 < den) (f : WavFile) (dur : Int) (hdur : DurOk den f dur)
    (K : List (Int × Int)) (hK : DisjointIn K 0 dur) :
    readFramesAtTimes den f dur (some K) [] none = .ok ((sortIv K).flatMap (window den f)) := by
  rw [(readFramesAtTimes_perm den f dur none (sortIv_perm K).symm (List.Perm.refl [])).1]
  exact keep_spec_sorted den hden f dur hdur _ (sortIv_sortedDisjoint K 0 dur hK)

/-- **delete_spec**: for every delete list of disjoint intervals inside `[0, duration]`, **given in any order** —
empty, touching, starting at 0, ending at the duration, covering everything — the result is the concatenation, in
time order, of the windows of the complement (`complement_spec`: exactly the gaps) -/
theorem delete_spec (den : Nat) (hden : 0 < den) (f : WavFile) (dur : Int) (hdur : DurOk den f dur)
    (D : List (Int × Int)) (hD : DisjointIn D 0 dur) :
    readFramesAtTimes den f dur none D none = .ok ((complement 0 (sortIv D) dur).flatMap (window den f)) := by
  rw [(readFramesAtTimes_perm den f dur none (List.Perm.refl []) (sortIv_perm D).symm).2]
  exact delete_spec_sorted den hden f dur hdur _ (sortIv_sortedDisjoint D 0 dur hD)

/-- hence: **a delete list is the keep list of its complement** — also when nothing is left to keep -/
theorem delete_eq_keep_complement (den : Nat) (hden : 0 < den) (f : WavFile) (dur : Int) (hdur : DurOk den f dur)
    (D : List (Int × Int)) (hD : DisjointIn D 0 dur) :
    readFramesAtTimes den f dur none D none =
      readFramesAtTimes den f dur (some (complement 0 (sortIv D) dur)) [] none := by
  have hS := sortIv_sortedDisjoint D 0 dur hD
  have hc := inChain_of_sortedDisjoint _ 0 dur hS
  rw [delete_spec den hden f dur hdur D hD,
    keep_spec_sorted den hden f dur hdur _ (complement_spec 0 (sortIv D) dur hc).1]

/-! ## 8. replacement: original length, every kept sample at its original position -/

/-- the contract of a replacement generator: for the duration `d / den` it returns `round(rate · d)` samples -/
def GenOk (den : Nat) (f : WavFile) (gen : Int → List UInt8) : Prop :=
  ∀ d, (gen d).length = (samplesIn den f.rate d).toNat * f.width

/-- the dropped stretch `[s, e]` and what the generator returns for `e − s` have the same number of samples:
`round(rate · (e − s))` is the difference of the two sample indices -/
def SameCount (den rate : Nat) (s e : Int) : Prop :=
  (samplesIn den rate (e - s)).toNat = idx den rate e - idx den rate s

/-- the duration is nearer than half a sample to `nframes / rate`: `|rate · dur − nframes| < 1/2`.  True of the exact
quotient and of the binary64 quotient `nframes / float(frameRate)` the code computes (whose relative error is at most
`2⁻⁵³`), which in general is **not** on a sample position (`3 / 10.0 · 10 ≠ 3` exactly). -/
def DurNear (den : Nat) (f : WavFile) (dur : Int) : Prop :=
  2 * ((f.rate : Int) * dur - (f.nframes : Int) * den) < den ∧
  -(den : Int) < 2 * ((f.rate : Int) * dur - (f.nframes : Int) * den)
instance (den : Nat) (f : WavFile) (dur : Int) : Decidable (DurNear den f dur) := inferInstanceAs (Decidable (_ ∧ _))

theorem tiling_forall (P : Int → Prop) (inner : Bool) : ∀ (a : Int) (L : List (Int × Int)) (b : Int),
    P a → P b → (∀ p ∈ L, P p.1 ∧ P p.2) → ∀ m ∈ tiling inner a L b, P m.s ∧ P m.e
  | a, [], b, ha, hb, _, m, hm => by
    unfold tiling at hm
    split at hm
    · simp at hm; subst hm; exact ⟨ha, hb⟩
    · cases hm
  | a, p :: rest, b, ha, hb, hL, m, hm => by
    unfold tiling at hm
    obtain ⟨hp1, hp2⟩ := hL p (by simp)
    rcases List.mem_append.1 hm with hm | hm
    · split at hm
      · simp at hm; subst hm; exact ⟨ha, hp1⟩
      · cases hm
    · rcases List.mem_cons.1 hm with rfl | hm
      · exact ⟨hp1, hp2⟩
      · exact tiling_forall P inner p.2 rest b hp2 hb (fun q hq => hL q (List.mem_cons_of_mem _ hq)) m hm

theorem onGrid_sub (den rate : Nat) (hden : 0 < den) (s e : Int) (hs0 : 0 ≤ s) (hse : s ≤ e)
    (hs : OnGrid den rate s) (he : OnGrid den rate e) : SameCount den rate s e := by
  obtain ⟨x, hx⟩ := hs
  obtain ⟨y, hy⟩ := he
  have hd : (rate : Int) * (e - s) = (y - x) * den := by rw [Int.mul_sub, Int.sub_mul, hx, hy]
  have h0 := samplesIn_nonneg den rate hden s hs0
  have h1 := samplesIn_mono den rate hden s e hse
  unfold SameCount idx
  rw [samplesIn_onGrid den rate hden _ _ hd, samplesIn_onGrid den rate hden _ _ hx, samplesIn_onGrid den rate hden _ _ hy] at *
  omega

/-- the last dropped stretch ends at the duration, which need not be a sample position: it is enough that the
stretch starts on one -/
theorem sameCount_to_dur (den : Nat) (hden : 0 < den) (f : WavFile) (dur : Int) (hdur : DurOk den f dur)
    (hnear : DurNear den f dur) (s : Int) (hs0 : 0 ≤ s) (hsd : s ≤ dur) (hs : OnGrid den f.rate s) :
    SameCount den f.rate s dur := by
  obtain ⟨x, hx⟩ := hs
  have hsx : samplesIn den f.rate s = x := samplesIn_onGrid den f.rate hden s x hx
  have hx0 : 0 ≤ x := by rw [← hsx]; exact samplesIn_nonneg den f.rate hden s hs0
  have hmono := samplesIn_mono den f.rate hden s dur hsd
  rw [hsx, hdur.2] at hmono
  have key : samplesIn den f.rate (dur - s) = (f.nframes : Int) - x := by
    unfold samplesIn
    apply C16.roundHalfEven_unique _ den hden _ _ (C16.roundHalfEven_spec _ _ hden)
    unfold C16.IsRoundHalfEven
    have e1 : ((f.nframes : Int) - x) * (den : Int) = (f.nframes : Int) * den - x * den := Int.sub_mul _ _ _
    have e2 : (f.rate : Int) * (dur - s) = (f.rate : Int) * dur - (f.rate : Int) * s := Int.mul_sub _ _ _
    rw [e1, e2, hx]
    obtain ⟨n1, n2⟩ := hnear
    refine ⟨by omega, by omega, by omega⟩
  unfold SameCount idx
  rw [key, hsx, hdur.2]
  omega

/-- the general statement over a time-ordered tiling: when every dropped piece is replaced by as many samples as it
spans (`SameCount`), the assembled bytes have the length of the stretch `[a, b]`, and every kept piece sits at its
own offset -/
theorem assemble_tiles (den : Nat) (hden : 0 < den) (f : WavFile) (gen : Int → List UInt8) (hgen : GenOk den f gen) :
    ∀ (ms : List Marked) (a b : Int), Tiles a ms b → 0 ≤ a → idx den f.rate b ≤ f.nframes →
      (∀ m ∈ ms, m.keep = false → SameCount den f.rate m.s m.e) →
      ∃ out, assemble den f (some gen) ms = .ok out ∧
        out.length = (idx den f.rate b - idx den f.rate a) * f.width ∧
        ∀ m ∈ ms, m.keep = true →
          (out.drop ((idx den f.rate m.s - idx den f.rate a) * f.width)).take
              ((idx den f.rate m.e - idx den f.rate m.s) * f.width) = window den f (m.s, m.e)
  | [], a, b, h, _, _, _ => by
    have hab : a = b := h
    subst hab
    exact ⟨[], rfl, by simp, by intro m hm; cases hm⟩
  | ⟨s0, e0, k0⟩ :: rest, a, b, ⟨hs, hlt, hrest⟩, ha, hb, hgrid => by
    simp only at hs hlt hrest
    subst hs
    have heb : e0 ≤ b := Tiles.le hrest
    obtain ⟨out', e1, len', pos'⟩ := assemble_tiles den hden f gen hgen rest e0 b hrest (by omega) hb
      (fun m hm => hgrid m (List.mem_cons_of_mem _ hm))
    have hIae : idx den f.rate s0 ≤ idx den f.rate e0 := idx_mono den f.rate hden _ _ (by omega)
    have hIeb : idx den f.rate e0 ≤ idx den f.rate b := idx_mono den f.rate hden _ _ heb
    -- the first piece and its length
    obtain ⟨piece, hpiece, hpl, hpk⟩ : ∃ piece, assemble den f (some gen) (⟨s0, e0, k0⟩ :: rest) = .ok (piece ++ out') ∧
        piece.length = (idx den f.rate e0 - idx den f.rate s0) * f.width ∧
        (k0 = true → piece = window den f (s0, e0)) := by
      cases k0 with
      | true =>
        refine ⟨window den f (s0, e0), ?_, window_length den f (s0, e0) (Nat.le_trans hIeb hb), fun _ => rfl⟩
        simp only [assemble, if_true]
        rw [read_window_in den hden f s0 e0 ha (by omega) (Nat.le_trans hIeb hb), e1]
      | false =>
        refine ⟨gen (e0 - s0), ?_, ?_, fun h => by cases h⟩
        · simp only [assemble, Bool.false_eq_true, if_false, e1]
        · have hsame : SameCount den f.rate s0 e0 := hgrid ⟨s0, e0, false⟩ (by simp) rfl
          rw [hgen, hsame]
    refine ⟨piece ++ out', hpiece, ?_, ?_⟩
    · rw [List.length_append, hpl, len', ← Nat.add_mul]
      congr 1; omega
    · intro m hm hk
      rcases List.mem_cons.1 hm with rfl | hm
      · simp only [Nat.sub_self, Nat.zero_mul, List.drop_zero]
        rw [List.take_left' hpl]
        exact hpk hk
      · have hm' := Tiles.mem hrest m hm
        have hIem : idx den f.rate e0 ≤ idx den f.rate m.s := idx_mono den f.rate hden _ _ hm'.1
        have hsplit : (idx den f.rate m.s - idx den f.rate s0) * f.width =
            piece.length + (idx den f.rate m.s - idx den f.rate e0) * f.width := by
          rw [hpl, ← Nat.add_mul]; congr 1; omega
        rw [hsplit, List.drop_length_add_append]
        exact pos' m hm hk

theorem onGrid_zero (den rate : Nat) : OnGrid den rate 0 := ⟨0, by simp⟩

/-- every piece of the tiling of `[0, dur]` at intervals with boundaries on sample positions spans as many samples
as `round(rate · length)` — the last one too, although it ends at the duration -/
theorem tiling_sameCount (den : Nat) (hden : 0 < den) (f : WavFile) (dur : Int) (hdur : DurOk den f dur)
    (hnear : DurNear den f dur) (inner : Bool) (L : List (Int × Int)) (hc : InChain 0 L dur)
    (hgrid : ∀ p ∈ L, OnGrid den f.rate p.1 ∧ OnGrid den f.rate p.2) :
    ∀ m ∈ tiling inner 0 L dur, SameCount den f.rate m.s m.e := by
  intro m hm
  obtain ⟨h0, hlt, hle⟩ := Tiles.mem (tiling_tiles inner 0 L dur hc) m hm
  obtain ⟨p1, p2⟩ := tiling_forall (fun t => OnGrid den f.rate t ∨ t = dur) inner 0 L dur
    (Or.inl (onGrid_zero den f.rate)) (Or.inr rfl) (fun p hp => ⟨Or.inl (hgrid p hp).1, Or.inl (hgrid p hp).2⟩) m hm
  have gs : OnGrid den f.rate m.s := by
    rcases p1 with h | h
    · exact h
    · omega
  rcases p2 with ge | ge
  · exact onGrid_sub den f.rate hden m.s m.e h0 (by omega) gs ge
  · rw [ge]; exact sameCount_to_dur den hden f dur hdur hnear m.s h0 (by omega) gs

/-- **replacement, keep list**: with a generator that returns `round(rate · d)` samples and all boundaries of the
given intervals on sample positions, the result has the original length (`nframes` whole samples) and the bytes of
every kept interval are the recording's bytes at the same offset — every kept sample is at its original position.
The list may be given in any order; for the empty keep list the whole recording is replaced.  The duration itself need
not be a sample position (`DurNear`). -/
theorem replace_keep (den : Nat) (hden : 0 < den) (f : WavFile) (dur : Int) (hdur : DurOk den f dur)
    (hnear : DurNear den f dur) (gen : Int → List UInt8) (hgen : GenOk den f gen)
    (K : List (Int × Int)) (hK : DisjointIn K 0 dur)
    (hgrid : ∀ p ∈ K, OnGrid den f.rate p.1 ∧ OnGrid den f.rate p.2) :
    ∃ out, readFramesAtTimes den f dur (some K) [] (some gen) = .ok out ∧
      out.length = f.nframes * f.width ∧
      ∀ p ∈ K, (out.drop (idx den f.rate p.1 * f.width)).take ((idx den f.rate p.2 - idx den f.rate p.1) * f.width) =
        (f.data.drop (idx den f.rate p.1 * f.width)).take ((idx den f.rate p.2 - idx den f.rate p.1) * f.width) := by
  have hc := inChain_of_sortedDisjoint _ 0 dur (sortIv_sortedDisjoint K 0 dur hK)
  have hgridS : ∀ p ∈ sortIv K, OnGrid den f.rate p.1 ∧ OnGrid den f.rate p.2 :=
    fun p hp => hgrid p ((sortIv_perm K).mem_iff.1 hp)
  by_cases hne : K ≠ [] ∨ 0 < dur
  · have hT := tiling_tiles true 0 (sortIv K) dur hc
    obtain ⟨out, e1, len, pos⟩ := assemble_tiles den hden f gen hgen _ 0 dur hT (by omega)
      (by rw [idx_dur den f dur hdur]; omega)
      (fun m hm _ => tiling_sameCount den hden f dur hdur hnear true (sortIv K) hc hgridS m hm)
    refine ⟨out, ?_, ?_, ?_⟩
    · unfold readFramesAtTimes
      rw [marked_keep 0 dur K hK hne]
      simp only
      rw [checkBounds_tiles 0 dur _ hT (tiling_ne_nil true 0 dur _ (hne.imp sortIv_ne_nil id)) (Int.le_refl _)]
      exact e1
    · rw [len, idx_dur den f dur hdur, idx_zero den f.rate hden]; rfl
    · intro p hp
      have hmem : mk true p ∈ tiling true 0 (sortIv K) dur := by
        have : mk true p ∈ (tiling true 0 (sortIv K) dur).filter (fun m => m.keep == true) := by
          rw [tiling_filter_inner]; exact List.mem_map_of_mem ((sortIv_perm K).mem_iff.2 hp)
        exact (List.mem_filter.1 this).1
      have := pos (mk true p) hmem rfl
      simpa [mk, idx_zero den f.rate hden, window] using this
  · have hK0 : K = [] := by
      by_cases h : K = []
      · exact h
      · exact absurd (Or.inl h) hne
    have hd0 : dur = 0 := by have := hdur.1; omega
    subst hK0; subst hd0
    refine ⟨gen 0 ++ [], ?_, ?_, by intro p hp; cases hp⟩
    · unfold readFramesAtTimes
      rw [marked_keep_degenerate]
      rfl
    · have h0 : samplesIn den f.rate 0 = f.nframes := hdur.2
      rw [List.append_nil, hgen 0, h0, Int.toNat_natCast]

/-- **replacement, delete list**: the same for the kept complement of a delete list (any order; empty, touching, at
the edges, covering everything) -/
theorem replace_delete (den : Nat) (hden : 0 < den) (f : WavFile) (dur : Int) (hdur : DurOk den f dur)
    (hnear : DurNear den f dur) (gen : Int → List UInt8) (hgen : GenOk den f gen)
    (D : List (Int × Int)) (hD : DisjointIn D 0 dur)
    (hgrid : ∀ p ∈ D, OnGrid den f.rate p.1 ∧ OnGrid den f.rate p.2) :
    ∃ out, readFramesAtTimes den f dur none D (some gen) = .ok out ∧
      out.length = f.nframes * f.width ∧
      ∀ p ∈ complement 0 (sortIv D) dur,
        (out.drop (idx den f.rate p.1 * f.width)).take ((idx den f.rate p.2 - idx den f.rate p.1) * f.width) =
        (f.data.drop (idx den f.rate p.1 * f.width)).take ((idx den f.rate p.2 - idx den f.rate p.1) * f.width) := by
  have hc := inChain_of_sortedDisjoint _ 0 dur (sortIv_sortedDisjoint D 0 dur hD)
  have hgridS : ∀ p ∈ sortIv D, OnGrid den f.rate p.1 ∧ OnGrid den f.rate p.2 :=
    fun p hp => hgrid p ((sortIv_perm D).mem_iff.1 hp)
  by_cases hne : D ≠ [] ∨ 0 < dur
  · have hT := tiling_tiles false 0 (sortIv D) dur hc
    obtain ⟨out, e1, len, pos⟩ := assemble_tiles den hden f gen hgen _ 0 dur hT (by omega)
      (by rw [idx_dur den f dur hdur]; omega)
      (fun m hm _ => tiling_sameCount den hden f dur hdur hnear false (sortIv D) hc hgridS m hm)
    refine ⟨out, ?_, ?_, ?_⟩
    · unfold readFramesAtTimes
      rw [marked_delete_none 0 dur D hD hne]
      simp only
      rw [checkBounds_tiles 0 dur _ hT (tiling_ne_nil false 0 dur _ (hne.imp sortIv_ne_nil id)) (Int.le_refl _)]
      exact e1
    · rw [len, idx_dur den f dur hdur, idx_zero den f.rate hden]; rfl
    · intro p hp
      have hmem : mk true p ∈ tiling false 0 (sortIv D) dur := by
        have : mk true p ∈ (tiling false 0 (sortIv D) dur).filter (fun m => !(m.keep == false)) := by
          rw [tiling_filter_outer]; exact List.mem_map_of_mem hp
        exact (List.mem_filter.1 this).1
      have := pos (mk true p) hmem rfl
      simpa [mk, idx_zero den f.rate hden, window] using this
  · have hD0 : D = [] := by
      by_cases h : D = []
      · exact h
      · exact absurd (Or.inl h) hne
    have hd0 : dur = 0 := by have := hdur.1; omega
    subst hD0; subst hd0
    have h0 : (f.nframes : Int) = 0 := by
      have h := hdur.2
      unfold samplesIn at h
      rw [Int.mul_zero, C16.roundHalfEven_zero den hden] at h
      exact h.symm
    refine ⟨[], ?_, ?_, ?_⟩
    · unfold readFramesAtTimes
      rw [marked_none]
      simp only [checkBounds, List.head?_cons, List.getLast?_singleton]
      rw [if_neg (by omega)]
      simp only [assemble, if_true]
      rw [read_window_in den hden f 0 0 (Int.le_refl _) (Int.le_refl _) (by rw [idx_zero den f.rate hden]; omega)]
      simp [window, idx_zero den f.rate hden]
    · have : f.nframes = 0 := by omega
      rw [this]; simp
    · intro p hp
      rw [sortIv_nil] at hp
      unfold complement at hp
      rw [if_neg (by omega)] at hp
      cases hp

/-! ## 9. the documented rejections -/

/-- **both lists given: `ArgumentError`** (whatever the lists, the recording and the generator).  "Given" is what the
code tests: non-empty.  An empty keep list next to a delete list is a delete call (`marked_delete` with
`keep = some []`), an empty delete list next to a keep list a keep call. -/
theorem both_lists_rejected (den : Nat) (f : WavFile) (dur : Int) (K D : List (Int × Int))
    (gen : Option (Int → List UInt8)) (hK : K ≠ []) (hD : D ≠ []) :
    readFramesAtTimes den f dur (some K) D gen = .error (.praat .ArgumentError) := by
  unfold readFramesAtTimes computeKeepDelete
  simp [isEmpty_false K hK, isEmpty_false D hD]

theorem invert_call (a b : Int) (f : Int × Int) (rest : List (Int × Int))
    (hpos : ∀ p ∈ f :: rest, p.1 < p.2) (hpw : (f :: rest).Pairwise (fun x y => x.2 ≤ y.1))
    (g : Int × Int) (hg : (f :: rest).getLast? = some g) :
    invertIntervalList (f :: rest) (some a) (some b) =
      .ok (C15.gaps2 ((if a < f.1 then [(a, a)] else []) ++ (f :: rest) ++ (if g.2 < b then [(b, b)] else []))) := by
  have hsort : (f :: rest).mergeSort pairLe = f :: rest :=
    List.mergeSort_of_pairwise (C15.pairLe_of_chain _ hpos hpw)
  unfold invertIntervalList
  rw [if_neg]
  · simp only [hsort, hg, List.head?_cons]
    rfl
  · simp only [List.any_eq_true, Bool.not_eq_true', decide_eq_false_iff_not, not_exists, not_and, Decidable.not_not]
    exact hpos

theorem pairwise_getLast {β} (R : β → β → Prop) : ∀ (l : List β) (z : β), l.Pairwise R → l.getLast? = some z →
    ∀ x ∈ l, x = z ∨ R x z
  | [], _, _, h, _, _ => by simp at h
  | [y], z, _, h, x, hx => by simp at h hx; left; rw [hx, h]
  | y :: y' :: rest, z, hp, h, x, hx => by
    rw [List.getLast?_cons_cons] at h
    obtain ⟨h1, h2⟩ := List.pairwise_cons.1 hp
    have hz : z ∈ y' :: rest := List.mem_of_getLast? h
    rcases List.mem_cons.1 hx with rfl | hx
    · right; exact h1 z hz
    · exact pairwise_getLast R (y' :: rest) z h2 h x hx

/-- in the sorted marked list the interval with the latest start comes last -/
theorem last_of_sorted (lab : Bool) (K G : List (Int × Int)) (g : Int × Int) (S : List Marked)
    (hS : S.Perm (K.map (mk lab) ++ G.map (mk (!lab)))) (hsorted : S.Pairwise (fun x y => Marked.le x y = true))
    (hg : g ∈ K) (hmax : ∀ q ∈ K, q.1 ≤ g.1 ∧ q.2 ≤ g.2) (hG : ∀ n ∈ G, n.1 < g.1) :
    S.getLast? = some (mk lab g) := by
  have hgS : mk lab g ∈ S := hS.mem_iff.2 (List.mem_append.2 (Or.inl (List.mem_map_of_mem hg)))
  have hne : S ≠ [] := List.ne_nil_of_mem hgS
  obtain ⟨z, hz⟩ : ∃ z, S.getLast? = some z := ⟨_, List.getLast?_eq_some_getLast hne⟩
  rw [hz]; congr 1
  rcases pairwise_getLast _ S z hsorted hz (mk lab g) hgS with h | h
  · exact h.symm
  · rw [le_iff] at h
    have hzS : z ∈ K.map (mk lab) ++ G.map (mk (!lab)) := hS.mem_iff.1 (List.mem_of_getLast? hz)
    rcases List.mem_append.1 hzS with hzK | hzG
    · obtain ⟨q, hq, rfl⟩ := List.mem_map.1 hzK
      obtain ⟨m1, m2⟩ := hmax q hq
      simp only [mk] at h
      have h1 : q.1 = g.1 := by omega
      have h2 : q.2 = g.2 := by omega
      have : q = g := Prod.ext h1 h2
      rw [this]
    · obtain ⟨n, hn, rfl⟩ := List.mem_map.1 hzG
      have := hG n hn
      simp only [mk] at h
      omega

/-- the marked list of a sorted disjoint list (either role) ends with the list's last interval when that one ends
after `stop`.  (Stated for a list in time order; for any other order apply it to `sortIv L`: `computeKeepDelete_perm`.
Positive lengths: otherwise `nonpositive_interval_rejected`.) -/
theorem marked_last (a b : Int) (L : List (Int × Int)) (hne : L ≠ []) (hpos : ∀ p ∈ L, p.1 < p.2)
    (hpw : L.Pairwise (fun x y => x.2 ≤ y.1)) (g : Int × Int) (hg : L.getLast? = some g) (hgb : b < g.2) :
    (∃ ms, computeKeepDelete a b (some L) [] = .ok ms ∧ ms.getLast? = some (mk true g)) ∧
    (∃ ms, computeKeepDelete a b none L = .ok ms ∧ ms.getLast? = some (mk false g)) := by
  obtain ⟨f, rest, rfl⟩ : ∃ f rest, L = f :: rest := by
    cases L with
    | nil => exact absurd rfl hne
    | cons f rest => exact ⟨f, rest, rfl⟩
  have hpw' : ∀ p ∈ f :: rest, p.1 ≤ p.2 := fun p hp => Int.le_of_lt (hpos p hp)
  obtain ⟨hgm, hglast⟩ := C15.plast _ g hpw' hpw hg
  have hfirst := C15.pfirst hpw' hpw
  have hcall := invert_call a b f rest hpos hpw g hg
  rw [if_neg (show ¬ g.2 < b by omega), List.append_nil] at hcall
  -- the gaps all start before the last interval
  have hG : ∀ n ∈ C15.gaps2 ((if a < f.1 then [(a, a)] else []) ++ (f :: rest)), n.1 < g.1 := by
    intro n hn
    have hLp : ∀ x ∈ (if a < f.1 then [(a, a)] else []) ++ (f :: rest), x.1 ≤ x.2 := by
      intro x hx
      rcases List.mem_append.1 hx with hx | hx
      · split at hx
        · simp at hx; subst hx; exact Int.le_refl _
        · cases hx
      · exact hpw' x hx
    have hLd : C15.Chain2 ((if a < f.1 then [(a, a)] else []) ++ (f :: rest)) := by
      unfold C15.Chain2
      rw [List.pairwise_append]
      refine ⟨by split <;> simp, hpw, ?_⟩
      intro x hx y hy
      split at hx
      · simp at hx; subst hx
        have := (hfirst y hy).1
        show a ≤ y.1
        omega
      · cases hx
    obtain ⟨h1, _, ⟨b', hb', hb'e⟩, _⟩ := (C15.gaps2_spec _ hLp hLd).1 n hn
    rcases List.mem_append.1 hb' with hb' | hb'
    · split at hb'
      · simp at hb'; subst hb'
        have := (hglast f (by simp)).1
        simp only at hb'e
        omega
      · cases hb'
    · have := (hglast b' hb').1
      omega
  have hK : f :: rest ≠ [] := by simp
  refine ⟨⟨sortMarked (f :: rest) (C15.gaps2 ((if a < f.1 then [(a, a)] else []) ++ (f :: rest))), ?_, ?_⟩,
    ⟨sortMarked (C15.gaps2 ((if a < f.1 then [(a, a)] else []) ++ (f :: rest))) (f :: rest), ?_, ?_⟩⟩
  · unfold computeKeepDelete
    simp only [Option.getD_some, isEmpty_false _ hK, List.isEmpty_nil, Bool.not_false, Bool.not_true, Bool.and_false,
      Bool.false_and, Option.isNone_some, Bool.false_eq_true, if_false]
    rw [hcall]
  · unfold sortMarked
    rw [markKeep_eq, markDelete_eq]
    exact last_of_sorted true _ _ g _ (List.mergeSort_perm _ _)
      (List.pairwise_mergeSort (fun a b c => le_trans a b c) le_total _) hgm hglast hG
  · unfold computeKeepDelete
    simp only [Option.getD_none, isEmpty_false _ hK, List.isEmpty_nil, Bool.not_false, Bool.not_true, Bool.and_false,
      Bool.and_true, Bool.false_eq_true, if_false, if_true]
    rw [hcall]
  · unfold sortMarked
    rw [markKeep_eq, markDelete_eq]
    exact last_of_sorted false _ _ g _ ((List.mergeSort_perm _ _).trans List.perm_append_comm)
      (List.pairwise_mergeSort (fun a b c => le_trans a b c) le_total _) hgm hglast hG

/-- in the sorted marked list the interval with the earliest start comes first -/
theorem first_of_sorted (lab : Bool) (K G : List (Int × Int)) (f : Int × Int) (S : List Marked)
    (hS : S.Perm (K.map (mk lab) ++ G.map (mk (!lab)))) (hsorted : S.Pairwise (fun x y => Marked.le x y = true))
    (hf : f ∈ K) (hmin : ∀ q ∈ K, f.1 ≤ q.1 ∧ f.2 ≤ q.2) (hG : ∀ n ∈ G, f.1 < n.1) :
    S.head? = some (mk lab f) := by
  have hfS : mk lab f ∈ S := hS.mem_iff.2 (List.mem_append.2 (Or.inl (List.mem_map_of_mem hf)))
  cases S with
  | nil => cases hfS
  | cons z rest =>
    simp only [List.head?_cons]; congr 1
    obtain ⟨hz, _⟩ := List.pairwise_cons.1 hsorted
    rcases List.mem_cons.1 hfS with h | h
    · exact h.symm
    · have hle := hz _ h
      rw [le_iff] at hle
      have hzS : z ∈ K.map (mk lab) ++ G.map (mk (!lab)) := hS.mem_iff.1 (by simp)
      rcases List.mem_append.1 hzS with hzK | hzG
      · obtain ⟨q, hq, rfl⟩ := List.mem_map.1 hzK
        obtain ⟨m1, m2⟩ := hmin q hq
        simp only [mk] at hle
        have h1 : q.1 = f.1 := by omega
        have h2 : q.2 = f.2 := by omega
        have : q = f := Prod.ext h1 h2
        rw [this]
      · obtain ⟨n, hn, rfl⟩ := List.mem_map.1 hzG
        have := hG n hn
        simp only [mk] at hle
        omega

/-- the marked list of a sorted disjoint list (either role) begins with the list's first interval when that one
starts before `start`.  (Stated for a list in time order; for any other order apply it to `sortIv L`:
`computeKeepDelete_perm`.  Positive lengths: otherwise `nonpositive_interval_rejected`.) -/
theorem marked_first (a b : Int) (L : List (Int × Int)) (hpos : ∀ p ∈ L, p.1 < p.2)
    (hpw : L.Pairwise (fun x y => x.2 ≤ y.1)) (f : Int × Int) (hf : L.head? = some f) (hfa : f.1 < a) :
    (∃ ms, computeKeepDelete a b (some L) [] = .ok ms ∧ ms.head? = some (mk true f)) ∧
    (∃ ms, computeKeepDelete a b none L = .ok ms ∧ ms.head? = some (mk false f)) := by
  obtain ⟨rest, rfl⟩ : ∃ rest, L = f :: rest := by
    cases L with
    | nil => simp at hf
    | cons x rest => simp at hf; subst hf; exact ⟨rest, rfl⟩
  have hpw' : ∀ p ∈ f :: rest, p.1 ≤ p.2 := fun p hp => Int.le_of_lt (hpos p hp)
  obtain ⟨g, hg⟩ : ∃ g, (f :: rest).getLast? = some g := ⟨_, List.getLast?_eq_some_getLast (by simp)⟩
  obtain ⟨hgm, hglast⟩ := C15.plast _ g hpw' hpw hg
  have hfirst := C15.pfirst hpw' hpw
  have hcall := invert_call a b f rest hpos hpw g hg
  rw [if_neg (show ¬ a < f.1 by omega), List.nil_append] at hcall
  have hpf := hpos f (by simp)
  -- the gaps all start after the first interval's start
  have hG : ∀ n ∈ C15.gaps2 ((f :: rest) ++ (if g.2 < b then [(b, b)] else [])), f.1 < n.1 := by
    intro n hn
    have hLp : ∀ x ∈ (f :: rest) ++ (if g.2 < b then [(b, b)] else []), x.1 ≤ x.2 := by
      intro x hx
      rcases List.mem_append.1 hx with hx | hx
      · exact hpw' x hx
      · split at hx
        · simp at hx; subst hx; exact Int.le_refl _
        · cases hx
    have hLd : C15.Chain2 ((f :: rest) ++ (if g.2 < b then [(b, b)] else [])) := by
      unfold C15.Chain2
      rw [List.pairwise_append]
      refine ⟨hpw, by split <;> simp, ?_⟩
      intro x hx y hy
      split at hy
      · simp at hy; subst hy
        have := (hglast x hx).2
        show x.2 ≤ b
        omega
      · cases hy
    obtain ⟨_, ⟨a', ha', ha'e⟩, _, _⟩ := (C15.gaps2_spec _ hLp hLd).1 n hn
    rcases List.mem_append.1 ha' with ha' | ha'
    · have := (hfirst a' ha').2
      omega
    · split at ha'
      · rename_i hgb
        simp at ha'; subst ha'
        have := (hglast f (by simp)).2
        simp only at ha'e
        omega
      · cases ha'
  have hK : f :: rest ≠ [] := by simp
  refine ⟨⟨sortMarked (f :: rest) (C15.gaps2 ((f :: rest) ++ (if g.2 < b then [(b, b)] else []))), ?_, ?_⟩,
    ⟨sortMarked (C15.gaps2 ((f :: rest) ++ (if g.2 < b then [(b, b)] else []))) (f :: rest), ?_, ?_⟩⟩
  · unfold computeKeepDelete
    simp only [Option.getD_some, isEmpty_false _ hK, List.isEmpty_nil, Bool.not_false, Bool.not_true, Bool.and_false,
      Bool.false_and, Option.isNone_some, Bool.false_eq_true, if_false]
    rw [hcall]
  · unfold sortMarked
    rw [markKeep_eq, markDelete_eq]
    exact first_of_sorted true _ _ f _ (List.mergeSort_perm _ _)
      (List.pairwise_mergeSort (fun a b c => le_trans a b c) le_total _) (by simp) hfirst hG
  · unfold computeKeepDelete
    simp only [Option.getD_none, isEmpty_false _ hK, List.isEmpty_nil, Bool.not_false, Bool.not_true, Bool.and_false,
      Bool.and_true, Bool.false_eq_true, if_false, if_true]
    rw [hcall]
  · unfold sortMarked
    rw [markKeep_eq, markDelete_eq]
    exact first_of_sorted false _ _ f _ ((List.mergeSort_perm _ _).trans List.perm_append_comm)
      (List.pairwise_mergeSort (fun a b c => le_trans a b c) le_total _) (by simp) hfirst hG

/-- `out_of_range_rejected` for a list of positive-length intervals given in time order -/
theorem out_of_range_rejected_sorted (den : Nat) (f : WavFile) (dur : Int) (gen : Option (Int → List UInt8))
    (L : List (Int × Int)) (hpos : ∀ p ∈ L, p.1 < p.2) (hpw : L.Pairwise (fun x y => x.2 ≤ y.1))
    (hout : ∃ p ∈ L, p.1 < 0 ∨ dur < p.2) :
    readFramesAtTimes den f dur (some L) [] gen = .error (.praat .ArgumentError) ∧
    readFramesAtTimes den f dur none L gen = .error (.praat .ArgumentError) := by
  obtain ⟨p, hp, hpd⟩ := hout
  have hne : L ≠ [] := List.ne_nil_of_mem hp
  obtain ⟨g, hg⟩ : ∃ g, L.getLast? = some g := ⟨_, List.getLast?_eq_some_getLast hne⟩
  have hpw' : ∀ p ∈ L, p.1 ≤ p.2 := fun p hp => Int.le_of_lt (hpos p hp)
  by_cases hgd : dur < g.2
  · obtain ⟨⟨ms, e1, l1⟩, ⟨ms', e2, l2⟩⟩ := marked_last 0 dur L hne hpos hpw g hg hgd
    constructor
    · unfold readFramesAtTimes
      rw [e1]; simp only
      rw [checkBounds_err dur ms (Or.inr ⟨_, l1, hgd⟩)]
    · unfold readFramesAtTimes
      rw [e2]; simp only
      rw [checkBounds_err dur ms' (Or.inr ⟨_, l2, hgd⟩)]
  · have hp0 : p.1 < 0 := by
      rcases hpd with h | h
      · exact h
      · have := ((C15.plast L g hpw' hpw hg).2 p hp).2; omega
    obtain ⟨x, rest, rfl⟩ : ∃ x rest, L = x :: rest := by
      cases L with
      | nil => exact absurd rfl hne
      | cons x rest => exact ⟨x, rest, rfl⟩
    have hx0 : x.1 < 0 := by have := (C15.pfirst hpw' hpw p hp).1; omega
    obtain ⟨⟨ms, e1, l1⟩, ⟨ms', e2, l2⟩⟩ := marked_first 0 dur (x :: rest) hpos hpw x rfl hx0
    constructor
    · unfold readFramesAtTimes
      rw [e1]; simp only
      rw [checkBounds_err dur ms (Or.inl ⟨_, l1, hx0⟩)]
    · unfold readFramesAtTimes
      rw [e2]; simp only
      rw [checkBounds_err dur ms' (Or.inl ⟨_, l2, hx0⟩)]

/-- **an interval of zero or negative length: `ArgumentError`** (raised by `utils.invertIntervalList`) — anywhere in a
keep or a delete list, whatever else the list holds, with or without replacement -/
theorem nonpositive_interval_rejected (den : Nat) (f : WavFile) (dur : Int) (gen : Option (Int → List UInt8))
    (L : List (Int × Int)) (h : ∃ p ∈ L, p.2 ≤ p.1) :
    readFramesAtTimes den f dur (some L) [] gen = .error (.praat .ArgumentError) ∧
    readFramesAtTimes den f dur none L gen = .error (.praat .ArgumentError) := by
  have hne : L ≠ [] := by obtain ⟨p, hp, _⟩ := h; exact List.ne_nil_of_mem hp
  have hinv := C15.invert_rejects L (some 0) (some dur) h
  constructor
  · unfold readFramesAtTimes computeKeepDelete
    simp [isEmpty_false L hne, hinv]
  · unfold readFramesAtTimes computeKeepDelete
    simp [isEmpty_false L hne, hinv]

/-- **a time outside the recording: `ArgumentError`** — for every keep or delete list of pairwise disjoint intervals,
**in any order**, one of whose intervals starts before 0 or ends after the duration, with or without replacement.
(No positivity assumption: a list with an interval of zero or negative length is an `ArgumentError` anyway,
`nonpositive_interval_rejected`.  Disjointness is needed: `nested_out_of_range_counterexample`.) -/
theorem out_of_range_rejected (den : Nat) (f : WavFile) (dur : Int) (gen : Option (Int → List UInt8))
    (L : List (Int × Int)) (hpw : L.Pairwise (fun x y => x.2 ≤ y.1 ∨ y.2 ≤ x.1))
    (hout : ∃ p ∈ L, p.1 < 0 ∨ dur < p.2) :
    readFramesAtTimes den f dur (some L) [] gen = .error (.praat .ArgumentError) ∧
    readFramesAtTimes den f dur none L gen = .error (.praat .ArgumentError) := by
  by_cases hbad : ∃ p ∈ L, p.2 ≤ p.1
  · exact nonpositive_interval_rejected den f dur gen L hbad
  · have hpos : ∀ p ∈ L, p.1 < p.2 := by
      intro p hp
      by_cases h : p.1 < p.2
      · exact h
      · exact absurd ⟨p, hp, by omega⟩ hbad
    have hperm := sortIv_perm L
    have hposS : ∀ p ∈ sortIv L, p.1 < p.2 := fun p hp => hpos p (hperm.mem_iff.1 hp)
    obtain ⟨p, hp, hpd⟩ := hout
    have key := out_of_range_rejected_sorted den f dur gen (sortIv L) hposS (sortIv_chain L hpos hpw)
      ⟨p, hperm.mem_iff.2 hp, hpd⟩
    rw [(readFramesAtTimes_perm den f dur gen hperm.symm (List.Perm.refl [])).1,
      (readFramesAtTimes_perm den f dur gen (List.Perm.refl []) hperm.symm).2]
    exact key

/-- regression (C17-2, fixed by 25e3c22): an explicitly empty keep list keeps nothing — or replaces everything —
while "no list" still returns the whole recording -/
theorem keep_empty_regression :
    readFramesAtTimes 8 ⟨1, 8, [1, 2, 3, 4]⟩ 4 (some []) [] none = .ok [] ∧
    readFramesAtTimes 8 ⟨1, 8, [1, 2, 3, 4]⟩ 4 (some []) [] (some (generateSilence 8 8 1)) = .ok [0, 0, 0, 0] ∧
    readFramesAtTimes 8 ⟨1, 8, [1, 2, 3, 4]⟩ 4 none [] none = .ok [1, 2, 3, 4] := by
  refine ⟨?_, ?_, ?_⟩
  · unfold readFramesAtTimes; rw [marked_keep_sorted 0 4 [] (show (0 : Int) ≤ 4 by decide) (Or.inr (by decide))]; decide
  · unfold readFramesAtTimes; rw [marked_keep_sorted 0 4 [] (show (0 : Int) ≤ 4 by decide) (Or.inr (by decide))]; decide
  · unfold readFramesAtTimes; rw [marked_none]; decide

/-- regression (C17-1, fixed by 2609506): the inputs that used to be accepted — a delete interval starting before 0
(with replacement the result was longer than the recording) and a keep interval whose negative start rounds to
sample 0 — are `ArgumentError`s -/
theorem negative_time_regression :
    readFramesAtTimes 8 ⟨1, 8, [1, 2, 3, 4, 5, 6, 7, 8]⟩ 8 none [(-8, 4)] none = .error (.praat .ArgumentError) ∧
    readFramesAtTimes 8 ⟨1, 8, [1, 2, 3, 4, 5, 6, 7, 8]⟩ 8 none [(-8, 4)] (some (generateSilence 8 8 1)) =
      .error (.praat .ArgumentError) ∧
    readFramesAtTimes 64 ⟨1, 8, [1, 2, 3, 4, 5, 6, 7, 8]⟩ 64 (some [(-1, 64)]) [] none = .error (.praat .ArgumentError) :=
  ⟨(out_of_range_rejected 8 _ 8 none [(-8, 4)] (by simp) ⟨(-8, 4), by simp, Or.inl (by decide)⟩).2,
   (out_of_range_rejected 8 _ 8 _ [(-8, 4)] (by simp) ⟨(-8, 4), by simp, Or.inl (by decide)⟩).2,
   (out_of_range_rejected 64 _ 64 none [(-1, 64)] (by simp) ⟨(-1, 64), by simp, Or.inl (by decide)⟩).1⟩

/-! ## 10. generated audio has `round(rate × duration)` samples -/

/-- `samplesIn` is Python's `round(rate * d)`: the nearest integer, ties to the even one -/
theorem samplesIn_spec (den rate : Nat) (hden : 0 < den) (d : Int) :
    C16.IsRoundHalfEven ((rate : Int) * d) den (samplesIn den rate d) :=
  C16.roundHalfEven_spec _ _ hden

/-- **silence has `round(rate × duration)` samples** (none for a negative duration, a zero or a negative rate).
No condition on rate, width or duration.  The model does not represent the `KeyError` of `sampleWidthDict` for a
sample width other than 1, 2, 4, 8 (e.g. 24-bit audio, width 3, which `wave` can read): the property quantifies over
widths 1/2/4. -/
theorem silence_length (den rate width : Nat) (d : Int) :
    (generateSilence den rate width d).length = (samplesIn den rate d).toNat * width :=
  List.length_replicate

/-- … all of them zero -/
theorem silence_zero (den rate width : Nat) (d : Int) : ∀ b ∈ generateSilence den rate width d, b = 0 :=
  fun _ hb => List.eq_of_mem_replicate hb

/-- … whole samples that decode to zeros -/
theorem silence_samples (den rate width : Nat) (hw : 0 < width) (d : Int) (x : Int)
    (hx : x ∈ unpack width (generateSilence den rate width d)) : InRange width x :=
  C16.unpackN_inRange width hw _ _ (by rw [silence_length]; exact Nat.div_mul_le_self _ _) x hx

/-- `generateSilence` satisfies the generator contract of `replace_keep` / `replace_delete` -/
theorem silence_genOk (den : Nat) (f : WavFile) : GenOk den f (generateSilence den f.rate f.width) :=
  fun d => silence_length den f.rate f.width d

theorem sineCount_eq (den rate : Nat) (d : Int) : sineCount den rate d = (samplesIn den rate d).toNat := by
  unfold sineCount samplesIn; rw [Int.mul_comm]

/-- **a generated sine wave has `round(rate × duration)` samples**, whatever the sample values `math.sin` yields
(when they fit the sample width; otherwise `struct.error`; a width other than 1, 2, 4, 8: `KeyError`) — none for a
negative duration.  `h` only says that the call returned.  Not modelled: rate 0 (`ZeroDivisionError` in
`2π·frequency / float(frameRate)`; `wave` writes no such file). -/
theorem sine_length (den rate width : Nat) (vals : Nat → Int) (d : Int) (bs : List UInt8)
    (h : generateSineWave den rate width vals d = .ok bs) :
    bs.length = (samplesIn den rate d).toNat * width := by
  unfold generateSineWave convertToBytes at h
  split at h
  · cases h
  · split at h
    · cases h
      rw [C16.pack_length, List.length_map, List.length_range, sineCount_eq, Nat.mul_comm]
    · cases h

/-! ## 11. `extractSubwav` -/

/-- over a common positive denominator the order of two times is the order of their numerators -/
theorem lt_common (den : Nat) (hden : 0 < den) (e s : Int) : ((⟨e, den⟩ : QTime) < ⟨s, den⟩) ↔ e < s := by
  show e * (den : Int) < s * (den : Int) ↔ e < s
  constructor
  · intro h; exact Int.lt_of_mul_lt_mul_right h (by omega)
  · intro h; exact Int.mul_lt_mul_of_pos_right h (by omega)

/-- **extractSubwav writes the source's parameters and exactly the window of the source** — for EVERY pair of times
`s ≤ e` (a time outside the recording: clamped to its first / last frame); the other pairs: `extract_reversed` -/
theorem extract_spec (den : Nat) (f : WavFile) (s e : Int) (h : ¬ (⟨e, den⟩ : QTime) < ⟨s, den⟩) :
    extractSubwav f ⟨s, den⟩ ⟨e, den⟩ = .ok ⟨f.width, f.rate, cwindow den f (s, e)⟩ := by
  unfold extractSubwav QueryWav.getFrames
  simp only [Option.getD_some]
  rw [if_neg h, read_window den f s e]
  rfl

/-- **a reversed pair of times is rejected and nothing is written** (`ArgumentError` from `QueryWav.getFrames`,
commit 906b45b; it used to write an empty file) -/
theorem extract_reversed (f : WavFile) (s e : QTime) (h : e < s) : extractSubwav f s e = .error .ArgumentError := by
  unfold extractSubwav QueryWav.getFrames
  simp only [Option.getD_some]
  rw [if_pos h]

/-- … in particular a start outside the recording no longer raises `wave.Error` (`setpos`): a start before the
recording extracts from its first frame, a start beyond it extracts an empty file -/
theorem extract_outside (den : Nat) (f : WavFile) (s e : Int) (h : ¬ (⟨e, den⟩ : QTime) < ⟨s, den⟩) :
    (samplesIn den f.rate s ≤ 0 →
      extractSubwav f ⟨s, den⟩ ⟨e, den⟩ = .ok ⟨f.width, f.rate, f.data.take (cidx den f e * f.width)⟩) ∧
    ((f.nframes : Int) ≤ samplesIn den f.rate s → extractSubwav f ⟨s, den⟩ ⟨e, den⟩ = .ok ⟨f.width, f.rate, []⟩) := by
  unfold extractSubwav QueryWav.getFrames
  simp only [Option.getD_some]
  rw [if_neg h]
  constructor
  · intro h'; rw [(read_window_outside den f s e).1 h']; rfl
  · intro h'; rw [(read_window_outside den f s e).2 h']; rfl

/-- the file-backed path (QueryWav) and the in-memory path (`Wav.getSubwav`) extract the same frames, or raise the
same `ArgumentError` — for ANY two times (each with its own denominator) -/
theorem extract_eq_getSubwav (f : WavFile) (s e : QTime) :
    extractSubwav f s e =
      match Wav.getSubwav ⟨f.width, f.rate, f.data⟩ s e with
      | .ok w => .ok ⟨f.width, f.rate, w.frames⟩
      | .error err => .error err := by
  unfold extractSubwav QueryWav.getFrames Wav.getSubwav Wav.getFrames
  simp only [Option.getD_some]
  by_cases h : e < s
  · rw [if_pos h, if_pos h]
  · rw [if_neg h, if_neg h, C16.query_eq_wav f s e]
    rfl


/-! ## 12. `splitAudioOnTier`: one output per entry, names, frames, cropped TextGrids -/

section split
set_option linter.unusedSectionVars false
variable {α : Type} [LT α] [LE α] [DecidableLT α] [DecidableLE α] [BEq α] [Add α] [Sub α] [Tm α]

/-- what the entry loop produces for the entries `es`, the first of which has the number `i` -/
def SplitRel (toQ : α → QTime) (f : WavFile) (g : Tg α) (stem : String) (flag : TgFlag) (style : NameStyle)
    (noPartial : Bool) (n : Nat) : Nat → List (Iv α) → List (SplitOut α) → Prop
  | _, [], [] => True
  | i, iv :: es, o :: outs =>
    (o.name = outputName stem style n i iv.l ∧
      QueryWav.getFrames f (some (toQ iv.s)) (some (toQ iv.e)) = .ok o.wav.data ∧
      o.wav.width = f.width ∧ o.wav.rate = f.rate ∧
      splitTg g iv.s iv.e noPartial flag = .ok o.tg) ∧
    SplitRel toQ f g stem flag style noPartial n (i + 1) es outs
  | _, _, _ => False

theorem splitLoop_rel (toQ : α → QTime) (f : WavFile) (g : Tg α) (stem : String) (flag : TgFlag) (style : NameStyle)
    (noPartial : Bool) (n : Nat) : ∀ (es : List (Iv α)) (i : Nat) (outs : List (SplitOut α)),
      splitLoop toQ f g stem flag style noPartial n i es = .ok outs →
      SplitRel toQ f g stem flag style noPartial n i es outs
  | [], i, outs, h => by
    simp only [splitLoop] at h
    cases h; trivial
  | iv :: rest, i, outs, h => by
    simp only [splitLoop] at h
    split at h
    · cases h
    · rename_i fr hfr
      split at h
      · cases h
      · rename_i sub hsub
        split at h
        · cases h
        · rename_i outs' houts
          cases h
          exact ⟨⟨rfl, hfr, rfl, rfl, hsub⟩, splitLoop_rel toQ f g stem flag style noPartial n rest (i + 1) outs' houts⟩

theorem SplitRel.length {toQ : α → QTime} {f : WavFile} {g : Tg α} {stem : String} {flag : TgFlag} {style : NameStyle}
    {noPartial : Bool} {n : Nat} : ∀ {i : Nat} {es : List (Iv α)} {outs : List (SplitOut α)},
      SplitRel toQ f g stem flag style noPartial n i es outs → outs.length = es.length
  | _, [], [], _ => rfl
  | _, _ :: _, _ :: _, ⟨_, h⟩ => by simp [SplitRel.length h]
  | _, [], _ :: _, h => by cases h
  | _, _ :: _, [], h => by cases h

/-- the names the documented rule gives to the entries `es`, numbered from `i` -/
def namesFrom (stem : String) (style : NameStyle) (n : Nat) : Nat → List (Iv α) → List String
  | _, [] => []
  | i, iv :: rest => outputName stem style n i iv.l :: namesFrom stem style n (i + 1) rest

theorem SplitRel.names {toQ : α → QTime} {f : WavFile} {g : Tg α} {stem : String} {flag : TgFlag} {style : NameStyle}
    {noPartial : Bool} {n : Nat} : ∀ {i : Nat} {es : List (Iv α)} {outs : List (SplitOut α)},
      SplitRel toQ f g stem flag style noPartial n i es outs → outs.map (·.name) = namesFrom stem style n i es
  | _, [], [], _ => rfl
  | _, _ :: _, _ :: _, ⟨h1, h⟩ => by simp [namesFrom, h1.1, SplitRel.names h]
  | _, [], _ :: _, h => by cases h
  | _, _ :: _, [], h => by cases h

/-- **one output per entry**: `splitAudioOnTier` produces exactly one output per (non-silence) entry of the interval
tier, in order, named by the documented rule — none when there is no entry -/
theorem split_one_per_entry (toQ : α → QTime) (f : WavFile) (g : Tg α) (tierName stem : String) (flag : TgFlag)
    (style : NameStyle) (noPartial : Bool) (silence : Option String) (outs : List (SplitOut α))
    (h : splitAudioOnTier toQ f g tierName stem flag style noPartial silence = .ok outs) :
    ∃ es, splitEntries g tierName silence = .ok es ∧
      SplitRel toQ f g stem flag style noPartial es.length 0 es outs ∧
      outs.length = es.length ∧ outs.map (·.name) = namesFrom stem style es.length 0 es := by
  unfold splitAudioOnTier at h
  cases hes : splitEntries g tierName silence with
  | error e => rw [hes] at h; cases h
  | ok es =>
    rw [hes] at h
    have hr := splitLoop_rel toQ f g stem flag style noPartial es.length es 0 outs h
    exact ⟨es, rfl, hr, hr.length, hr.names⟩

/-- no entry (an empty tier, or nothing but silence): nothing is written, `[]` is returned (C17-4, fixed by 5e608f3;
before: the built-in `ValueError` of `math.log10(0)`) -/
theorem split_no_entries (toQ : α → QTime) (f : WavFile) (g : Tg α) (tierName stem : String) (flag : TgFlag)
    (style : NameStyle) (noPartial : Bool) (silence : Option String) (h : splitEntries g tierName silence = .ok []) :
    splitAudioOnTier toQ f g tierName stem flag style noPartial silence = .ok [] := by
  unfold splitAudioOnTier; rw [h]; rfl

end split

/-! ### names -/

theorem padLeft_value (k i : Nat) : Nat.ofDigitChars 10 (padLeft k (toString i)).toList 0 = i := by
  unfold padLeft
  rw [String.toList_append, String.toList_ofList, Nat.ofDigitChars_append, Nat.ofDigitChars_replicate_zero,
    Nat.mul_zero, Nat.toString_eq_repr, Nat.toList_repr, Nat.ofDigitChars_ten_toDigits]

theorem padLeft_inj (k i j : Nat) (h : padLeft k (toString i) = padLeft k (toString j)) : i = j := by
  rw [← padLeft_value k i, ← padLeft_value k j, h]

theorem padLeft_length (k i : Nat) (h : (toString i).length ≤ k) : (padLeft k (toString i)).length = k := by
  unfold padLeft
  rw [String.length_append, String.length_ofList, List.length_replicate]
  omega

theorem repr_length_le (n i : Nat) (h : i < n) : (toString i).length ≤ (toString n).length := by
  rw [Nat.toString_eq_repr, Nat.toString_eq_repr]
  have hn : n < 10 ^ n.repr.length := (Nat.length_repr_le_iff Nat.length_repr_pos).1 (Nat.le_refl _)
  exact (Nat.length_repr_le_iff Nat.length_repr_pos).2 (by omega)

theorem string_append_inj {a b c d : String} (h : a ++ b = c ++ d) (hl : a.length = c.length) : a = c ∧ b = d := by
  have h' := congrArg String.toList h
  rw [String.toList_append, String.toList_append] at h'
  have hl' : a.toList.length = c.toList.length := by rw [String.length_toList, String.length_toList]; exact hl
  obtain ⟨h1, h2⟩ := List.append_inj h' hl'
  exact ⟨String.toList_inj.1 h1, String.toList_inj.1 h2⟩

/-- numbered names of different entries differ (the number is padded to the width of the entry count) -/
theorem indexedName_inj (stem : String) (n i j : Nat) (h : indexedName stem n i = indexedName stem n j) : i = j := by
  unfold indexedName at h
  have := (string_append_inj h rfl).2
  exact padLeft_inj _ i j this

theorem indexedName_length (stem : String) (n i : Nat) (h : i < n) :
    (indexedName stem n i).length = stem.length + 1 + (toString n).length := by
  unfold indexedName
  rw [String.length_append, String.length_append, padLeft_length _ _ (repr_length_le n i h)]
  rfl

/-- with `nameStyle` None or `'append'` the name determines the entry number.  `i, j < n` holds by construction
(`i` enumerates the `n` entries); the other two styles: `split_label_collision`. -/
theorem outputName_inj (stem : String) (style : NameStyle) (hs : style = .default ∨ style = .append) (n i j : Nat)
    (hi : i < n) (hj : j < n) (l l' : String) (h : outputName stem style n i l = outputName stem style n j l') : i = j := by
  rcases hs with rfl | rfl
  · exact indexedName_inj stem n i j h
  · unfold outputName at h
    simp only at h
    rw [String.append_assoc, String.append_assoc] at h
    have := (string_append_inj h (by rw [indexedName_length stem n i hi, indexedName_length stem n j hj])).1
    exact indexedName_inj stem n i j this

theorem namesFrom_mem {α} (stem : String) (style : NameStyle) (n : Nat) : ∀ (es : List (Iv α)) (i : Nat) (x : String),
    x ∈ namesFrom stem style n i es → ∃ j l, i ≤ j ∧ j < i + es.length ∧ x = outputName stem style n j l
  | [], _, x, h => by cases h
  | iv :: rest, i, x, h => by
    simp only [namesFrom, List.mem_cons] at h
    rcases h with rfl | h
    · exact ⟨i, iv.l, Nat.le_refl _, by simp, rfl⟩
    · obtain ⟨j, l, h1, h2, h3⟩ := namesFrom_mem stem style n rest (i + 1) x h
      exact ⟨j, l, by omega, by simp only [List.length_cons]; omega, h3⟩

/-- **file names are pairwise different for `nameStyle` None and `'append'`** (they are not for `'label'` and
`'append_no_i'` when labels repeat: known finding C17-3, `split_label_collision`) -/
theorem split_names_nodup {α} (stem : String) (style : NameStyle) (hs : style = .default ∨ style = .append) (n : Nat) :
    ∀ (es : List (Iv α)) (i : Nat), i + es.length ≤ n → (namesFrom stem style n i es).Nodup
  | [], _, _ => List.nodup_nil
  | iv :: rest, i, h => by
    simp only [List.length_cons] at h
    simp only [namesFrom, List.nodup_cons]
    refine ⟨?_, split_names_nodup stem style hs n rest (i + 1) (by omega)⟩
    intro hmem
    obtain ⟨j, l, h1, h2, h3⟩ := namesFrom_mem stem style n rest (i + 1) _ hmem
    have := outputName_inj stem style hs n i j (by omega) (by omega) _ _ h3
    omega

/-- two entries with the same label get the same file name under `'label'` and `'append_no_i'`: the later file
overwrites the earlier one (known finding C17-3) -/
theorem split_label_collision (stem : String) (n i j : Nat) (l : String) :
    outputName stem .label n i l = outputName stem .label n j l ∧
    outputName stem .appendNoI n i l = outputName stem .appendNoI n j l := ⟨rfl, rfl⟩

/-! ### frames (exact instance: a timestamp `k` is `k / den`) -/

/-- **each written wave file holds the source's parameters and exactly the window of its entry** — no condition on
the entries (an entry outside the recording — a TextGrid longer than the recording — gets the clamped window) -/
theorem split_frames (den : Nat) (f : WavFile) (g : Tg Int) (stem : String) (flag : TgFlag)
    (style : NameStyle) (noPartial : Bool) (n : Nat) : ∀ (i : Nat) (es : List (Iv Int)) (outs : List (SplitOut Int)),
      SplitRel (fun k => ⟨k, den⟩) f g stem flag style noPartial n i es outs →
      outs.map (·.wav) = es.map (fun iv => ⟨f.width, f.rate, cwindow den f (iv.s, iv.e)⟩)
  | _, [], [], _ => rfl
  | i, iv :: rest, o :: outs, ⟨⟨_, h2, h3, h4, _⟩, hrest⟩ => by
    have ih := split_frames den f g stem flag style noPartial n (i + 1) rest outs hrest
    have hw : o.wav = ⟨f.width, f.rate, cwindow den f (iv.s, iv.e)⟩ := by
      unfold QueryWav.getFrames at h2
      simp only [Option.getD_some] at h2
      by_cases hrev : (⟨iv.e, den⟩ : QTime) < ⟨iv.s, den⟩
      · rw [if_pos hrev] at h2; cases h2
      rw [if_neg hrev, read_window den f iv.s iv.e] at h2
      have hd := Except.ok.inj h2
      cases hwav : o.wav with
      | mk w r d =>
        rw [hwav] at h3 h4 hd
        simp only at h3 h4 hd
        rw [h3, h4, ← hd]
    simp only [List.map_cons, hw, ih]
  | _, [], _ :: _, h => by cases h
  | _, _ :: _, [], h => by cases h

/-- reading the audio of an entry never stops the loop: whatever the entry's times, `QueryWav.getFrames` returns the
(clamped) window — before the repair 3f424d1 an entry that started outside the recording raised the `wave.Error` of
`setpos` after the files of the earlier entries had been written -/
theorem split_entry_outside (den : Nat) (f : WavFile) (iv : Iv Int) (h : ¬ (⟨iv.e, den⟩ : QTime) < ⟨iv.s, den⟩) :
    QueryWav.getFrames f (some ⟨iv.s, den⟩) (some ⟨iv.e, den⟩) = .ok (cwindow den f (iv.s, iv.e)) := by
  unfold QueryWav.getFrames
  simp only [Option.getD_some]
  rw [if_neg h]
  exact read_window den f iv.s iv.e

/-! ### the cropped TextGrids -/

/-- rebased crop of a well-formed interval tier in strict or truncated mode: span exactly `[0, b - a]`, the entries
are the selection shifted by `a` -/
theorem icrop_span (t : ITier Int) (hwf : t.WF) (a b : Int) (hab : a < b) (m : CropMode) (hm : m ≠ .lax) :
    ∃ t', t.crop a b m true = .ok t' ∧ t'.name = t.name ∧ t'.lo = 0 ∧ t'.hi = b - a ∧
      t'.es = (getIvs a b m t.es).map (shiftIv a) := by
  obtain ⟨t', h1, _, h3, h4, h5, h6⟩ := C06.crop_rebase t hwf a b hab m
  have hin : ∀ o ∈ getIvs a b m t.es, a ≤ o.s ∧ o.e ≤ b := by
    intro o ho
    obtain ⟨iv, hiv, hfo⟩ := List.mem_filterMap.1 ho
    exact C06.cropOne_inside a b m hm iv o (hwf.pos iv hiv) hab hfo
  have hd : rebaseDelta a (getIvs a b m t.es) = a := by
    cases hsel : getIvs a b m t.es with
    | nil => rfl
    | cons x rest =>
      have := (hin x (by rw [hsel]; simp)).1
      simp only [rebaseDelta]
      rw [if_neg (by omega)]
  rw [hd] at h4
  refine ⟨t', h1, h3, h5, ?_, h4⟩
  rw [h6]
  apply hullMax_eq_of_ge
  intro x hx
  rw [h4] at hx
  simp only [List.map_map, List.mem_map, Function.comp] at hx
  obtain ⟨o, ho, rfl⟩ := hx
  have := (hin o ho).2
  simp only [shiftIv]; omega

theorem anycrop_span (t : AnyTier Int) (hwf : C12.AnyWF t) (a b : Int) (hab : a < b) (m : CropMode) (hm : m ≠ .lax)
    (t' : AnyTier Int) (h : t.crop a b m true = .ok t') : t'.lo = 0 ∧ t'.hi = b - a := by
  cases t with
  | I t =>
    obtain ⟨z, hz, _, h3, h4, _⟩ := icrop_span t hwf a b hab m hm
    obtain ⟨z', hz', rfl⟩ := C12.map_ok h
    rw [hz] at hz'; cases hz'
    exact ⟨h3, h4⟩
  | P t =>
    obtain ⟨z, hz, _, _, _, h5, h6⟩ := C06.pcrop_spec t hwf a b hab true
    obtain ⟨z', hz', rfl⟩ := C12.map_ok h
    rw [hz] at hz'; cases hz'
    refine ⟨?_, ?_⟩
    · show z.lo = 0; simpa using h5
    · show z.hi = b - a; simpa using h6

theorem fold_span (f : AnyTier Int → Except Err (AnyTier Int)) (rep : Report) (lo hi : Int) :
    ∀ (l : List (AnyTier Int)) (acc g' : Tg Int), (∀ t ∈ l, ∀ t', f t = .ok t' → t'.lo = lo ∧ t'.hi = hi) →
      acc.lo = some lo → acc.hi = some hi →
      l.foldlM (fun acc t => do let t' ← f t; acc.addTier t' none rep) acc = .ok g' →
      g'.lo = some lo ∧ g'.hi = some hi
  | [], acc, g', _, h1, h2, h => by
    have : acc = g' := C12.pure_ok h
    subst this; exact ⟨h1, h2⟩
  | a :: l, acc, g', hf, h1, h2, h => by
    rw [List.foldlM_cons] at h
    obtain ⟨acc1, ha, hrest⟩ := C12.bind_ok h
    obtain ⟨t', h3, h4⟩ := C12.bind_ok ha
    obtain ⟨_, _, rfl⟩ := C12.addTier_inv h4
    obtain ⟨e1, e2⟩ := hf a (by simp) t' h3
    apply fold_span f rep lo hi l _ g' (fun t ht => hf t (List.mem_cons_of_mem _ ht)) ?_ ?_ hrest
    · simp only [h1, e1, C12.widenLo]; congr 1; omega
    · simp only [h2, e2, C12.widenHi]; congr 1; omega

/-- **the cropped TextGrid of an entry spans exactly `[0, end − start]`** (all tiers of the source well-formed;
`noPartialIntervals` either way; all tiers or only the requested one).  `hwf`: the textgrid is the one `openTextgrid`
returned, whose tiers are well-formed by construction (C05); `hse`: an entry of a well-formed tier has positive
length (`split_tg_label` derives it); `h`: the crop returned (`split_one_per_entry` provides it for every output). -/
theorem split_tg_span (g : Tg Int) (hwf : ∀ t ∈ g.tiers, C12.AnyWF t) (s e : Int) (hse : s < e) (noPartial : Bool)
    (flag : TgFlag) (sub : Tg Int) (h : splitTg g s e noPartial flag = .ok (some sub)) :
    sub.lo = some 0 ∧ sub.hi = some (e - s) := by
  have hm : splitMode noPartial ≠ .lax := by unfold splitMode; split <;> simp
  have key : ∀ g', g.crop s e (splitMode noPartial) true = .ok g' → g'.lo = some 0 ∧ g'.hi = some (e - s) := by
    intro g' hc
    unfold Tg.crop at hc
    rw [if_neg (by omega)] at hc
    exact fold_span _ _ 0 (e - s) g.tiers _ g'
      (fun t ht t' ht' => anycrop_span t (hwf t ht) s e hse _ hm t' ht') rfl rfl hc
  cases flag with
  | off => simp [splitTg] at h
  | all =>
    obtain ⟨z, hz, hz'⟩ := C12.map_ok h
    cases hz'
    exact key _ hz
  | only n =>
    obtain ⟨z, hz, hz'⟩ := C12.map_ok h
    cases hz'
    exact key z hz

/-- **… and contains the entry's label**: the tier the recording is split on appears in the cropped TextGrid (when all
tiers or that tier are requested) with the entry `(0, end − start, label)`.  `hflag` is the documented behaviour, not
a convenience: with `outputTGFlag` = the name of *another* tier the cropped TextGrid holds only that tier (none at all
for a name that is no tier's), so the entry's label is not in it. -/
theorem split_tg_label (g : Tg Int) (hwf : ∀ t ∈ g.tiers, C12.AnyWF t) (t : ITier Int) (ht : AnyTier.I t ∈ g.tiers)
    (iv : Iv Int) (hiv : iv ∈ t.es) (noPartial : Bool) (flag : TgFlag) (hflag : flag = .all ∨ flag = .only t.name)
    (sub : Tg Int) (h : splitTg g iv.s iv.e noPartial flag = .ok (some sub)) :
    ∃ t', AnyTier.I t' ∈ sub.tiers ∧ t'.name = t.name ∧ (⟨0, iv.e - iv.s, iv.l⟩ : Iv Int) ∈ t'.es := by
  have htw : t.WF := hwf _ ht
  have hse : iv.s < iv.e := htw.pos iv hiv
  have hm : splitMode noPartial ≠ .lax := by unfold splitMode; split <;> simp
  obtain ⟨t', hc, hn, _, _, hes⟩ := icrop_span t htw iv.s iv.e hse _ hm
  have hmem : (⟨0, iv.e - iv.s, iv.l⟩ : Iv Int) ∈ t'.es := by
    rw [hes]
    refine List.mem_map.2 ⟨iv, ?_, by simp [shiftIv]⟩
    refine List.mem_filterMap.2 ⟨iv, hiv, ?_⟩
    unfold cropOne
    rw [if_neg (by omega), if_pos ⟨Int.le_refl _, Int.le_refl _⟩]
  have key : ∀ g', g.crop iv.s iv.e (splitMode noPartial) true = .ok g' → AnyTier.I t' ∈ g'.tiers := by
    intro g' hg'
    obtain ⟨ts, e1, e2⟩ := C12.crop_tiers hg'
    obtain ⟨i, hi⟩ := List.getElem?_of_mem ht
    obtain ⟨_, hget⟩ := C12.mapM_getElem _ _ _ e1
    obtain ⟨u, hu1, hu2⟩ := hget i _ hi
    have : AnyTier.crop (AnyTier.I t) iv.s iv.e (splitMode noPartial) true = .ok (AnyTier.I t') := by
      show AnyTier.I <$> t.crop iv.s iv.e (splitMode noPartial) true = _
      rw [hc]; rfl
    rw [this] at hu2; cases hu2
    rw [e2]; exact List.mem_of_getElem? hu1
  rcases hflag with rfl | rfl
  · obtain ⟨z, hz, hz'⟩ := C12.map_ok h
    cases hz'
    exact ⟨t', key _ hz, hn, hmem⟩
  · obtain ⟨z, hz, hz'⟩ := C12.map_ok h
    cases hz'
    refine ⟨t', ?_, hn, hmem⟩
    simp only
    refine List.mem_filter.2 ⟨key _ hz, ?_⟩
    simp [AnyTier.name, hn]


/-! ## 13. non-vacuity and illustrations -/

/-- 16 one-byte samples at 8 Hz: two seconds; times below are numerators over `den = 8` (or 80) -/
def exFile : WavFile := ⟨1, 8, [1, 2, 3, 4, 5, 6, 7, 8, 9, 10, 11, 12, 13, 14, 15, 16]⟩
/-- 8 two-byte samples at 8 Hz -/
def exFile2 : WavFile := ⟨2, 8, [1, 0, 2, 0, 3, 0, 4, 0, 5, 0, 6, 0, 7, 0, 8, 0]⟩
def exKeep : List (Int × Int) := [(2, 4), (4, 6), (10, 16)]

/-- the hypotheses of `keep_spec`, `delete_spec`, `replace_keep`, `replace_delete` are satisfiable together -/
theorem ex_hypotheses :
    DurOk 8 exFile 16 ∧ DurNear 8 exFile 16 ∧ SortedDisjoint exKeep 0 16 ∧ DisjointIn exKeep 0 16 ∧ exKeep ≠ [] ∧
    (∀ p ∈ exKeep, OnGrid 8 exFile.rate p.1 ∧ OnGrid 8 exFile.rate p.2) ∧
    GenOk 8 exFile (generateSilence 8 exFile.rate exFile.width) := by
  refine ⟨by decide, by decide, by decide, by decide, by decide, ?_, silence_genOk 8 exFile⟩
  intro p hp
  exact ⟨⟨p.1, Int.mul_comm _ _⟩, ⟨p.2, Int.mul_comm _ _⟩⟩

/-- the duration the code computes need not be a sample position: for 7 samples at 10 Hz it is the binary64 value
`7 / 10.0 = 3152519739159347 / 2^52`, which satisfies `DurOk` and `DurNear` although `10 · dur ≠ 7`; `replace_delete`
applies to the delete interval `[0 s, 0.5 s]` (boundaries on sample positions) and the result
(`0 0 0 0 0 6 7` in the code and in the model) has the original 7 samples -/
theorem ex_dur_offgrid :
    DurOk 4503599627370496 ⟨1, 10, [1, 2, 3, 4, 5, 6, 7]⟩ 3152519739159347 ∧
    DurNear 4503599627370496 ⟨1, 10, [1, 2, 3, 4, 5, 6, 7]⟩ 3152519739159347 ∧
    ¬ OnGrid 4503599627370496 10 3152519739159347 ∧
    ∃ out, readFramesAtTimes 4503599627370496 ⟨1, 10, [1, 2, 3, 4, 5, 6, 7]⟩ 3152519739159347 none
        [(0, 2251799813685248)] (some (generateSilence 4503599627370496 10 1)) = .ok out ∧ out.length = 7 := by
  refine ⟨by decide, by decide, ?_, ?_⟩
  · rintro ⟨m, hm⟩
    omega
  · obtain ⟨out, h1, h2, _⟩ := replace_delete 4503599627370496 (by decide) ⟨1, 10, [1, 2, 3, 4, 5, 6, 7]⟩ 3152519739159347
      (by decide) (by decide) _ (silence_genOk _ _) [(0, 2251799813685248)] (by decide)
      (by
        intro p hp
        simp only [List.mem_singleton] at hp
        subst hp
        exact ⟨⟨0, by decide⟩, ⟨5, by decide⟩⟩)
    exact ⟨out, h1, h2⟩

/-- … and the theorems then give the concrete results (keep, delete, empty keep list) -/
theorem ex_results :
    readFramesAtTimes 8 exFile 16 (some exKeep) [] none = .ok [3, 4, 5, 6, 11, 12, 13, 14, 15, 16] ∧
    readFramesAtTimes 8 exFile 16 none exKeep none = .ok [1, 2, 7, 8, 9, 10] ∧
    readFramesAtTimes 8 exFile 16 (some []) [] none = .ok [] ∧
    complement 0 exKeep 16 = [(0, 2), (6, 10)] := by
  obtain ⟨h1, _, h2, _⟩ := ex_hypotheses
  refine ⟨?_, ?_, ?_, by decide⟩
  · rw [keep_spec_sorted 8 (by decide) exFile 16 h1 exKeep h2]; decide
  · rw [delete_spec_sorted 8 (by decide) exFile 16 h1 exKeep h2]; decide
  · rw [keep_spec_sorted 8 (by decide) exFile 16 h1 [] (by decide)]; rfl

/-- off the sample grid (times in 1/80 s): each boundary is rounded once, so the windows of a delete list and of
its complement tile the recording — nothing is dropped or read twice -/
theorem ex_offgrid :
    DurOk 80 exFile 160 ∧ SortedDisjoint [(23, 47), (47, 101)] 0 160 ∧
    complement 0 [(23, 47), (47, 101)] 160 = [(0, 23), (101, 160)] ∧
    [(0, 23), (23, 47), (47, 101), (101, 160)].flatMap (window 80 exFile) = exFile.data := by decide

/-! ### overlapping lists: disjointness is assumed by the property, it is not enforced by the code -/

/-- evaluation of `_computeKeepDeleteIntervals` for a keep list, given what `invertIntervalList` returns and the
sorted arrangement of the marked intervals -/
theorem kd_keep_eval (a b : Int) (K inv : List (Int × Int)) (ms : List Marked) (hK : K ≠ [])
    (hinv : invertIntervalList K (some a) (some b) = .ok inv)
    (hperm : (K.map markKeep ++ inv.map markDelete).Perm ms) (hs : ms.Pairwise (fun x y => Marked.le x y = true)) :
    computeKeepDelete a b (some K) [] = .ok ms := by
  unfold computeKeepDelete
  simp only [Option.getD_some, isEmpty_false K hK, List.isEmpty_nil, Bool.not_false, Bool.not_true, Bool.and_false,
    Bool.false_and, Option.isNone_some, Bool.false_eq_true, if_false]
  rw [hinv]
  exact congrArg Except.ok (mergeSort_eq_of_sorted_perm _ _ hperm hs)

theorem kd_delete_eval (a b : Int) (D inv : List (Int × Int)) (ms : List Marked) (hD : D ≠ [])
    (hinv : invertIntervalList D (some a) (some b) = .ok inv)
    (hperm : (inv.map markKeep ++ D.map markDelete).Perm ms) (hs : ms.Pairwise (fun x y => Marked.le x y = true)) :
    computeKeepDelete a b none D = .ok ms := by
  unfold computeKeepDelete
  simp only [Option.getD_none, isEmpty_false D hD, List.isEmpty_nil, Bool.not_false, Bool.not_true, Bool.and_false,
    Bool.and_true, Bool.false_eq_true, if_false, if_true]
  rw [hinv]
  exact congrArg Except.ok (mergeSort_eq_of_sorted_perm _ _ hperm hs)

theorem ex_invert_overlap : invertIntervalList [((2 : Int), (6 : Int)), (4, 8)] (some 0) (some 16) =
    .ok [(0, 2), (6, 4), (8, 16)] := by
  have hs : [((2 : Int), (6 : Int)), (4, 8)].mergeSort pairLe = [(2, 6), (4, 8)] :=
    List.mergeSort_of_pairwise (by decide)
  unfold invertIntervalList
  rw [hs]
  decide

theorem ex_invert_nested (e : Int) (he : e = 12 ∨ e = 24) :
    invertIntervalList [((2 : Int), e), (4, 8)] (some 0) (some 16) = .ok [(0, 2), (e, 4), (8, 16)] := by
  rcases he with rfl | rfl
  · have hs : [((2 : Int), (12 : Int)), (4, 8)].mergeSort pairLe = [(2, 12), (4, 8)] :=
      List.mergeSort_of_pairwise (by decide)
    unfold invertIntervalList
    rw [hs]
    decide
  · have hs : [((2 : Int), (24 : Int)), (4, 8)].mergeSort pairLe = [(2, 24), (4, 8)] :=
      List.mergeSort_of_pairwise (by decide)
    unfold invertIntervalList
    rw [hs]
    decide

/-- **overlapping keep intervals are not rejected: the shared stretch is returned twice** (the model mirrors the
code: `readFramesAtTimes(wav, keepIntervals=[(0.25, 0.75), (0.5, 1.0)])` on 16 one-byte samples at 8 Hz returns
`3 4 5 6 5 6 7 8`; "the gap" between the two is the reversed piece `(0.75, 0.5, 'delete')`).  Outside the property's
quantifier ("lists of disjoint intervals"), but nothing in the code or its documentation asks for disjointness. -/
theorem overlap_keep_counterexample :
    ¬ DisjointIn [(2, 6), (4, 8)] 0 16 ∧
    computeKeepDelete 0 16 (some [(2, 6), (4, 8)]) [] =
      .ok [⟨0, 2, false⟩, ⟨2, 6, true⟩, ⟨4, 8, true⟩, ⟨6, 4, false⟩, ⟨8, 16, false⟩] ∧
    readFramesAtTimes 8 exFile 16 (some [(2, 6), (4, 8)]) [] none = .ok [3, 4, 5, 6, 5, 6, 7, 8] := by
  have hkd := kd_keep_eval 0 16 [(2, 6), (4, 8)] _
    [⟨0, 2, false⟩, ⟨2, 6, true⟩, ⟨4, 8, true⟩, ⟨6, 4, false⟩, ⟨8, 16, false⟩] (by simp) ex_invert_overlap
    (by decide) (by decide)
  refine ⟨by decide, hkd, ?_⟩
  unfold readFramesAtTimes
  rw [hkd]
  decide

/-- **overlapping delete intervals are not rejected either**: with a delete interval *nested* in another the audio
between the inner end and the outer end is kept although it lies inside a deleted interval (samples 9–12 of
`readFramesAtTimes(wav, deleteIntervals=[(0.25, 1.5), (0.5, 1.0)])`), and with a replacement generator the overlap is
replaced twice, so the result is longer than the recording (18 instead of 16 samples for
`deleteIntervals=[(0.25, 0.75), (0.5, 1.0)]` with `generateSilence`) -/
theorem nested_delete_counterexample :
    readFramesAtTimes 8 exFile 16 none [(2, 12), (4, 8)] none = .ok [1, 2, 9, 10, 11, 12, 13, 14, 15, 16] ∧
    readFramesAtTimes 8 exFile 16 none [(2, 6), (4, 8)] (some (generateSilence 8 8 1)) =
      .ok [1, 2, 0, 0, 0, 0, 0, 0, 0, 0, 9, 10, 11, 12, 13, 14, 15, 16] := by
  have hkd1 := kd_delete_eval 0 16 [(2, 12), (4, 8)] _
    [⟨0, 2, true⟩, ⟨2, 12, false⟩, ⟨4, 8, false⟩, ⟨8, 16, true⟩, ⟨12, 4, true⟩] (by simp)
    (ex_invert_nested 12 (Or.inl rfl)) (by decide) (by decide)
  have hkd2 := kd_delete_eval 0 16 [(2, 6), (4, 8)] _
    [⟨0, 2, true⟩, ⟨2, 6, false⟩, ⟨4, 8, false⟩, ⟨6, 4, true⟩, ⟨8, 16, true⟩] (by simp) ex_invert_overlap
    (by decide) (by decide)
  constructor
  · unfold readFramesAtTimes
    rw [hkd1]
    decide
  · unfold readFramesAtTimes
    rw [hkd2]
    decide

/-- **a time beyond the recording is not rejected when the interval holding it has another one nested inside**: the
bounds check looks at the end of the interval that *starts* last.  As a keep list the outer interval is read up to the
end of the recording (and the inner one a second time); as a delete list the reversed "gap" `(3.0, 0.5)` is read as an empty
stretch (before the repair 3f424d1 `setpos` raised `wave.Error`) instead of the documented `ArgumentError`
(`keepIntervals / deleteIntervals = [(0.25, 3.0), (0.5, 1.0)]` on a 2 s recording) -/
theorem nested_out_of_range_counterexample :
    readFramesAtTimes 8 exFile 16 (some [(2, 24), (4, 8)]) [] none =
      .ok [3, 4, 5, 6, 7, 8, 9, 10, 11, 12, 13, 14, 15, 16, 5, 6, 7, 8] ∧
    readFramesAtTimes 8 exFile 16 none [(2, 24), (4, 8)] none = .ok [1, 2, 9, 10, 11, 12, 13, 14, 15, 16] := by
  have hkd1 := kd_keep_eval 0 16 [(2, 24), (4, 8)] _
    [⟨0, 2, false⟩, ⟨2, 24, true⟩, ⟨4, 8, true⟩, ⟨8, 16, false⟩, ⟨24, 4, false⟩] (by simp)
    (ex_invert_nested 24 (Or.inr rfl)) (by decide) (by decide)
  have hkd2 := kd_delete_eval 0 16 [(2, 24), (4, 8)] _
    [⟨0, 2, true⟩, ⟨2, 24, false⟩, ⟨4, 8, false⟩, ⟨8, 16, true⟩, ⟨24, 4, true⟩] (by simp)
    (ex_invert_nested 24 (Or.inr rfl)) (by decide) (by decide)
  constructor
  · unfold readFramesAtTimes
    rw [hkd1]
    decide
  · unfold readFramesAtTimes
    rw [hkd2]
    decide

/-- the order of the list does not matter (the concrete instance of `keep_spec` / `replace_delete` for a shuffled
list) -/
theorem ex_unsorted :
    DisjointIn [(10, 16), (2, 4), (4, 6)] 0 16 ∧ ¬ SortedDisjoint [(10, 16), (2, 4), (4, 6)] 0 16 ∧
    sortIv [(10, 16), (2, 4), (4, 6)] = exKeep ∧
    readFramesAtTimes 8 exFile 16 (some [(10, 16), (2, 4), (4, 6)]) [] none = .ok [3, 4, 5, 6, 11, 12, 13, 14, 15, 16] ∧
    readFramesAtTimes 8 exFile 16 none [(10, 16), (2, 4), (4, 6)] none = .ok [1, 2, 7, 8, 9, 10] := by
  have hp : [((10 : Int), (16 : Int)), (2, 4), (4, 6)].Perm exKeep := by decide
  have hsort : sortIv [(10, 16), (2, 4), (4, 6)] = exKeep := by
    rw [sortIv_eq_of_perm hp]
    exact sortIv_of_sorted exKeep (by decide) (by decide)
  have hd : DisjointIn [(10, 16), (2, 4), (4, 6)] 0 16 := by decide
  refine ⟨hd, by decide, hsort, ?_, ?_⟩
  · rw [keep_spec 8 (by decide) exFile 16 (by decide) _ hd, hsort]; decide
  · rw [delete_spec 8 (by decide) exFile 16 (by decide) _ hd, hsort]; decide

example : DurOk 8 exFile2 8 ∧ SortedDisjoint [(0, 3), (5, 8)] 0 8 := by decide
/-- a duration that is the binary64 quotient rather than the exact one still satisfies `DurOk`
(3 samples at 10 Hz: `3 / 10.0 = 5404319552844595 / 2^54`) -/
example : DurOk 18014398509481984 ⟨1, 10, [1, 2, 3]⟩ 5404319552844595 := by decide

-- evaluated illustrations (interpreter tests, not proofs)
#guard (computeKeepDelete 0 16 (some exKeep) []).toOption ==
  some [⟨0, 2, false⟩, ⟨2, 4, true⟩, ⟨4, 6, true⟩, ⟨6, 10, false⟩, ⟨10, 16, true⟩]
#guard (computeKeepDelete 0 16 none exKeep).toOption ==
  some [⟨0, 2, true⟩, ⟨2, 4, false⟩, ⟨4, 6, false⟩, ⟨6, 10, true⟩, ⟨10, 16, false⟩]
#guard (computeKeepDelete 0 16 none [(0, 16)]).toOption == some [⟨0, 16, false⟩]
#guard (computeKeepDelete 0 16 (some []) []).toOption == some [⟨0, 16, false⟩]
#guard (computeKeepDelete 0 16 (some []) exKeep).toOption == (computeKeepDelete 0 16 none exKeep).toOption
#guard (computeKeepDelete 0 16 (some [(3, 3)]) []).toOption == none
#guard readFramesAtTimes 8 exFile 16 (some exKeep) [] (some (generateSilence 8 8 1)) =
  .ok [0, 0, 3, 4, 5, 6, 0, 0, 0, 0, 11, 12, 13, 14, 15, 16]
#guard readFramesAtTimes 8 exFile 16 none exKeep (some (generateSilence 8 8 1)) =
  .ok [1, 2, 0, 0, 0, 0, 7, 8, 9, 10, 0, 0, 0, 0, 0, 0]
#guard readFramesAtTimes 8 exFile 16 none [(0, 16)] none = .ok []
#guard readFramesAtTimes 8 exFile 16 none [] none = .ok exFile.data
#guard readFramesAtTimes 8 exFile 16 (some []) [] (some (generateSilence 8 8 1)) = .ok (List.replicate 16 0)
#guard readFramesAtTimes 8 exFile 16 (some [(2, 4)]) [(6, 8)] none = .error (.praat .ArgumentError)
#guard readFramesAtTimes 8 exFile 16 (some [(2, 17)]) [] none = .error (.praat .ArgumentError)
#guard readFramesAtTimes 8 exFile 16 none [(20, 24)] none = .error (.praat .ArgumentError)
#guard readFramesAtTimes 8 exFile 16 (some [(-8, 4)]) [] none = .error (.praat .ArgumentError)
#guard readFramesAtTimes 8 exFile 16 none [(-8, 4)] none = .error (.praat .ArgumentError)
#guard readFramesAtTimes 8 exFile2 8 none [(3, 5)] (some (generateSilence 8 8 2)) =
  .ok [1, 0, 2, 0, 3, 0, 0, 0, 0, 0, 6, 0, 7, 0, 8, 0]
#guard readFramesAtTimes 80 exFile 160 none [(23, 47), (47, 101)] none = .ok [1, 2, 11, 12, 13, 14, 15, 16]
-- overlapping keep list (malformed): the stretch is read twice, a negative replacement duration yields nothing
#guard readFramesAtTimes 8 exFile 16 (some [(2, 6), (4, 8)]) [] (some (generateSilence 8 8 1)) =
  .ok [0, 0, 3, 4, 5, 6, 5, 6, 7, 8, 0, 0, 0, 0, 0, 0, 0, 0]
#guard generateSilence 10 8 2 3 = [0, 0, 0, 0] && generateSilence 10 8 2 (-3) = [] && sineCount 2 8 1 = 4
#guard (generateSineWave 2 8 1 (fun i => [0, 127, 0, -127][i]!) 1) = .ok [0, 127, 0, 129]
#guard extractSubwav exFile ⟨3, 10⟩ ⟨8, 10⟩ = .ok ⟨1, 8, [3, 4, 5, 6]⟩
#guard outputName "rec" .default 12 3 "a" = "rec_03" && outputName "rec" .append 12 3 "a" = "rec_03_a" &&
  outputName "rec" .appendNoI 12 3 "a" = "rec_a" && outputName "rec" .label 12 3 "a" = "a" &&
  outputName "rec" .default 9 3 "a" = "rec_3" && outputName "rec" .default 100 7 "a" = "rec_007" &&
  outputName "my%20file" .default 3 1 "a" = "my%20file_1"

def exTg : Tg Int := ⟨[.I ⟨"words", [⟨4, 8, "a"⟩, ⟨8, 12, "b"⟩], 0, 16⟩, .I ⟨"phones", [⟨2, 6, "p"⟩], 0, 16⟩,
  .P ⟨"pts", [⟨8, "x"⟩], 0, 16⟩], some 0, some 16⟩

#guard ((splitAudioOnTier (fun k => ⟨k, 8⟩) exFile exTg "words" "rec" .all .append false none).toOption.map
    fun outs => outs.map fun o => (o.name, o.wav.data, o.tg.map fun t => (t.lo, t.hi, t.tiers.length))) ==
  some [("rec_0_a", [5, 6, 7, 8], some (some 0, some 4, 3)), ("rec_1_b", [9, 10, 11, 12], some (some 0, some 4, 3))]
#guard (splitAudioOnTier (fun k => ⟨k, 8⟩) exFile exTg "words" "rec" .off .default false (some "a")).toOption.map
    (fun outs => outs.map (·.name)) == some ["rec_0"]
#guard (splitAudioOnTier (fun k => ⟨k, 8⟩) exFile exTg "pts" "rec" .off .default false none).toOption.isNone
#guard ((splitAudioOnTier (fun k => ⟨k, 8⟩) exFile exTg "pts" "rec" .off .default false (some "x")).toOption.map (·.length)) == some 0
#guard ((splitAudioOnTier (fun k => ⟨k, 8⟩) exFile exTg "phones" "rec" .all .default false (some "p")).toOption.map (·.length)) == some 0
#guard ((splitTg exTg 4 8 true (.only "phones")).toOption.map fun o => o.map fun t => t.tiers.length) == some (some 1)

end C17
