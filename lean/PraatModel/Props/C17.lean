import PraatModel.Extract
/-! # C17 — property theorems (being filled) -/
