import PraatModel.Props.C07

/-!
# C08 — insertSpace opens exactly the requested gap and eraseRegion undoes it

Exact arithmetic (`Int` timestamps of any size, entry lists of any length).
-/
namespace C08

/-- what one interval becomes when a blank of duration `d` is inserted at `s` (the property, per entry) -/
def spaceP (s d : Int) (mode : SpaceMode) (iv : Iv Int) : List (Iv Int) :=
  if iv.e ≤ s then [iv]                                   -- ends at or before s: unchanged
  else if s ≤ iv.s then [⟨iv.s + d, iv.e + d, iv.l⟩]      -- starts at or after s: moved by d
  else match mode with                                    -- straddles s
    | .stretch => [⟨iv.s, iv.e + d, iv.l⟩]
    | .split => [⟨iv.s, s, iv.l⟩, ⟨s + d, iv.e + d, iv.l⟩]
    | .noChange => [iv]
    | .error => []

def Straddles (s : Int) (iv : Iv Int) : Prop := iv.s < s ∧ s < iv.e

theorem spaceOne_eq (s d : Int) (mode : SpaceMode) (iv : Iv Int) (h : mode = .error → ¬ Straddles s iv) :
    spaceOne s d mode iv = some (spaceP s d mode iv) := by
  unfold spaceOne spaceP Straddles at *
  by_cases h1 : iv.e ≤ s
  · simp [h1]
  · by_cases h2 : s ≤ iv.s
    · simp [h1, h2]
    · simp only [h1, h2, if_false]
      cases mode <;> simp_all

theorem spaceAll_eq (s d : Int) (mode : SpaceMode) (es : List (Iv Int))
    (h : mode = .error → ∀ iv ∈ es, ¬ Straddles s iv) :
    spaceAll s d mode es = some (es.flatMap (spaceP s d mode)) := by
  induction es with
  | nil => rfl
  | cons x xs ih =>
    simp only [spaceAll, List.flatMap_cons]
    rw [spaceOne_eq s d mode x (fun hm => h hm x (by simp)),
      ih (fun hm iv hiv => h hm iv (List.mem_cons_of_mem _ hiv))]
    rfl

theorem spaceAll_error (s d : Int) (es : List (Iv Int)) (iv : Iv Int) (hiv : iv ∈ es) (hs : Straddles s iv) :
    spaceAll s d .error es = none := by
  induction es with
  | nil => simp at hiv
  | cons x xs ih =>
    simp only [spaceAll]
    rcases List.mem_cons.1 hiv with rfl | h
    · have : spaceOne s d .error iv = none := by
        unfold spaceOne Straddles at *
        simp [show ¬ iv.e ≤ s by omega, show ¬ s ≤ iv.s by omega]
      simp [this]
    · rw [ih h]
      cases spaceOne s d .error x <;> rfl

/-- every piece lies inside the image extent of its source, has positive length and the source's label -/
theorem spaceP_props (s d : Int) (hd : 0 < d) (mode : SpaceMode) (iv x : Iv Int) (hiv : iv.s < iv.e)
    (hx : x ∈ spaceP s d mode iv) :
    x.s < x.e ∧ x.l = iv.l ∧
    (if s ≤ iv.s then iv.s + d else iv.s) ≤ x.s ∧
    x.e ≤ (if iv.e ≤ s then iv.e else iv.e + d) ∧ iv.s ≤ x.s ∧ x.e ≤ iv.e + d := by
  obtain ⟨s0, e0, l⟩ := iv
  unfold spaceP at hx
  simp only at hiv hx ⊢
  by_cases h1 : e0 ≤ s
  · simp only [h1, if_true, List.mem_singleton] at hx; subst hx
    simp only [h1, if_true]
    refine ⟨hiv, by trivial, ?_, by omega, by omega, by omega⟩
    split <;> omega
  · by_cases h2 : s ≤ s0
    · simp only [h1, h2, if_false, if_true, List.mem_singleton] at hx; subst hx
      simp only [h1, h2, if_false, if_true]
      exact ⟨by omega, by trivial, by omega, by omega, by omega, by omega⟩
    · simp only [h1, h2, if_false] at hx ⊢
      cases mode <;> simp only [List.mem_cons, List.mem_singleton, List.not_mem_nil, or_false] at hx
      · subst hx; exact ⟨by simp only; omega, rfl, by simp only; omega, by simp only; omega, by simp only; omega, by simp only; omega⟩
      · rcases hx with rfl | rfl
        · exact ⟨by simp only; omega, rfl, by simp only; omega, by simp only; omega, by simp only; omega, by simp only; omega⟩
        · exact ⟨by simp only; omega, rfl, by simp only; omega, by simp only; omega, by simp only; omega, by simp only; omega⟩
      · subst hx; exact ⟨by simp only; omega, rfl, by simp only; omega, by simp only; omega, by simp only; omega, by simp only; omega⟩

theorem flatMap_spaceP_wf (s d : Int) (hd : 0 < d) (mode : SpaceMode) (es : List (Iv Int))
    (hp : Pos es) (hdj : Disj es) (hs : Stripped es) :
    Pos (es.flatMap (spaceP s d mode)) ∧ Disj (es.flatMap (spaceP s d mode)) ∧
    Stripped (es.flatMap (spaceP s d mode)) := by
  refine ⟨?_, ?_, ?_⟩
  · intro x hx
    obtain ⟨iv, hiv, hxp⟩ := List.mem_flatMap.1 hx
    exact (spaceP_props s d hd mode iv x (hp iv hiv) hxp).1
  · unfold Disj
    rw [List.pairwise_flatMap]
    constructor
    · intro iv hiv
      have := hp iv hiv
      obtain ⟨s0, e0, l⟩ := iv
      unfold spaceP
      simp only at this ⊢
      by_cases h1 : e0 ≤ s
      · simp [h1]
      · by_cases h2 : s ≤ s0
        · simp [h1, h2]
        · simp only [h1, h2, if_false]
          cases mode <;> simp
          omega
    · have hdj' : es.Pairwise (fun x y => x.s < x.e ∧ y.s < y.e ∧ x.e ≤ y.s) :=
        hdj.imp_of_mem (fun hx hy hxy => ⟨hp _ hx, hp _ hy, hxy⟩)
      refine hdj'.imp ?_
      intro iv jv ⟨h1, h2, h3⟩ x hx y hy
      have px := spaceP_props s d hd mode iv x h1 hx
      have py := spaceP_props s d hd mode jv y h2 hy
      obtain ⟨_, _, _, pxe, _, pxe'⟩ := px
      obtain ⟨_, _, pys, _, pys', _⟩ := py
      by_cases c1 : iv.e ≤ s
      · simp only [c1, if_true] at pxe; omega
      · have c2 : s ≤ jv.s := by omega
        simp only [c2, if_true] at pys; omega
  · intro x hx
    obtain ⟨iv, hiv, hxp⟩ := List.mem_flatMap.1 hx
    rw [(spaceP_props s d hd mode iv x (hp iv hiv) hxp).2.1]; exact hs iv hiv

/-- **insertSpace**: on a well-formed tier, for ANY insertion time `s` (before the span, inside it, beyond its end —
the former hypothesis `lo ≤ s` was never used) and `d > 0` (the property's quantifier; the code does not check the
sign of `duration` — replayed: `d = 0` in 'split' mode cuts the straddling interval in two, `d < 0` moves entries back
and raises TextgridStateError if they then overlap; `IntervalTier('T',[],0,10).insertSpace(5,-20)` returns the span
`[-10, 0]`, before fix 9432f3b `[0, -10]`; whatever is returned is well-formed, `C05.step_wf`; see lean/HYPOTHESES.md) the call succeeds unless the mode is `error`
and an interval straddles `s`; the result is well-formed, every entry is replaced by its `spaceP` image (entries
ending at or before `s` unchanged, entries starting at or after `s` moved by exactly `d`, the straddler treated
per mode), the span start is unchanged and the span end grows by exactly `d`. -/
theorem insert_spec (t : ITier Int) (hwf : t.WF) (s d : Int) (hd : 0 < d) (mode : SpaceMode)
    (hm : mode = .error → ∀ iv ∈ t.es, ¬ Straddles s iv) :
    ∃ t', t.insertSpace s d mode = .ok t' ∧ t'.WF ∧ t'.name = t.name ∧
      t'.es = t.es.flatMap (spaceP s d mode) ∧ t'.lo = t.lo ∧ t'.hi = t.hi + d := by
  have hw := flatMap_spaceP_wf s d hd mode t.es hwf.pos hwf.disj hwf.stripped
  obtain ⟨t', e1, e2, e3, e4, e5, e6⟩ := mkITier_wf t.name _ t.lo (t.hi + d) (by have := hwf.span; omega) hw.1 hw.2.1 hw.2.2
  have hb : ∀ x ∈ t.es.flatMap (spaceP s d mode), t.lo ≤ x.s ∧ x.e ≤ t.hi + d := by
    intro x hx
    obtain ⟨iv, hiv, hxp⟩ := List.mem_flatMap.1 hx
    have p := spaceP_props s d hd mode iv x (hwf.pos iv hiv) hxp
    have := hwf.inLo iv hiv
    have := hwf.inHi iv hiv
    omega
  refine ⟨t', ?_, e2, e4, e3, ?_, ?_⟩
  · unfold ITier.insertSpace
    rw [spaceAll_eq s d mode t.es hm]
    simp only [ITier.new, Option.getD_some, Option.getD_none]
    exact e1
  · rw [e5]; apply hullMin_eq_of_le
    intro x hx; obtain ⟨z, hz, rfl⟩ := List.mem_map.1 hx; exact (hb z hz).1
  · rw [e6]; apply hullMax_eq_of_ge
    intro x hx; obtain ⟨z, hz, rfl⟩ := List.mem_map.1 hx; exact (hb z hz).2

/-- `error` mode rejects a straddling interval with `ArgumentError` -/
theorem insert_error_mode (t : ITier Int) (s d : Int) (iv : Iv Int) (hiv : iv ∈ t.es) (hs : Straddles s iv) :
    t.insertSpace s d .error = .error .ArgumentError := by
  unfold ITier.insertSpace
  rw [spaceAll_error s d t.es iv hiv hs]

/-- label function of the result, away from the gap: before `s` unchanged, from `s + d` on the tier `d` earlier
(`stretch` and `split`) -/
theorem insert_labelAt_outside (t : ITier Int) (hwf : t.WF) (s d : Int) (hd : 0 < d) (mode : SpaceMode)
    (hmode : mode = .stretch ∨ mode = .split) (x : Int) (hx : x < s ∨ s + d ≤ x) :
    labelAt (t.es.flatMap (spaceP s d mode)) x = labelAt t.es (if x < s then x else x - d) := by
  have hw := flatMap_spaceP_wf s d hd mode t.es hwf.pos hwf.disj hwf.stripped
  apply Option.ext
  intro l
  rw [labelAt_some_iff _ hw.1 hw.2.1.setDisj, labelAt_some_iff _ hwf.pos hwf.disj.setDisj]
  constructor
  · rintro ⟨y, hy, h1, h2, h3⟩
    obtain ⟨iv, hiv, hyp⟩ := List.mem_flatMap.1 hy
    have hpos := hwf.pos iv hiv
    refine ⟨iv, hiv, ?_⟩
    obtain ⟨s0, e0, l0⟩ := iv
    unfold spaceP at hyp
    simp only at hyp hpos ⊢
    by_cases c1 : e0 ≤ s
    · simp only [c1, if_true, List.mem_singleton] at hyp; subst hyp
      simp only at h1 h2 h3
      have : x < s := by omega
      simp only [this, if_true]; exact ⟨h1, h2, h3⟩
    · by_cases c2 : s ≤ s0
      · simp only [c1, c2, if_false, if_true, List.mem_singleton] at hyp; subst hyp
        simp only at h1 h2 h3
        have : ¬ x < s := by omega
        simp only [this, if_false]; exact ⟨by omega, by omega, h3⟩
      · simp only [c1, c2, if_false] at hyp
        rcases hmode with rfl | rfl
        · simp only [List.mem_singleton] at hyp; subst hyp
          simp only at h1 h2 h3
          split <;> exact ⟨by omega, by omega, h3⟩
        · simp only [List.mem_cons, List.mem_singleton, List.not_mem_nil, or_false] at hyp
          rcases hyp with rfl | rfl
          · simp only at h1 h2 h3
            have : x < s := by omega
            simp only [this, if_true]; exact ⟨h1, by omega, h3⟩
          · simp only at h1 h2 h3
            have : ¬ x < s := by omega
            simp only [this, if_false]; exact ⟨by omega, by omega, h3⟩
  · rintro ⟨iv, hiv, h1, h2, h3⟩
    have hpos := hwf.pos iv hiv
    obtain ⟨s0, e0, l0⟩ := iv
    simp only at h1 h2 h3 hpos
    by_cases c1 : e0 ≤ s
    · refine ⟨⟨s0, e0, l0⟩, List.mem_flatMap.2 ⟨_, hiv, by simp [spaceP, c1]⟩, ?_⟩
      by_cases hxs : x < s
      · simp only [hxs, if_true] at h1 h2; exact ⟨h1, h2, h3⟩
      · simp only [hxs, if_false] at h1 h2; omega
    · by_cases c2 : s ≤ s0
      · refine ⟨⟨s0 + d, e0 + d, l0⟩, List.mem_flatMap.2 ⟨_, hiv, by simp [spaceP, c1, c2]⟩, ?_⟩
        by_cases hxs : x < s
        · simp only [hxs, if_true] at h1 h2; omega
        · simp only [hxs, if_false] at h1 h2; exact ⟨by simp only; omega, by simp only; omega, h3⟩
      · rcases hmode with rfl | rfl
        · refine ⟨⟨s0, e0 + d, l0⟩, List.mem_flatMap.2 ⟨_, hiv, by simp [spaceP, c1, c2]⟩, ?_⟩
          by_cases hxs : x < s
          · simp only [hxs, if_true] at h1 h2; exact ⟨h1, by simp only; omega, h3⟩
          · simp only [hxs, if_false] at h1 h2; exact ⟨by simp only; omega, by simp only; omega, h3⟩
        · by_cases hxs : x < s
          · simp only [hxs, if_true] at h1 h2
            exact ⟨⟨s0, s, l0⟩, List.mem_flatMap.2 ⟨_, hiv, by simp [spaceP, c1, c2]⟩, h1, hxs, h3⟩
          · simp only [hxs, if_false] at h1 h2
            exact ⟨⟨s + d, e0 + d, l0⟩, List.mem_flatMap.2 ⟨_, hiv, by simp [spaceP, c1, c2]⟩,
              by simp only; omega, by simp only; omega, h3⟩

/-- `split`: nothing is labelled inside the inserted gap -/
theorem insert_split_gap (t : ITier Int) (hwf : t.WF) (s d : Int) (hd : 0 < d) (x : Int) (hx : s ≤ x ∧ x < s + d) :
    labelAt (t.es.flatMap (spaceP s d .split)) x = none := by
  rw [labelAt_none_iff]
  intro y hy
  obtain ⟨iv, hiv, hyp⟩ := List.mem_flatMap.1 hy
  have hpos := hwf.pos iv hiv
  obtain ⟨s0, e0, l0⟩ := iv
  unfold spaceP at hyp
  simp only at hyp hpos
  by_cases c1 : e0 ≤ s
  · simp only [c1, if_true, List.mem_singleton] at hyp; subst hyp; simp only; omega
  · by_cases c2 : s ≤ s0
    · simp only [c1, c2, if_false, if_true, List.mem_singleton] at hyp; subst hyp; simp only; omega
    · simp only [c1, c2, if_false, List.mem_cons, List.mem_singleton, List.not_mem_nil, or_false] at hyp
      rcases hyp with rfl | rfl <;> (simp only; omega)

/-- **inverse**: for `stretch` and `split`, erasing the inserted region with shrinking restores the original
label-at-every-time function and the original span.  No hypothesis about the intermediate tier: `t1` is whatever
`insertSpace` returned.  `lo ≤ s ≤ hi` is the property's quantifier ("all s in or at the edges of the span") and is
needed: for `s` outside the span the inserted region `[s, s + d]` sticks out of the new span `[lo, hi + d]`, the shrink
step cuts out only the part inside it (fix A28) and the span end does not come back to `hi` (replayed:
`IntervalTier('T',[(3,5,'a')],2,10).insertSpace(0,1,'stretch').eraseRegion(0,1,'truncate',True)` ends at 11, not 10). -/
theorem insert_erase_inverse (t : ITier Int) (hwf : t.WF) (s d : Int) (hd : 0 < d) (hlo : t.lo ≤ s) (hhi : s ≤ t.hi)
    (mode : SpaceMode) (hmode : mode = .stretch ∨ mode = .split)
    (t1 : ITier Int) (h1 : t.insertSpace s d mode = .ok t1) :
    ∃ t2, t1.eraseRegion s (s + d) .truncate true = .ok t2 ∧ t2.WF ∧ t2.lo = t.lo ∧ t2.hi = t.hi ∧
      ∀ x, labelAt t2.es x = labelAt t.es x := by
  obtain ⟨t1', e1, w1, _, es1, lo1, hi1⟩ := insert_spec t hwf s d hd mode (by rcases hmode with rfl | rfl <;> simp)
  rw [h1] at e1; cases e1
  obtain ⟨u, t2, hu, e2, w2, _, lo2, hi2, _, _⟩ :=
    C07.erase_shrink t1 w1 s (s + d) (by omega) (by rw [lo1]; exact hlo) (by rw [hi1]; omega) .truncate (by decide)
  refine ⟨t2, e2, w2, by rw [lo2, lo1], by rw [hi2, hi1]; omega, ?_⟩
  intro x
  rw [C07.erase_shrink_labelAt t1 w1 s (s + d) (by omega) (by rw [lo1]; exact hlo) (by rw [hi1]; omega) t2 e2 x]
  by_cases hx : x < s
  · simp only [hx, if_true]
    rw [es1, insert_labelAt_outside t hwf s d hd mode hmode x (Or.inl hx)]
    simp [hx]
  · simp only [hx, if_false]
    rw [es1, insert_labelAt_outside t hwf s d hd mode hmode (x + (s + d - s)) (Or.inr (by omega))]
    have : ¬ x + (s + d - s) < s := by omega
    simp only [this, if_false]
    congr 1; omega

/-- **point tiers**, ANY insertion time `s`: points at `t ≤ s` stay, later points move by exactly `d`; labels and order
kept; span end `+ d` -/
theorem pinsert_spec (t : PTier Int) (hwf : t.WF) (s d : Int) (hd : 0 < d) :
    ∃ t', t.insertSpace s d = .ok t' ∧ t'.WF ∧ t'.name = t.name ∧
      t'.ps = t.ps.map (fun p => if p.t ≤ s then p else ⟨p.t + d, p.l⟩) ∧ t'.lo = t.lo ∧ t'.hi = t.hi + d := by
  have hsorted : (t.ps.map (fun p => if p.t ≤ s then p else (⟨p.t + d, p.l⟩ : Pt Int))).Pairwise
      (fun a b => Pt.le a b = true) := by
    rw [List.pairwise_map]
    refine hwf.sorted.imp ?_
    intro a b hab
    have := Pt.le_time hab
    simp only [Pt.le] at hab ⊢
    by_cases ha : a.t ≤ s <;> by_cases hb : b.t ≤ s <;> simp only [ha, hb, if_true, if_false] <;> grind
  obtain ⟨t', e1, e2, e3, e4, e5, e6⟩ := mkPTier_wf t.name _ t.lo (t.hi + d) hsorted
    (by intro p hp; obtain ⟨q, hq, rfl⟩ := List.mem_map.1 hp
        have := hwf.stripped q hq; split <;> simpa using this)
    (by intro p hp; obtain ⟨q, hq, rfl⟩ := List.mem_map.1 hp
        have := hwf.inLo q hq; split <;> first | omega | (simp only; omega))
    (by intro p hp; obtain ⟨q, hq, rfl⟩ := List.mem_map.1 hp
        have := hwf.inHi q hq; split <;> first | omega | (simp only; omega))
    (by have := hwf.span; omega)
  exact ⟨t', by simpa [PTier.insertSpace, PTier.new] using e1, e2, e4, e3, e5, e6⟩

/-! ## non-vacuity -/
example : C07.exTier.WF ∧ (0 : Int) < 15 := ⟨C07.exTier_wf, by decide⟩
#guard (C07.exTier.insertSpace 20 15 .split).toOption.map (·.es) ==
  some [⟨10, 20, "a"⟩, ⟨35, 45, "a"⟩, ⟨45, 75, "b"⟩, ⟨95, 105, "c"⟩]
#guard ((C07.exTier.insertSpace 20 15 .split).toOption.bind fun t => (t.eraseRegion 20 35 .truncate true).toOption).map
  (fun t => (t.es, t.hi)) == some (C07.exTier.es, 100)

end C08
