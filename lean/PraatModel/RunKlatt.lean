import PraatModel.Proto

/-! # driver operations for C19: KlattGrid / point objects (extension point of `Run.lean`) -/

section
variable {α : Type} [LT α] [LE α] [DecidableLT α] [DecidableLE α] [BEq α] [Add α] [Sub α] [Tm α] [Proto α]

/-- `none` = not an operation of this group -/
def runOpKlatt (op : String) : Option (P String) :=
  match op with
  | _ => none
end
