import PraatModel.Proto
import PraatModel.Klatt

/-! # driver operations for C19: KlattGrid / point objects (extension point of `Run.lean`)

strings (texts, numerals, names) travel as `h` + hex of their UTF-8 bytes.

* units: `u_find p s start`, `u_findall p s`, `u_rfind c s hi`, `u_slice s a b`, `u_splitn c n s` (`n = -1`: no limit),
  `u_rstrip s`, `u_firsttok s`, `u_natdec n`, `u_fclass s`, `u_isint s`
* `klatt_read text`, `klatt_clean text`, `klatt_psd text`, `klatt_write tree`, `klatt_file tree pre post`,
  `klatt_slices old body`, `klatt_modsub its name k (old new)*`
* `po_read1d text`, `po_read2d text`, `po_write cls min max nrows width numerals…`, `po_writelong twoD cls …`
-/

namespace KlattRun
open Klatt

def hexNib (b : UInt8) : Option UInt8 :=
  if 48 ≤ b && b ≤ 57 then some (b - 48) else if 97 ≤ b && b ≤ 102 then some (b - 87) else none

/-- like `P.str`, with a loop instead of a recursion (texts of several 100 kB) -/
def bigStr : P String := do
  let tk ← P.tok
  let bs := tk.toUTF8
  if bs.size = 0 then throw "bad string token"
  if bs[0]! ≠ 104 then throw s!"bad string token"
  if bs.size % 2 ≠ 1 then throw "bad hex"
  let n := (bs.size - 1) / 2
  let mut out := ByteArray.emptyWithCapacity n
  for i in [0:n] do
    match hexNib bs[1 + 2 * i]!, hexNib bs[2 + 2 * i]! with
    | some x, some y => out := out.push (16 * x + y)
    | _, _ => throw "bad hex"
  match String.fromUTF8? out with
  | some s => pure s
  | none => throw "bad utf8"

def txt : P Txt := do pure (← bigStr).toList
def char : P Char := do
  match (← txt) with
  | [c] => pure c
  | _ => throw "expected a one-character string"

def otxt (s : Txt) : String := Out.str (String.ofList s)
def oint (i : Int) : String := toString i
def olist (xs : List String) : String := Out.join (toString xs.length :: xs)

def oexc {β} (f : β → String) : R β → String
  | .ok v => "ok " ++ f v
  | .error e => "err " ++ e.name

def optsToStr (ps : List (Txt × Txt)) : String :=
  Out.join (toString ps.length :: ps.map fun (a, b) => otxt a ++ " " ++ otxt b)

def oPT (p : PT) : String := Out.join [otxt p.name, otxt p.xmin, otxt p.xmax, optsToStr p.pts]
def oIT (i : IT) : String := Out.join ([otxt i.name, toString i.subs.length] ++ i.subs.map oPT)
def oSec : Sec → String
  | .tier p => "T " ++ oPT p
  | .cont n its => Out.join (["C", otxt n, toString its.length] ++ its.map oIT)
def oSecs (ss : List Sec) : String := Out.join (toString ss.length :: ss.map oSec)
def oITs (is : List IT) : String := Out.join (toString is.length :: is.map oIT)

def pPts : P (List (Txt × Txt)) := do
  let n ← P.nat
  P.many n (do let a ← txt; let b ← txt; pure (a, b))
def pPT : P PT := do
  let name ← txt; let a ← txt; let b ← txt; let pts ← pPts
  pure ⟨name, a, b, pts⟩
def pIT : P IT := do
  let name ← txt; let n ← P.nat; let subs ← P.many n pPT
  pure ⟨name, subs⟩
def pITs : P (List IT) := do let n ← P.nat; P.many n pIT
def pWSec : P WSec := do
  match (← P.tok) with
  | "T" => do let p ← pPT; pure ⟨.tier p, none⟩
  | "C" => do
    let name ← txt
    let span ← P.opt (do let a ← txt; let b ← txt; pure (a, b))
    let its ← pITs
    pure ⟨.cont name its, span⟩
  | k => throw s!"expected T or C got {k}"
/-- `<xmin> <xmax> <nsec> section*` -/
def pTree : P (Txt × Txt × List WSec) := do
  let a ← txt; let b ← txt; let n ← P.nat; let ss ← P.many n pWSec
  pure (a, b, ss)

def oPO (p : PO) : String :=
  Out.join ([otxt p.cls, otxt p.xmin, otxt p.xmax, toString p.rows.length] ++
    p.rows.map fun r => olist (r.map otxt))

def pPO : P PO := do
  let cls ← txt; let a ← txt; let b ← txt; let n ← P.nat; let w ← P.nat
  let rows ← P.many n (P.many w txt)
  pure ⟨cls, a, b, rows⟩

def fclassName : Option FClass → String
  | none => "none" | some .zero => "zero" | some .pos => "pos" | some .neg => "neg" | some .nan => "nan"

/-- the stripped slices `_getSectionHeader` cuts for every index list of a container body -/
def slices (old : Bool) (body : Txt) : List (List Txt) :=
  let ls := if old then containerIndexListsOld body else containerIndexLists body
  ls.map fun l => (List.range (l.length - 1)).map fun j =>
    stripList (pySlice body (l.getD j 0) (l.getD (j + 1) 0))

def runOp (op : String) : Option (P String) :=
  match op with
  | "u_find" => some do
    let p ← txt; let s ← txt; let st ← P.nat
    pure ("ok " ++ (match pyFind p s st with | some i => toString i | none => "-1"))
  | "u_findall" => some do
    let p ← txt; let s ← txt
    pure ("ok " ++ olist ((findAll p s).map toString))
  | "u_rfind" => some do
    let c ← char; let s ← txt; let hi ← P.nat
    pure ("ok " ++ oint (pyRfindChar c s hi))
  | "u_slice" => some do
    let s ← txt; let a ← P.int; let b ← P.int
    pure ("ok " ++ otxt (pySlice s a b))
  | "u_splitn" => some do
    let c ← char; let n ← P.int; let s ← txt
    let parts := if n < 0 then pySplit c s else pySplitN c n.toNat s
    pure ("ok " ++ olist (parts.map otxt))
  | "u_rstrip" => some do
    let s ← txt
    pure ("ok " ++ otxt (rstrip s))
  | "u_firsttok" => some do
    let s ← txt
    pure (match firstToken s with | some x => "ok " ++ otxt x | none => "err IndexError")
  | "u_natdec" => some do
    let n ← P.nat
    pure ("ok " ++ otxt (natDec n))
  | "u_fclass" => some do
    let s ← txt
    pure ("ok " ++ fclassName (fclass s))
  | "u_isint" => some do
    let s ← txt
    pure ("ok " ++ Out.bool (isIntLit s))
  | "klatt_read" => some do
    let s ← txt
    pure (oexc oSecs (openNormal s))
  | "klatt_clean" => some do
    let s ← txt
    pure ("ok " ++ otxt (cleanNumeric s))
  | "klatt_psd" => some do
    let s ← txt
    pure (oexc optsToStr (processSectionData s))
  | "klatt_write" => some do
    let (a, b, ss) ← pTree
    pure ("ok " ++ otxt (fileText a b ss))
  | "klatt_file" => some do
    let (a, b, ss) ← pTree; let pre ← txt; let post ← txt
    let w := decide (rawText a b ss = pre)
    let c := decide (cleanNumeric pre = post)
    pure (s!"ok w={Out.bool w} c={Out.bool c} " ++ oexc oSecs (openNormal post))
  | "klatt_slices" => some do
    let old ← P.bool; let body ← txt
    pure ("ok " ++ olist ((slices old body).map fun l => olist (l.map otxt)))
  | "klatt_modsub" => some do
    let its ← pITs; let name ← txt; let k ← P.nat
    let tbl ← P.many k (do let a ← txt; let b ← txt; pure (a, b))
    let f : Txt → Txt := fun v => match tbl.find? (·.1 = v) with | some (_, w) => w | none => v
    pure (oexc oITs (modifySubtiers its name f))
  | "po_read1d" => some do
    let s ← txt
    pure (oexc oPO (open1D s))
  | "po_read2d" => some do
    let s ← txt
    pure (oexc oPO (open2D s))
  | "po_write" => some do
    let p ← pPO
    pure ("ok " ++ otxt p.text)
  | "po_file" => some do
    let two ← P.bool; let p ← pPO; let short ← txt; let long ← txt
    let w := decide (p.text = short)
    let lw := decide (p.longText two = long)
    let rd := if two then open2D else open1D
    pure (s!"ok w={Out.bool w} lw={Out.bool lw} " ++ oexc oPO (rd short) ++ " | " ++ oexc oPO (rd long))
  | "po_writelong" => some do
    let two ← P.bool; let p ← pPO
    pure ("ok " ++ otxt (p.longText two))
  | _ => none

end KlattRun

/-- `none` = not an operation of this group.  `α` is the number type of the run (`Float` or `Int`). -/
def runOpKlatt (α : Type) [LT α] [LE α] [DecidableLT α] [DecidableLE α] [BEq α] [Add α] [Sub α] [Tm α] [Proto α]
    (op : String) : Option (P String) :=
  KlattRun.runOp op
