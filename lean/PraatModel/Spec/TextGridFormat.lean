import PraatModel.Quote
import PraatModel.Read

/-!
# Praat's TextGrid text format, written from the manual page "TextGrid file formats" — NOT from praatio's reader

"Free-standing" rule: a file is a sequence of tokens separated by white space; only three kinds of token carry
information — numbers, "quoted texts" (a quote inside a text is doubled) and <flags>; everything else (words such
as `xmin`, `=`, `intervals [3]:`) is comment.  The long and the short layout therefore decode identically.
-/
namespace Spec

inductive Tok
  | num (s : String)
  | text (s : String)
  | flag (s : String)
deriving Repr, BEq

def isSign (c : Char) : Bool := c == '+' || c == '-'

/-- a decimal numeral: `[+-]? (digits+ ('.' digits*)? | '.' digits+) ([eE] [+-]? digits+)?` -/
def isNumeral (w : List Char) : Bool :=
  let w1 := match w with | c :: cs => if isSign c then cs else w | [] => []
  let ip := w1.takeWhile Char.isDigit
  let r1 := w1.dropWhile Char.isDigit
  let (fp, r2, hadDot) := match r1 with
    | '.' :: cs => (cs.takeWhile Char.isDigit, cs.dropWhile Char.isDigit, true)
    | _ => ([], r1, false)
  let mantOk := !ip.isEmpty || (hadDot && !fp.isEmpty)
  let expOk := match r2 with
    | [] => true
    | e :: cs =>
      if e == 'e' || e == 'E' then
        let cs1 := match cs with | c :: ds => if isSign c then ds else cs | [] => []
        !cs1.isEmpty && cs1.all Char.isDigit
      else false
  mantOk && expOk

/-- tokenizer; `fuel` bounds the recursion (the input length suffices) -/
def tokens : Nat → List Char → Option (List Tok)
  | 0, _ => some []
  | _, [] => some []
  | fuel + 1, c :: cs =>
    if pyIsSpace c then tokens fuel cs
    else if c = q then
      match specText cs with
      | none => none                                  -- unterminated text
      | some (t, rest) => (tokens fuel rest).map (Tok.text (String.ofList t) :: ·)
    else
      let w := c :: cs.takeWhile (fun d => !pyIsSpace d)
      let rest := cs.dropWhile (fun d => !pyIsSpace d)
      let tl := tokens fuel rest
      if c == '<' && w.getLast? == some '>' then tl.map (Tok.flag (String.ofList w) :: ·)
      else if isNumeral w then tl.map (Tok.num (String.ofList w) :: ·)
      else tl

abbrev D := StateT (List Tok) Option

def num : D String := do
  match (← get) with
  | .num s :: ts => set ts; pure s
  | _ => failure
def text : D String := do
  match (← get) with
  | .text s :: ts => set ts; pure s
  | _ => failure
def flag : D String := do
  match (← get) with
  | .flag s :: ts => set ts; pure s
  | _ => failure

def rep {β} : Nat → D β → D (List β)
  | 0, _ => pure []
  | n + 1, p => do let x ← p; let xs ← rep n p; pure (x :: xs)

/-- File type, Object class, xmin, xmax, <exists>, size, then per tier: class, name, xmin, xmax, size, entries -/
def decodeD : D RawTg := do
  let ft ← text; if ft ≠ "ooTextFile" then failure
  let oc ← text; if oc ≠ "TextGrid" then failure
  let lo ← num; let hi ← num
  let ex ← flag; if ex ≠ "<exists>" then failure
  let n ← num
  let nT ← (match n.toNat? with | some k => pure k | none => failure : D Nat)
  let tiers ← rep nT do
    let cls ← text; let name ← text; let tlo ← num; let thi ← num; let cnt ← num
    let nE ← (match cnt.toNat? with | some k => pure k | none => failure : D Nat)
    let es ← rep nE (if cls == "IntervalTier" then do
        let s ← num; let e ← num; let l ← text; pure [s, e, l]
      else if cls == "TextTier" then do
        let t ← num; let l ← text; pure [t, l]
      else failure)
    pure ({ cls := cls, name := name, xmin := tlo, xmax := thi, entries := es } : RawTier)
  pure ⟨lo, hi, tiers⟩

/-- the independent reader: every declared size must match the number of items that follow, and no token may be left over -/
def decode (s : String) : Option RawTg :=
  match tokens (s.length + 1) s.toList with
  | none => none
  | some toks =>
    match decodeD.run toks with
    | some (g, []) => some g
    | _ => none

end Spec
