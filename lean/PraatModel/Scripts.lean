import PraatModel.Textgrid

/-!
# praatio_scripts.splitTierEntries / praatio_scripts.spellCheckEntries (code brought inside the model after the first build)

Both sit on top of modelled operations (crop, eraseRegion, insertEntry, the IntervalTier constructor, removeTier,
addTier).  New here: Python's `str.split()` without argument, the equal subdivision of an entry among its words,
`str.replace(ch, "")` for the punctuation list and `", ".join`.
-/

/-- `str.split()` (no argument) on a character list: maximal runs of non-white-space characters; white space is
`str.isspace` per character — the same table `pyIsSpace` that `str.strip()` uses (CPython: `Py_UNICODE_ISSPACE`) -/
def splitWsGo : List Char → List Char → List (List Char)
  | [], [] => []
  | [], cur => [cur.reverse]
  | c :: cs, cur =>
    if pyIsSpace c then (if cur.isEmpty then splitWsGo cs [] else cur.reverse :: splitWsGo cs [])
    else splitWsGo cs (c :: cur)

/-- `label.split()` -/
def pySplit (s : String) : List String := (splitWsGo s.toList []).map String.ofList

/-- the arithmetic `splitTierEntries` needs beyond `+`/`-`: `x / float(n)` and `x * i` for an `int` i -/
class SplitArith (α : Type) where
  divN : α → Nat → α
  mulN : α → Nat → α

/-- binary64: `x / float(n)`, `x * i` (CPython converts the int to a double first) -/
instance : SplitArith Float := ⟨fun x n => x / n.toFloat, fun x i => x * i.toFloat⟩
/-- exact instance: integer division — EXACT precisely when `n ∣ x`, which the theorems assume (`SplitGrid`) and the
X run guarantees by only running cases in which every division comes out on the grid k/64 -/
instance : SplitArith Int := ⟨fun x n => x / (n : Int), fun x i => x * (i : Int)⟩

section
variable {α : Type} [LT α] [LE α] [DecidableLT α] [DecidableLE α] [BEq α] [Add α] [Sub α] [Tm α] [SplitArith α]

/-- boundary `i` of the subdivision of `[s, e]` into `n` parts of length `len` (after fix S1-2 in /repo: the last
boundary is `end` itself, not `start + len * n`) -/
def splitBound (s e len : α) (n i : Nat) : α :=
  if i = n then e else s + SplitArith.mulN len i

/-- `[Interval(boundaries[i], boundaries[i+1], word) for i, word in enumerate(labelList)]` from index `i` on -/
def splitGo (s e len : α) (n : Nat) : Nat → List String → List (Iv α)
  | _, [] => []
  | i, w :: ws => ⟨splitBound s e len n i, splitBound s e len n (i + 1), w⟩ :: splitGo s e len n (i + 1) ws

/-- the body of the loop over the source entries (after fix S1-1: an entry without words yields nothing) -/
def splitWords (iv : Iv α) : List (Iv α) :=
  let ws := pySplit iv.l
  if ws.length = 0 then []
  else splitGo iv.s iv.e (SplitArith.divN (iv.e - iv.s) ws.length) ws.length 0 ws

/-- the entries of the (cropped) source: an interval tier's entries; a point tier's 2-tuples cannot be unpacked into
`start, end, label` (built-in ValueError as soon as there is one) -/
def sourceEntries (src : AnyTier α) (win : Option (α × α)) : Except Err (List (Iv α)) :=
  match src, win with
  | .I t, none => .ok t.es
  | .I t, some (a, b) => (·.es) <$> t.crop a b .truncated false
  | .P t, none => if t.ps.isEmpty then .ok [] else .error .ValueError
  | .P t, some (a, b) => do
    let c ← t.crop a b false
    if c.ps.isEmpty then .ok [] else .error .ValueError

/-- the window `(startT, endT)` if at least one of them is given; a missing one is the textgrid's bound -/
def splitWindow (g : Tg α) (startT endT : Option α) : Option (α × α) :=
  match startT, endT with
  | none, none => none
  | _, _ => some (startT.getD (g.lo.getD Tm.zero), endT.getD (g.hi.getD Tm.zero))

/-- the target tier that entries are inserted into: only with a window and an existing target.  (A point tier as
existing target of a windowed call is a type error of the caller — AttributeError inside `Point(...)`; the model
answers with the built-in ValueError and such calls are not generated.) -/
def splitTarget (g : Tg α) (tgt : String) (win : Option (α × α)) : Except Err (Option (ITier α)) :=
  match win with
  | none => .ok none
  | some (a, b) =>
    if g.names.contains tgt then
      match g.getTier tgt with
      | .ok (.I t) => some <$> t.eraseRegion a b .truncate false
      | .ok (.P _) => .error .ValueError
      | .error e => .error e
    else .ok none

/-- the tier that will carry the words: a new tier over the textgrid's span, or the erased target with every word
inserted in 'error' mode -/
def splitNewTier (g : Tg α) (tgt : String) (target : Option (ITier α)) (newEs : List (Iv α)) : Except Err (ITier α) :=
  match target with
  | none => mkITier tgt newEs g.lo g.hi
  | some t => newEs.foldlM (fun acc e => acc.insertEntry e .error) t

/-- remove the old target (if any), append the new one -/
def splitInstall (g : Tg α) (tgt : String) (nt : ITier α) : Except Err (Tg α) :=
  (if g.names.contains tgt then g.removeTier tgt else pure g) >>= fun g1 => g1.addTier (.I nt) none .warning

/-- `praatio_scripts.splitTierEntries(tg, sourceTierName, targetTierName, startT, endT)`.  The function mutates `tg`
and returns it; every step that can raise comes before the first mutation (`splitInstall` cannot fail: the name has
just been removed and the reporting mode is 'warning'), so a raising call leaves `tg` as it was. -/
def Tg.splitTierEntries (g : Tg α) (src tgt : String) (startT endT : Option α) : Except Err (Tg α) := do
  let source ← g.getTier src
  let win := splitWindow g startT endT
  let es ← sourceEntries source win
  let target ← splitTarget g tgt win
  let newEs := es.flatMap splitWords
  let nt ← splitNewTier g tgt target newEs
  splitInstall g tgt nt

/-! ## spellCheckEntries -/

/-- `for char in punctuationList: label = label.replace(char, "")` -/
def punctuation : List Char := ['_', ',', '\'', '"', '!', '?', '.', ';']
def dropPunct (s : String) : String := String.ofList (s.toList.filter fun c => !punctuation.contains c)

/-- the words of a label that `checkFunction` rejects, in order -/
def misspelled (check : String → Bool) (label : String) : List String :=
  (pySplit (dropPunct label)).filter fun w => !check w

/-- one loop iteration: an entry is reported iff it has a rejected word -/
def spellOne (check : String → Bool) (iv : Iv α) : Option (Iv α) :=
  let ms := misspelled check iv.l
  if ms.isEmpty then none else some ⟨iv.s, iv.e, pyJoin ", " ms⟩

/-- the entries of the checked tier (a point tier with entries cannot be unpacked: built-in ValueError) -/
def spellEntries (t : AnyTier α) : Except Err (List (Iv α)) :=
  match t with
  | .I t => .ok t.es
  | .P t => if t.ps.isEmpty then .ok [] else .error .ValueError

/-- `praatio_scripts.spellCheckEntries(tg, targetTierName, newTierName, checkFunction)`: works on `tg.new()` (a deep
copy: in the functional model the argument is untouched by construction; the correspondence run compares the real
argument before and after) -/
def Tg.spellCheckEntries (g : Tg α) (target newName : String) (check : String → Bool) : Except Err (Tg α) := do
  let t ← g.getTier target
  let es ← spellEntries t
  let nt ← mkITier newName (es.filterMap (spellOne check)) g.lo g.hi
  g.addTier (.I nt) none .warning

end
