import PraatModel.Read
import PraatModel.Save

/-!
# The two JSON formats of textgrid_io.py ("textgrid_json", "json")

* `jsonEscape`            — what CPython's `json.dumps(s, ensure_ascii=False)` writes between the quotes
  (`json.encoder.encode_basestring`: `"`, `\`, `\n \r \t \b \f` as two-character escapes, the other code points below
  0x20 as `\u00xx` in lower-case hex, EVERYTHING else verbatim — DEL, U+2028/2029, non-ASCII, astral).
  Assumption: a Lean `Char` is a Unicode scalar value; Python strings with lone surrogates have no counterpart here.
* `Json.JVal`, `Json.render` — a JSON document and `json.dumps(v, ensure_ascii=False)` with the default separators
  `", "` and `": "`; numbers are carried as the numeral text (`float.__repr__` / `int.__repr__`, supplied by the
  harness through the numeral table, as for the text emitters).
* `Json.tokens`, `Json.parseVal`, `Json.parse` — a reader for `json.loads`: white space ` \t\n\r` between tokens; strings
  with every escape (`\" \\ \/ \b \f \n \r \t \uXXXX`, surrogate pairs combined; raw control characters rejected);
  numbers `-?(0|[1-9]\d*)(\.\d+)?([eE][-+]?\d+)?` kept as numeral text (plus CPython's `NaN`, `Infinity`, `-Infinity`);
  `true false null`; objects as ORDERED key/value lists with duplicates kept (the dictionary view — the last value of
  a key wins, at the position of its first occurrence — is `dictOf` / `dget`).
  A simplification that changes neither which documents are accepted nor what is read: the number scanner is a DFA
  that rejects where CPython's regular expression would backtrack (`1.`, `1e`, `1e+`: after backtracking the next
  character is `.` or `e`, which starts no token, so `json.loads` raises as well).
  One deliberate DEVIATION: an escaped LONE surrogate (`"\ud800"`, which CPython accepts and turns into a `str` that
  is not Unicode text) is rejected, a `Char` cannot hold it; the harness keeps such documents out of the comparison.
* `tgToJsonFull`, `tgToJsonSimple` — `_tgToJson(tg)` and `_tgToJson(_downconvertDictionaryForJson(tg))` on the
  prepared textgrid (`prepTg` of Save.lean).  The simplified dictionary is a Python `dict` keyed by tier name: `dictOf`.
* `tgOfJson` — `_upconvertDictionaryFromJson` when the key "start" is present, else the dictionary as it stands, read
  STRICTLY against the README schema (an interval entry is `[number, number, string]`, a point entry `[number, string]`,
  the class is "IntervalTier" or "TextTier"); `parseTextgridStr` itself checks nothing and hands on whatever it finds.
* `parseAny` — `parseTextgridStr` for any text: `json.loads` first, the text readers of Read.lean when it raises.
* `PyNum` — which of the written numbers are Python ints (`json.dumps` writes `6`, not `6.0`, for them).
-/

/-! ## 1. strings -/

namespace Json

def hexDigit (n : Nat) : Char := if n < 10 then Char.ofNat (48 + n) else Char.ofNat (87 + n)

/-- `ESCAPE_DCT` of json/encoder.py -/
def escChar (c : Char) : List Char :=
  if c = '"' then ['\\', '"']
  else if c = '\\' then ['\\', '\\']
  else if c = '\n' then ['\\', 'n']
  else if c = '\r' then ['\\', 'r']
  else if c = '\t' then ['\\', 't']
  else if c = '\x08' then ['\\', 'b']
  else if c = '\x0c' then ['\\', 'f']
  else if c.toNat < 0x20 then ['\\', 'u', '0', '0', hexDigit (c.toNat / 16), hexDigit (c.toNat % 16)]
  else [c]

end Json

/-- the body of `json.dumps(s, ensure_ascii=False)` (without the surrounding quotes) -/
def jsonEscape (s : List Char) : List Char := s.flatMap Json.escChar

namespace Json

/-- `"` + escaped text + `"` -/
def quoted (s : String) : List Char := '"' :: (jsonEscape s.toList ++ ['"'])

/-! ## 2. documents and `json.dumps` -/

inductive JVal
  | null
  | bool (b : Bool)
  | num (w : String)
  | str (s : String)
  | arr (xs : List JVal)
  | obj (kvs : List (String × JVal))
deriving Repr, Inhabited

mutual
/-- `json.dumps(v, ensure_ascii=False)` -/
def render : JVal → List Char
  | .null => ['n', 'u', 'l', 'l']
  | .bool true => ['t', 'r', 'u', 'e']
  | .bool false => ['f', 'a', 'l', 's', 'e']
  | .num w => w.toList
  | .str s => quoted s
  | .arr [] => ['[', ']']
  | .arr (v :: vs) => '[' :: (render v ++ (renderTail vs ++ [']']))
  | .obj [] => ['{', '}']
  | .obj ((k, v) :: ms) => '{' :: (quoted k ++ ':' :: ' ' :: (render v ++ (renderMTail ms ++ ['}'])))
/-- the further items of a list, each after `", "` -/
def renderTail : List JVal → List Char
  | [] => []
  | v :: vs => ',' :: ' ' :: (render v ++ renderTail vs)
/-- the further members of a dictionary, each after `", "` -/
def renderMTail : List (String × JVal) → List Char
  | [] => []
  | (k, v) :: ms => ',' :: ' ' :: (quoted k ++ ':' :: ' ' :: (render v ++ renderMTail ms))
end

/-! ## 3. the reader: tokens -/

inductive JTok
  | lbrace | rbrace | lbrack | rbrack | comma | colon
  | str (s : String)
  | num (w : String)
  | tru | fls | nul
deriving Repr, BEq, DecidableEq

def isWs (c : Char) : Bool := c == ' ' || c == '\t' || c == '\n' || c == '\r'

def hexVal (c : Char) : Option Nat :=
  if c.isDigit then some (c.toNat - 48)
  else if 'a' ≤ c ∧ c ≤ 'f' then some (c.toNat - 87)
  else if 'A' ≤ c ∧ c ≤ 'F' then some (c.toNat - 55)
  else none

def hex4 (a b c d : Char) : Option Nat :=
  match hexVal a, hexVal b, hexVal c, hexVal d with
  | some x, some y, some z, some w => some (((x * 16 + y) * 16 + z) * 16 + w)
  | _, _, _, _ => none

/-- `BACKSLASH` of json/decoder.py (the one-character escapes) -/
def simpleEsc (c : Char) : Option Char :=
  if c = '"' then some '"'
  else if c = '\\' then some '\\'
  else if c = '/' then some '/'
  else if c = 'b' then some '\x08'
  else if c = 'f' then some '\x0c'
  else if c = 'n' then some '\n'
  else if c = 'r' then some '\r'
  else if c = 't' then some '\t'
  else none

def consTo (c : Char) (r : Option (List Char × List Char)) : Option (List Char × List Char) :=
  r.map fun p => (c :: p.1, p.2)

/-- `\uXXXX` after the `u`: the code point (a surrogate pair `\uD834\uDD1E` is one code point) and the rest -/
def lexU : List Char → Option (Char × List Char)
  | a :: b :: c :: d :: r2 =>
    match hex4 a b c d with
    | none => none                                          -- invalid \uXXXX escape
    | some v =>
      if 0xD800 ≤ v ∧ v ≤ 0xDBFF then
        -- a high surrogate: must be followed by an escaped low surrogate (else CPython keeps a lone surrogate)
        match r2 with
        | b1 :: u1 :: a' :: b' :: c' :: d' :: r3 =>
          if b1 = '\\' ∧ u1 = 'u' then
            match hex4 a' b' c' d' with
            | none => none
            | some w =>
              if 0xDC00 ≤ w ∧ w ≤ 0xDFFF then some (Char.ofNat (0x10000 + (v - 0xD800) * 0x400 + (w - 0xDC00)), r3)
              else none
          else none
        | _ => none
      else if 0xDC00 ≤ v ∧ v ≤ 0xDFFF then none             -- lone low surrogate
      else some (Char.ofNat v, r2)
  | _ => none

/-- the escape after a backslash: the character it stands for and the rest -/
def lexEsc : List Char → Option (Char × List Char)
  | [] => none
  | e :: r => if e = 'u' then lexU r else (simpleEsc e).map fun x => (x, r)   -- `none`: invalid \escape

theorem lexU_length (cs : List Char) (x : Char) (r : List Char) (h : lexU cs = some (x, r)) : r.length < cs.length := by
  unfold lexU at h
  split at h
  · split at h
    · exact absurd h (by simp)
    · split at h
      · split at h
        · split at h
          · split at h
            · exact absurd h (by simp)
            · split at h
              · simp only [Option.some.injEq, Prod.mk.injEq] at h
                obtain ⟨_, rfl⟩ := h
                simp only [List.length_cons]; omega
              · exact absurd h (by simp)
          · exact absurd h (by simp)
        · exact absurd h (by simp)
      · split at h
        · exact absurd h (by simp)
        · simp only [Option.some.injEq, Prod.mk.injEq] at h
          obtain ⟨_, rfl⟩ := h
          simp only [List.length_cons]; omega
  · exact absurd h (by simp)

theorem lexEsc_length (cs : List Char) (x : Char) (r : List Char) (h : lexEsc cs = some (x, r)) : r.length < cs.length := by
  unfold lexEsc at h
  split at h
  · exact absurd h (by simp)
  · split at h
    · have := lexU_length _ _ _ h
      simp only [List.length_cons]; omega
    · simp only [Option.map_eq_some_iff, Prod.mk.injEq] at h
      obtain ⟨_, _, _, rfl⟩ := h
      simp

/-- `scanstring` (strict): the input just after the opening quote; returns the text and what follows the closing quote -/
def lexStr (l : List Char) : Option (List Char × List Char) :=
  match l with
  | [] => none                                              -- unterminated string
  | c :: cs =>
    if c = '"' then some ([], cs)
    else if c = '\\' then
      match _h : lexEsc cs with
      | none => none
      | some (x, r) => consTo x (lexStr r)
    else if c.toNat < 0x20 then none                        -- invalid control character
    else consTo c (lexStr cs)
termination_by l.length
decreasing_by
  · have := lexEsc_length _ _ _ ‹lexEsc cs = some (x, r)›
    simp only [List.length_cons]; omega
  · simp

end Json

/-- a JSON string token, opening quote included: the text and the rest of the input -/
def Json.parseString : List Char → Option (List Char × List Char)
  | '"' :: cs => Json.lexStr cs
  | _ => none

namespace Json

/-- states of the number scanner `-?(0|[1-9]\d*)(\.\d+)?([eE][-+]?\d+)?` -/
inductive NSt
  | start | minus | zero | int | dot | frac | e | esign | exp
deriving DecidableEq, Repr

def NSt.final : NSt → Bool
  | .zero | .int | .frac | .exp => true
  | _ => false

def NSt.step (st : NSt) (c : Char) : Option NSt :=
  match st with
  | .start => if c = '-' then some .minus else if c = '0' then some .zero else if c.isDigit then some .int else none
  | .minus => if c = '0' then some .zero else if c.isDigit then some .int else none
  | .zero => if c = '.' then some .dot else if c = 'e' ∨ c = 'E' then some .e else none
  | .int => if c.isDigit then some .int else if c = '.' then some .dot else if c = 'e' ∨ c = 'E' then some .e else none
  | .dot => if c.isDigit then some .frac else none
  | .frac => if c.isDigit then some .frac else if c = 'e' ∨ c = 'E' then some .e else none
  | .e => if c = '+' ∨ c = '-' then some .esign else if c.isDigit then some .exp else none
  | .esign => if c.isDigit then some .exp else none
  | .exp => if c.isDigit then some .exp else none

/-- the longest run of the scanner: the numeral and the rest; `none` when it stops in a non-final state -/
def numScan (st : NSt) : List Char → Option (List Char × List Char)
  | [] => if st.final then some ([], []) else none
  | c :: cs =>
    match st.step c with
    | some st' => consTo c (numScan st' cs)
    | none => if st.final then some ([], c :: cs) else none

/-- the scanner accepts the whole word -/
def accepts (st : NSt) : List Char → Bool
  | [] => st.final
  | c :: cs =>
    match st.step c with
    | some st' => accepts st' cs
    | none => false

end Json

/-- a numeral the JSON number reader accepts entirely: `-?(0|[1-9]\d*)(\.\d+)?([eE][-+]?\d+)?`
(CPython's `repr` of a finite float and `str` of an int are of this form; `inf`, `nan` are not) -/
def JsonNum (w : String) : Prop := Json.accepts .start w.toList = true

instance (w : String) : Decidable (JsonNum w) := inferInstanceAs (Decidable (_ = true))

namespace Json

def startsWith (pre : List Char) (l : List Char) : Option (List Char) :=
  match pre, l with
  | [], l => some l
  | _ :: _, [] => none
  | p :: ps, c :: cs => if p = c then startsWith ps cs else none

/-- one step of `py_make_scanner` reduced to its token boundaries: the token that starts with `c` (none for white space)
and the rest of the input -/
def lexOne (c : Char) (cs : List Char) : Option (List JTok × List Char) :=
  if isWs c then some ([], cs)
  else if c = '{' then some ([.lbrace], cs)
  else if c = '}' then some ([.rbrace], cs)
  else if c = '[' then some ([.lbrack], cs)
  else if c = ']' then some ([.rbrack], cs)
  else if c = ',' then some ([.comma], cs)
  else if c = ':' then some ([.colon], cs)
  else if c = '"' then (lexStr cs).map fun p => ([.str (String.ofList p.1)], p.2)
  else if c = 't' then (startsWith ['r', 'u', 'e'] cs).map fun r => ([.tru], r)
  else if c = 'f' then (startsWith ['a', 'l', 's', 'e'] cs).map fun r => ([.fls], r)
  else if c = 'n' then (startsWith ['u', 'l', 'l'] cs).map fun r => ([.nul], r)
  else if c = 'N' then (startsWith ['a', 'N'] cs).map fun r => ([.num "NaN"], r)
  else if c = 'I' then (startsWith ['n', 'f', 'i', 'n', 'i', 't', 'y'] cs).map fun r => ([.num "Infinity"], r)
  else
    match (if c = '-' then startsWith ['I', 'n', 'f', 'i', 'n', 'i', 't', 'y'] cs else none) with
    | some r => some ([.num "-Infinity"], r)
    | none => (numScan .start (c :: cs)).map fun p => ([.num (String.ofList p.1)], p.2)

/-- the token list; `fuel` bounds the recursion (the input length suffices) -/
def tokens : Nat → List Char → Option (List JTok)
  | 0, _ => some []
  | _, [] => some []
  | fuel + 1, c :: cs =>
    match lexOne c cs with
    | none => none
    | some (ts, rest) => (tokens fuel rest).map (ts ++ ·)

/-! ## 4. the reader: values -/

mutual
/-- one value; `fuel` bounds the recursion (twice the number of tokens suffices) -/
def parseVal : Nat → List JTok → Option (JVal × List JTok)
  | 0, _ => none
  | fuel + 1, ts =>
    match ts with
    | .str s :: r => some (.str s, r)
    | .num w :: r => some (.num w, r)
    | .tru :: r => some (.bool true, r)
    | .fls :: r => some (.bool false, r)
    | .nul :: r => some (.null, r)
    | .lbrack :: r =>
      match r with
      | .rbrack :: r' => some (.arr [], r')
      | _ => (parseElems fuel r).map fun p => (.arr p.1, p.2)
    | .lbrace :: r =>
      match r with
      | .rbrace :: r' => some (.obj [], r')
      | _ => (parseMembers fuel r).map fun p => (.obj p.1, p.2)
    | _ => none
/-- `value (, value)* ]` -/
def parseElems : Nat → List JTok → Option (List JVal × List JTok)
  | 0, _ => none
  | fuel + 1, ts =>
    match parseVal fuel ts with
    | some (v, .comma :: r) => (parseElems fuel r).map fun p => (v :: p.1, p.2)
    | some (v, .rbrack :: r) => some ([v], r)
    | _ => none
/-- `"key" : value (, "key" : value)* }` -/
def parseMembers : Nat → List JTok → Option (List (String × JVal) × List JTok)
  | 0, _ => none
  | fuel + 1, ts =>
    match ts with
    | .str k :: .colon :: r =>
      match parseVal fuel r with
      | some (v, .comma :: r') => (parseMembers fuel r').map fun p => ((k, v) :: p.1, p.2)
      | some (v, .rbrace :: r') => some ([(k, v)], r')
      | _ => none
    | _ => none
end

/-- `json.loads`: one value, white space around it, nothing else -/
def parse (cs : List Char) : Option JVal :=
  match tokens (cs.length + 1) cs with
  | none => none
  | some ts =>
    match parseVal (2 * ts.length + 2) ts with
    | some (v, []) => some v
    | _ => none

/-! ## 5. Python dictionaries -/

/-- `d[k] = v`: an existing key keeps its position and takes the new value, a new key goes to the end -/
def dictInsert {β : Type} (d : List (String × β)) (k : String) (v : β) : List (String × β) :=
  match d with
  | [] => [(k, v)]
  | (k', v') :: r => if k' = k then (k', v) :: r else (k', v') :: dictInsert r k v

/-- the dictionary built by inserting the pairs in order (`json.loads` of an object, `_downconvertDictionaryForJson`) -/
def dictOf {β : Type} (l : List (String × β)) : List (String × β) :=
  l.foldl (fun d p => dictInsert d p.1 p.2) []

/-- `d[k]` on the pair list of an object: the last value of the key -/
def dget (kvs : List (String × JVal)) (k : String) : Option JVal :=
  match kvs with
  | [] => none
  | (k', v) :: r =>
    match dget r k with
    | some x => some x
    | none => if k' = k then some v else none

end Json

/-! ## 6. the two dictionaries praatio dumps, and the emitters -/

section
open Json
variable {α : Type}

def jsonIv (num : α → String) (e : Iv α) : JVal := .arr [.num (num e.s), .num (num e.e), .str e.l]
def jsonPt (num : α → String) (p : Pt α) : JVal := .arr [.num (num p.t), .str p.l]

def AnyTier.jsonClass : AnyTier α → String
  | .I _ => "IntervalTier"
  | .P _ => "TextTier"
def AnyTier.jsonEntries (num : α → String) : AnyTier α → List JVal
  | .I t => t.es.map (jsonIv num)
  | .P t => t.ps.map (jsonPt num)

/-- one element of `tg["tiers"]` as `_tgToDictionary` builds it -/
def jsonTierFull (num : α → String) (t : AnyTier α) : JVal :=
  .obj [("class", .str t.jsonClass), ("name", .str t.name), ("xmin", .num (num t.lo)), ("xmax", .num (num t.hi)),
        ("entries", .arr (t.jsonEntries num))]

/-- the dictionary of `_tgToDictionary` after `_prepTgForSaving` -/
def jvalFull (num : α → String) (g : Tg α) (lo hi : α) : JVal :=
  .obj [("xmin", .num (num lo)), ("xmax", .num (num hi)), ("tiers", .arr (g.tiers.map (jsonTierFull num)))]

/-- `tiers[tier["name"]] = {"type": ..., "entries": ...}` -/
def jsonTierSimple (num : α → String) (t : AnyTier α) : String × JVal :=
  (t.name, .obj [("type", .str t.jsonClass), ("entries", .arr (t.jsonEntries num))])

/-- `_downconvertDictionaryForJson(tg)` -/
def jvalSimple (num : α → String) (g : Tg α) (lo hi : α) : JVal :=
  .obj [("start", .num (num lo)), ("end", .num (num hi)), ("tiers", .obj (dictOf (g.tiers.map (jsonTierSimple num))))]

/-- `_tgToJson(tg)`: format "textgrid_json" -/
def tgToJsonFull (num : α → String) (g : Tg α) (lo hi : α) : String := String.ofList (render (jvalFull num g lo hi))

/-- `_tgToJson(_downconvertDictionaryForJson(tg))`: format "json" -/
def tgToJsonSimple (num : α → String) (g : Tg α) (lo hi : α) : String := String.ofList (render (jvalSimple num g lo hi))

end

/-! ## 7. from a parsed document to the reader's raw record -/

namespace Json

def numOf : JVal → Option String
  | .num w => some w
  | _ => none
def strOf : JVal → Option String
  | .str s => some s
  | _ => none

/-- an entry of the schema: `[number, number, string]` for an interval tier, `[number, string]` for a point tier -/
def entryOf (isInterval : Bool) : JVal → Option (List String)
  | .arr [.num a, .num b, .str l] => if isInterval then some [a, b, l] else none
  | .arr [.num t, .str l] => if isInterval then none else some [t, l]
  | _ => none

def entriesOf (cls : String) (v : JVal) : Option (List (List String)) :=
  match v with
  | .arr es =>
    if cls = "IntervalTier" then es.mapM (entryOf true)
    else if cls = "TextTier" then es.mapM (entryOf false)
    else none
  | _ => none

/-- one element of the list "tiers" of the textgrid-like schema -/
def tierFullOf (v : JVal) : Option RawTier :=
  match v with
  | .obj kvs =>
    match (dget kvs "class").bind strOf, (dget kvs "name").bind strOf, (dget kvs "xmin").bind numOf, (dget kvs "xmax").bind numOf,
          dget kvs "entries" with
    | some cls, some name, some lo, some hi, some es =>
      (entriesOf cls es).map fun entries => { cls := cls, name := name, xmin := lo, xmax := hi, entries := entries }
    | _, _, _, _, _ => none
  | _ => none

/-- one member of the dictionary "tiers" of the simplified schema, as `_upconvertDictionaryFromJson` reads it -/
def tierSimpleOf (start stop : String) (p : String × JVal) : Option RawTier :=
  match p.2 with
  | .obj kvs =>
    match (dget kvs "type").bind strOf, dget kvs "entries" with
    | some cls, some es =>
      (entriesOf cls es).map fun entries => { cls := cls, name := p.1, xmin := start, xmax := stop, entries := entries }
    | _, _ => none
  | _ => none

end Json

/-- `json.loads` result -> dictionary of `parseTextgridStr`: the simplified schema when the key "start" is present
(`_upconvertDictionaryFromJson`), the textgrid-like schema otherwise -/
def tgOfJson (v : Json.JVal) : Option RawTg :=
  open Json in
  match v with
  | .obj kvs =>
    match dget kvs "start" with
    | some st =>
      match numOf st, (dget kvs "end").bind numOf, dget kvs "tiers" with
      | some lo, some hi, some (.obj ts) => ((dictOf ts).mapM (tierSimpleOf lo hi)).map fun tiers => ⟨lo, hi, tiers⟩
      | _, _, _ => none
    | none =>
      match (dget kvs "xmin").bind numOf, (dget kvs "xmax").bind numOf, dget kvs "tiers" with
      | some lo, some hi, some (.arr ts) => (ts.mapM tierFullOf).map fun tiers => ⟨lo, hi, tiers⟩
      | _, _, _ => none
  | _ => none

/-- `parseTextgridStr(data, includeEmptyIntervals)` for any text: `json.loads` first, the text readers when that raises
ValueError; `none` = valid JSON that does not follow either schema (praatio raises KeyError / AttributeError /
TypeError there, or returns a malformed dictionary) -/
def parseAny (data : String) (includeEmpty : Bool) : Option (Except Err RawTg) :=
  match Json.parse data.toList with
  | some v =>
    match tgOfJson v with
    | some g =>
      some (.ok (if includeEmpty then g
        else { g with tiers := g.tiers.map fun t => { t with entries := t.entries.filter fun e => e.getLast? != some "" } }))
    | none => none
  | none => some (Rd.parseText (Txt.ofString data) includeEmpty)

/-! ## 8. Python ints among the floats

`json.dumps` writes a Python `int` with `int.__repr__` and a `float` with `float.__repr__`.  Tier constructors turn
every tier span and entry time into a float, but the textgrid's own `minTimestamp`/`maxTimestamp` and the
`minTimestamp`/`maxTimestamp` overrides of `save` are whatever the caller passed, and `_fillInBlanks` /
`_removeUltrashortIntervals` carry those very objects into the filler entries.  The model follows them by running the
unchanged, number-generic `prepTg` on values tagged "is a Python int": order, equality and arithmetic are those of the
value (CPython compares an int with a float exactly; the harness keeps ints far below 2^52, where the binary64 run is exact
too), the tag only selects the numeral. -/

structure PyNum (α : Type) where
  v : α
  isInt : Bool

namespace PyNum
variable {α : Type}
instance [LT α] : LT (PyNum α) := ⟨fun a b => a.v < b.v⟩
instance [LE α] : LE (PyNum α) := ⟨fun a b => a.v ≤ b.v⟩
instance [LT α] [DecidableLT α] : DecidableLT (PyNum α) := fun a b => inferInstanceAs (Decidable (a.v < b.v))
instance [LE α] [DecidableLE α] : DecidableLE (PyNum α) := fun a b => inferInstanceAs (Decidable (a.v ≤ b.v))
instance [BEq α] : BEq (PyNum α) := ⟨fun a b => a.v == b.v⟩
instance [Add α] : Add (PyNum α) := ⟨fun a b => ⟨a.v + b.v, a.isInt && b.isInt⟩⟩
instance [Sub α] : Sub (PyNum α) := ⟨fun a b => ⟨a.v - b.v, a.isInt && b.isInt⟩⟩
instance [Tm α] : Tm (PyNum α) where
  zero := ⟨Tm.zero, true⟩
  close9 a b := Tm.close9 a.v b.v
  close9a a b := Tm.close9a a.v b.v
  close14 a b := Tm.close14 a.v b.v

def float (x : α) : PyNum α := ⟨x, false⟩

def liftTier : AnyTier α → AnyTier (PyNum α)
  | .I t => .I ⟨t.name, t.es.map fun e => ⟨float e.s, float e.e, e.l⟩, float t.lo, float t.hi⟩
  | .P t => .P ⟨t.name, t.ps.map fun p => ⟨float p.t, p.l⟩, float t.lo, float t.hi⟩

/-- a textgrid whose tiers hold floats and whose own span is tagged as given -/
def liftTg (g : Tg α) (loInt hiInt : Bool) : Tg (PyNum α) :=
  ⟨g.tiers.map liftTier, g.lo.map (⟨·, loInt⟩), g.hi.map (⟨·, hiInt⟩)⟩
end PyNum

section
open Json
private def demo : JVal :=
  .obj [("a\"b", .arr [.num "1e-05", .str "x\"\\\n\t\x01é\u2028\x7f𝄞", .null, .bool true, .arr [], .obj []]), ("k", .num "-0.0")]
#guard String.ofList (render demo) ==
  "{\"a\\\"b\": [1e-05, \"x\\\"\\\\\\n\\t\\u0001é\u2028\x7f𝄞\", null, true, [], {}], \"k\": -0.0}"
#guard (parse (render demo)).map render == some (render demo)
#guard (parse " { \"a\" : [ 1 , 2.5e+3 ,\n\"\\u00e9\\ud834\\udd1e\\/\" ] } ".toList).map render ==
  some "{\"a\": [1, 2.5e+3, \"é𝄞/\"]}".toList
#guard [" 01", "1.", "1e", "-", "[1,]", "{\"a\":1,}", "\"\\ud834\"", "\"\\x\"", "\"a\nb\"", "1 2", "", "[", "tru", "{\"a\" 1}", "+1", ".5"].all
  fun s => (parse s.toList).isNone
#guard ["0", "-0", "-0.0", "1e-05", "1e+22", "12.5", "5e-324", "1.7976931348623157e+308", "1E5", "0.1e-2"].all fun w => decide (JsonNum w)
#guard ["", "-", "01", "1.", ".5", "1e", "1e+", "inf", "nan", "NaN", "Infinity", "+1", "1 ", "0x1", "1_0"].all fun w => !decide (JsonNum w)
end
