import PraatModel.Proto
import PraatModel.Imperative

/-! # driver operations that run the STATEMENT-LEVEL mutators (`Imperative.lean`, DESIGN 11.10)

Each operation runs one mutator of `Imp` on the object state it is given and prints the object's FINAL state on both
paths — after a normal return and after a raise (the writes made before the raise are kept) — plus the error class:

    ok <object>            |            err <Class> <object>

* `imp_iinsert <I> <s> <e> <l> <mode> <report>`     `IntervalTier.insertEntry(entry, collisionMode, collisionReportingMode)`
* `imp_pinsert <P> <t> <l> <mode> <report>`         `PointTier.insertEntry`
* `imp_idelete <I> <s> <e> <l>` / `imp_pdelete <P> <t> <l>`          `deleteEntry`
* `imp_tg_add <G> <tier> <idx|N> <report>`          `Textgrid.addTier`
* `imp_tg_remove <G> <name>`                        `Textgrid.removeTier`
* `imp_tg_rename <G> <old> <new>`                   `Textgrid.renameTier`
* `imp_tg_replace <G> <name> <tier> <report>`       `Textgrid.replaceTier`

`<mode>` / `<report>` may be `?` = a value outside `validOptions` (→ `WrongOption` from `validateOption`); the ops run the
`…Py` entry points, i.e. the methods from their first statement.

The harness (harness/props/C13.py) compares the line with the real object's state after the real call.
-/

/-- an option value: a valid token, or `?` for a value outside `validOptions` -/
def P.optInsMode : P (Option InsMode) := do
  match (← get) with
  | "?" :: ts => set ts; pure none
  | _ => some <$> P.insMode
def P.optReport : P (Option Report) := do
  match (← get) with
  | "?" :: ts => set ts; pure none
  | _ => some <$> P.report

/-- the final state on both paths -/
def Out.imp {σ β : Type} (f : σ → String) (r : Except Err β × σ) : String :=
  match r.1 with
  | .ok _ => "ok " ++ f r.2
  | .error e => "err " ++ e.name ++ " " ++ f r.2

def runOpImperative (α : Type) [LT α] [LE α] [DecidableLT α] [DecidableLE α] [BEq α] [Add α] [Sub α] [Tm α] [Proto α]
    (op : String) : Option (P String) :=
  match op with
  | "imp_iinsert" => some do
    let t ← P.itier (α := α); let x ← P.iv; let m ← P.optInsMode; let r ← P.optReport
    pure (Out.imp Out.itier (Imp.exec (Imp.iinsertEntryPy x m r) t))
  | "imp_pinsert" => some do
    let t ← P.ptier (α := α); let x ← P.pt; let m ← P.optInsMode; let r ← P.optReport
    pure (Out.imp Out.ptier (Imp.exec (Imp.pinsertEntryPy x m r) t))
  | "imp_idelete" => some do
    let t ← P.itier (α := α); let x ← P.iv
    pure (Out.imp Out.itier (Imp.exec (Imp.ideleteEntry x) t))
  | "imp_pdelete" => some do
    let t ← P.ptier (α := α); let x ← P.pt
    pure (Out.imp Out.ptier (Imp.exec (Imp.pdeleteEntry x) t))
  | "imp_tg_add" => some do
    let g ← P.tg (α := α); let t ← P.anyTier; let i ← P.opt P.int; let r ← P.optReport
    pure (Out.imp Out.tg (Imp.exec (Imp.addTierPy t i r) g))
  | "imp_tg_remove" => some do
    let g ← P.tg (α := α); let n ← P.str
    pure (Out.imp Out.tg (Imp.exec (Imp.removeTier n) g))
  | "imp_tg_rename" => some do
    let g ← P.tg (α := α); let o ← P.str; let n ← P.str
    pure (Out.imp Out.tg (Imp.exec (Imp.renameTier o n) g))
  | "imp_tg_replace" => some do
    let g ← P.tg (α := α); let n ← P.str; let t ← P.anyTier; let r ← P.optReport
    pure (Out.imp Out.tg (Imp.exec (Imp.replaceTierPy n t r) g))
  | _ => none
