import PraatModel.Py

/-!
# KlattGrid and point-object text files (C19): executable model

Texts are `List Char` (`Txt`); a `String` is converted at the driver boundary only.
**Numerals are opaque substrings**: the model never converts text to a number.  The readers return the
numeral substrings (after `strip`), the writers assemble text from numeral strings supplied by the
caller (the harness supplies CPython's `repr`).  The only facts about a numeral the code's control
flow depends on are *syntactic*: "does `float()` accept it" and "is it zero / positive"
(`_buildEntries`: `npoints > 0`, `_cleanNumericValues`: `float(tail) == 0`, `int(tail)` succeeds) —
these are `fclass` and `isIntLit` below (ASCII literals; validated against CPython by unit cases).

What is reproduced literally is the **string logic** of

* `klattgrid._findIndicies`, `_getSectionHeader`, `_proccessContainerTierInput` (as repaired: no `- 1`),
  `_buildEntries`, `_processSectionData`, `_openNormalKlattgrid`;
* `data_classes.klattgrid`: the three `getAsText`, `Klattgrid.save`, `_cleanNumericValues`,
  `modifySubtiers` / `modifyValues`;
* `data_points.open1DPointObject` / `open2DPointObject` with both header parsers and `_getNextValue`;
  `data_classes.data_point.PointObject.save`.
-/

namespace Klatt

abbrev Txt := List Char

/-- exceptions that can escape the modelled code paths -/
inductive PyErr
  | valueError | indexError | unboundLocal | tierNameExists | keyError | wrongOption | typeError
  deriving DecidableEq, Repr

def PyErr.name : PyErr → String
  | .valueError => "ValueError"
  | .indexError => "IndexError"
  | .unboundLocal => "UnboundLocalError"
  | .tierNameExists => "TierNameExistsError"
  | .keyError => "KeyError"
  | .wrongOption => "WrongOption"
  | .typeError => "TypeError"

abbrev R := Except PyErr

/-! ## Python string helpers (each has a unit correspondence test against CPython) -/

/-- `str.rstrip()` -/
def rstrip (s : Txt) : Txt := (stripL s.reverse).reverse

/-- search `p` in a suffix whose head has absolute index `i` -/
def findAt (p : Txt) : Txt → Nat → Option Nat
  | [], i => if p.isEmpty then some i else none
  | c :: cs, i => if p.isPrefixOf (c :: cs) then some i else findAt p cs (i + 1)

/-- `s.find(p, start)` for `start ≥ 0`; `none` is Python's `-1` (and `str.index` raising ValueError) -/
def pyFind (p s : Txt) (start : Nat) : Option Nat :=
  if s.length < start then none else findAt p (s.drop start) start

/-- `p in s` -/
def contains (p s : Txt) : Bool := (pyFind p s 0).isSome

def findAllAt (p : Txt) : Txt → Nat → List Nat
  | [], i => if p.isEmpty then [i] else []
  | c :: cs, i => if p.isPrefixOf (c :: cs) then i :: findAllAt p cs (i + 1) else findAllAt p cs (i + 1)

/-- `utils.findAll(txt, subStr)`: the start of every (possibly overlapping) occurrence, ascending
(the loop `index = txt.index(subStr, index); index += 1`) -/
def findAll (p s : Txt) : List Nat := findAllAt p s 0

def rfindCharAux (c : Char) : Txt → Nat → Nat → Int → Int
  | [], _, _, best => best
  | x :: xs, i, hi, best =>
    if hi ≤ i then best else rfindCharAux c xs (i + 1) hi (if x = c then (i : Int) else best)

/-- `s.rfind(c, 0, hi)` for a one-character `c` and `hi ≥ 0`: the last index `< hi` holding `c`, or `-1` -/
def pyRfindChar (c : Char) (s : Txt) (hi : Nat) : Int := rfindCharAux c s 0 hi (-1)

/-- normalisation of one slice bound (`PySlice_AdjustIndices`, step 1) -/
def normIdx (len : Nat) (i : Int) : Nat :=
  if i < 0 then (if i + len < 0 then 0 else (i + len).toNat) else (if (len : Int) < i then len else i.toNat)

/-- `s[a:b]` -/
def pySlice (s : Txt) (a b : Int) : Txt :=
  let a' := normIdx s.length a
  let b' := normIdx s.length b
  (s.drop a').take (b' - a')

/-- worker of `split` for a one-character separator: remaining split budget, rest, current part (reversed) -/
def splitCharAux (c : Char) : Nat → Txt → Txt → List Txt
  | _, [], cur => [cur.reverse]
  | 0, x :: xs, cur => [cur.reverse ++ x :: xs]
  | n + 1, x :: xs, cur =>
    if x = c then cur.reverse :: splitCharAux c n xs [] else splitCharAux c (n + 1) xs (x :: cur)

/-- `s.split(c, n)` (at most `n` splits) -/
def pySplitN (c : Char) (n : Nat) (s : Txt) : List Txt := splitCharAux c n s []
/-- `s.split(c)` -/
def pySplit (c : Char) (s : Txt) : List Txt := splitCharAux c s.length s []

/-- `sep.join(parts)` -/
def join (sep : Txt) : List Txt → Txt
  | [] => []
  | [x] => x
  | x :: y :: rest => x ++ sep ++ join sep (y :: rest)

/-- `s.split()[0]` (whitespace split): `none` when there is no token (IndexError) -/
def firstToken (s : Txt) : Option Txt :=
  match stripL s with
  | [] => none
  | cs => some (cs.takeWhile fun c => !pyIsSpace c)

def digitChar (d : Nat) : Char := Char.ofNat (48 + d)

def natDecAux : Nat → Nat → Txt → Txt
  | 0, _, acc => acc
  | f + 1, n, acc => if n < 10 then digitChar n :: acc else natDecAux f (n / 10) (digitChar (n % 10) :: acc)

/-- `"%d" % n` for a natural number -/
def natDec (n : Nat) : Txt := natDecAux (n + 1) n []

/-! ## the syntactic classification of numerals (ASCII `float()` / `int()` literals) -/

inductive FClass
  | zero | pos | neg | nan
  deriving DecidableEq, Repr

def isDigit (c : Char) : Bool := '0' ≤ c && c ≤ '9'

/-- `digit (["_"] digit)*`, greedily; returns the digits read (possibly none) and the rest -/
def digitsGo : Txt → Txt → Txt × Txt
  | [], acc => (acc.reverse, [])
  | c :: cs, acc =>
    if isDigit c then digitsGo cs (c :: acc)
    else if c == '_' && !acc.isEmpty && (match cs with | d :: _ => isDigit d | [] => false) then digitsGo cs acc
    else (acc.reverse, c :: cs)

def digitsVal (ds : Txt) : Nat := ds.foldl (fun n c => 10 * n + (c.toNat - 48)) 0

def lower (s : Txt) : Txt := s.map fun c => if 'A' ≤ c ∧ c ≤ 'Z' then Char.ofNat (c.toNat + 32) else c

def stripLBy (p : Char → Bool) : Txt → Txt
  | [] => []
  | c :: cs => if p c then stripLBy p cs else c :: cs

/-- the blanks `float(str)` / `int(str)` skip: CPython turns every non-ASCII `str.isspace()` character into
a blank and hands the text to the C parser, which skips C `isspace` — so all of `str.isspace()` except
U+001C..U+001F -/
def isNumSpace (c : Char) : Bool := pyIsSpace c && !(0x1C ≤ c.toNat && c.toNat ≤ 0x1F)

def numStrip (s : Txt) : Txt := (stripLBy isNumSpace (stripLBy isNumSpace s).reverse).reverse

def splitSign : Txt → Bool × Txt
  | '-' :: cs => (true, cs)
  | '+' :: cs => (false, cs)
  | cs => (false, cs)

/-- value `M·10^k ≤ 2^-1075` (rounds to zero, ties-to-even), for `M > 0` -/
def underflows (M : Nat) (k : Int) : Bool :=
  if 0 ≤ k then false
  else
    let m := (-k).toNat
    let nd := (natDec M).length
    if nd + 330 < m then true else decide (M * 2 ^ 1075 ≤ 10 ^ m)

/-- what `float(s)` would be: `none` = ValueError, otherwise the sign class of the value -/
def fclass (s : Txt) : Option FClass :=
  let (negv, body) := splitSign (numStrip s)
  let lb := lower body
  if lb = "inf".toList ∨ lb = "infinity".toList then some (if negv then .neg else .pos)
  else if lb = "nan".toList then some .nan
  else
    let (d1, r1) := digitsGo body []
    let (d2, r2, dotOk) :=
      match r1 with
      | '.' :: r => let (d2, r2) := digitsGo r []; (d2, r2, !(d1.isEmpty ∧ d2.isEmpty))
      | r => ([], r, !d1.isEmpty)
    if !dotOk then none
    else
      let expo : Option Int :=
        match r2 with
        | [] => some 0
        | e :: r =>
          if e = 'e' ∨ e = 'E' then
            let (eneg, r') := splitSign r
            let (de, r'') := digitsGo r' []
            if de.isEmpty ∨ !r''.isEmpty then none
            else some (if eneg then -(digitsVal de : Int) else (digitsVal de : Int))
          else none
      match expo with
      | none => none
      | some E =>
        let M := digitsVal (d1 ++ d2)
        if M = 0 then some .zero
        else if underflows M (E - (d2.length : Int)) then some .zero
        else some (if negv then .neg else .pos)

/-- does `int(s)` succeed (base 10) -/
def isIntLit (s : Txt) : Bool :=
  let (_, body) := splitSign (numStrip s)
  let (d, r) := digitsGo body []
  !d.isEmpty && r.isEmpty

/-- `float(tok)` at a place where the model keeps the numeral: ValueError unless it is a float literal -/
def floatTok (s : Txt) : R Txt :=
  match fclass s with
  | none => throw .valueError
  | some _ => pure s

/-! ## data -/

/-- a point tier at the numeral level: name, span, `(number, value)` rows -/
structure PT where
  name : Txt
  xmin : Txt
  xmax : Txt
  pts : List (Txt × Txt)
  deriving DecidableEq, Repr

/-- intermediate tier: name and sub point tiers -/
structure IT where
  name : Txt
  subs : List PT
  deriving DecidableEq, Repr

inductive Sec
  | tier (t : PT)
  | cont (name : Txt) (its : List IT)
  deriving DecidableEq, Repr

/-! ## reader -/

/-- `_findIndicies(data, keyword)` -/
def findIndices (data kw : Txt) : List Int :=
  (findAll kw data).map fun i => pyRfindChar '\n' data i

/-- `x.split("=")[1].strip()` then `float` -/
def afterEq (row : Txt) : R Txt :=
  match (pySplit '=' row)[1]? with
  | none => throw .indexError
  | some v => floatTok (stripList v)

/-- `_getSectionHeader(data, indexList, i)` → `(name, minT, maxT, sectionData, tail)` -/
def getSectionHeader (data : Txt) (idx : List Int) (i : Nat) : R (Txt × Txt × Txt × Txt × List Txt) := do
  let a ← match idx[i]? with | some a => pure a | none => throw PyErr.indexError
  let b ← match idx[i + 1]? with | some b => pure b | none => throw PyErr.indexError
  let sectionData := stripList (pySlice data a b)
  match pySplitN '\n' 4 sectionData with
  | subheader :: minr :: maxr :: tail =>
    let name := stripList ((pySplit '?' subheader).headD [])
    let minT ← afterEq minr
    let maxT ← afterEq maxr
    pure (name, minT, maxT, sectionData, tail)
  | _ => throw .valueError

/-- the `while True` loop of `_processSectionData`; `fuel` bounds the number of rounds (each round
advances `startI`, so `len + 1` rounds are never exhausted) -/
def psdLoop : Nat → Txt → Nat → List (Txt × Txt) → R (List (Txt × Txt))
  | 0, _, _, acc => pure acc
  | fuel + 1, s, startI, acc =>
    match pyFind ['='] s startI with
    | none => pure acc                                  -- "No more data"
    | some i =>
      let startI := i + 1
      match pyFind ['\n'] s startI with
      | none => throw .valueError
      | some endI => do
        let time ← floatTok (stripList (pySlice s startI endI))
        match pyFind ['='] s endI with
        | none => throw .valueError
        | some j =>
          let startI := j + 1
          match pyFind ['\n'] s startI with
          | none => throw .valueError
          | some endI => do
            let value ← floatTok (stripList (pySlice s startI endI))
            psdLoop fuel s endI (acc ++ [(time, value)])

/-- `_processSectionData(sectionData)` -/
def processSectionData (sectionData : Txt) : R (List (Txt × Txt)) :=
  let s := sectionData ++ ['\n']
  psdLoop (s.length + 1) s 0 []

/-- `_buildEntries(sectionTuple)` -/
def buildEntries (tail : List Txt) : R (List (Txt × Txt)) :=
  match tail with
  | sizeRow :: rest :: _ => do
    let np ← afterEq sizeRow
    if fclass np = some .pos then processSectionData rest else pure []
  | _ => pure []

def insertSorted (x : Int) : List Int → List Int
  | [] => [x]
  | y :: ys => if x ≤ y then x :: y :: ys else y :: insertSorted x ys

/-- `list.sort()` on integers -/
def sortInts (l : List Int) : List Int := l.foldr insertSorted []

def subFilterList : List Txt :=
  ["bandwidths", "oral_formants_amplitudes", "nasal_formants_amplitudes",
   "tracheal_formants_amplitudes", "frication_formants_amplitudes"].map String.toList

/-- the index lists of `_proccessContainerTierInput`, each closed by its end (as repaired: the next
master index itself, or `len(sectionData)`) -/
def containerIndexLists (body : Txt) : List (List Int) :=
  let formantIndexList := findIndices body "formants".toList
  let subFilterIndexList := subFilterList.map (findIndices body)
  let newFormantList := formantIndexList.filter fun v => subFilterIndexList.all fun l => !l.contains v
  let indexListOfLists := newFormantList :: subFilterIndexList
  let master := sortInts indexListOfLists.flatten
  indexListOfLists.map fun subList =>
    match subList.getLast? with
    | none => subList
    | some val =>
      match master[master.idxOf val + 1]? with
      | some nxt => subList ++ [nxt]
      | none => subList ++ [(body.length : Int)]

/-- the old code: `masterIndexList[ii + 1] - 1` and `-1` for the last list (kept to exhibit the defect) -/
def containerIndexListsOld (body : Txt) : List (List Int) :=
  let formantIndexList := findIndices body "formants".toList
  let subFilterIndexList := subFilterList.map (findIndices body)
  let newFormantList := formantIndexList.filter fun v => subFilterIndexList.all fun l => !l.contains v
  let indexListOfLists := newFormantList :: subFilterIndexList
  let master := sortInts indexListOfLists.flatten
  indexListOfLists.map fun subList =>
    match subList.getLast? with
    | none => subList
    | some val =>
      match master[master.idxOf val + 1]? with
      | some nxt => subList ++ [nxt - 1]
      | none => subList ++ [-1]

/-- the `for j in range(len(indexList) - 1)` loop: collects the sub tiers, threads `subName` -/
def subTierLoop (body : Txt) (indexList : List Int) : List Nat → Option Txt → List PT → R (Option Txt × List PT)
  | [], sn, acc => pure (sn, acc)
  | j :: js, sn, acc =>
    match getSectionHeader body indexList j with
    | .error .valueError => subTierLoop body indexList js sn acc      -- `except ValueError: continue`
    | .error e => throw e
    | .ok (subName, subMin, subMax, _, subTuple) => do
      let subName := subName.dropLast                                   -- `subName[:-1]`
      let entries ← buildEntries subTuple
      subTierLoop body indexList js (some subName) (acc ++ [⟨subName, subMin, subMax, entries⟩])

def hasDup : List Txt → Bool
  | [] => false
  | x :: xs => xs.contains x || hasDup xs

/-- "Build the tier structure" -/
def buildContainer (body : Txt) : List (List Int) → Option Txt → List IT → R (List IT)
  | [], _, acc => pure acc
  | indexList :: rest, sn, acc =>
    if indexList.isEmpty then buildContainer body rest sn acc
    else do
      let (sn', tiers) ← subTierLoop body indexList (List.range (indexList.length - 1)) sn []
      let subName ← match sn' with | some n => pure n | none => throw PyErr.unboundLocal
      let kitName ← match firstToken subName with | some n => pure n | none => throw PyErr.indexError
      if hasDup (tiers.map (·.name)) then throw .tierNameExists
      if (acc.map (·.name)).contains kitName then throw .tierNameExists
      buildContainer body rest sn' (acc ++ [⟨kitName, tiers⟩])

/-- `_proccessContainerTierInput(sectionData, name)` (the name is attached by the caller) -/
def processContainer (sectionData : Txt) : R (List IT) :=
  let body := ((pySplitN '\n' 3 sectionData).getLast?).getD []
  buildContainer body (containerIndexLists body) none []

def containerNames : List Txt :=
  ["oral_formants", "nasal_formants", "nasal_antiformants", "tracheal_formants",
   "tracheal_antiformants", "delta_formants", "frication_formants"].map String.toList

def Sec.name : Sec → Txt
  | .tier t => t.name
  | .cont n _ => n

/-- `hasSpan`: `kg.minTimestamp is not None`.  A container without any sub tier has `minTimestamp = None`,
and `Textgrid.addTier` then compares `None < float` (TypeError) unless the grid has no span yet. -/
def sectionLoop (data : Txt) (idx : List Int) : List Nat → Bool → List Sec → R (List Sec)
  | [], _, acc => pure acc
  | i :: is, hasSpan, acc => do
    let (name, minT, maxT, sectionData, tail) ← getSectionHeader data idx i
    let sec ←
      if containerNames.contains name then do
        let its ← processContainer sectionData
        pure (Sec.cont name its)
      else do
        let entries ← buildEntries tail
        pure (Sec.tier ⟨name, minT, maxT, entries⟩)
    if (acc.map Sec.name).contains name then throw .tierNameExists     -- `kg.addTier`
    let spanless := match sec with | .cont _ its => its.all (fun i => i.subs.isEmpty) | .tier _ => false
    if spanless && hasSpan then throw .typeError
    sectionLoop data idx is (hasSpan || !spanless) (acc ++ [sec])

/-- `_openNormalKlattgrid(data)` -/
def openNormal (data : Txt) : R (List Sec) := do
  -- data.split("\n\n", 1)[1]
  let data ← match pyFind ['\n', '\n'] data 0 with
    | none => throw PyErr.indexError
    | some i => pure (data.drop (i + 2))
  -- startI = data.index("points"); data.index("\n", startI)
  let startI ← match pyFind "points".toList data 0 with | none => throw PyErr.valueError | some i => pure i
  let _ ← match pyFind ['\n'] data startI with | none => throw PyErr.valueError | some i => pure i
  let idx := findIndices data "<exists>".toList ++ [(data.length : Int)]
  sectionLoop data idx (List.range (idx.length - 1)) false []

/-! ## writer -/

def t (s : String) : Txt := s.toList

def noPointsHeader : List Txt := ["phonation", "vocalTract", "coupling", "frication"].map String.toList

def pointRows (ind : Txt) : Nat → List (Txt × Txt) → List Txt
  | _, [] => []
  | i, (n, v) :: rest =>
    (ind ++ t "points [" ++ natDec (i + 1) ++ t "]:") ::
    (ind ++ t "    number = " ++ n) ::
    (ind ++ t "    value = " ++ v) :: pointRows ind (i + 1) rest

/-- `KlattPointTier.getAsText` -/
def PT.text (p : PT) : Txt :=
  let head := [p.name ++ t "? <exists> ", t "xmin = " ++ p.xmin, t "xmax = " ++ p.xmax]
  let size := if noPointsHeader.contains p.name then [] else [t "points: size= " ++ natDec p.pts.length]
  join ['\n'] (head ++ size ++ pointRows [] 0 p.pts) ++ ['\n']

/-- `KlattSubPointTier.getAsText` -/
def PT.subText (p : PT) : Txt :=
  let head := [p.name ++ t ":", t "    xmin = " ++ p.xmin, t "    xmax = " ++ p.xmax,
               t "    points: size = " ++ natDec p.pts.length]
  join ['\n'] (head ++ pointRows (t "    ") 0 p.pts) ++ ['\n']

/-- `KlattIntermediateTier.getAsText` -/
def IT.text (i : IT) : Txt :=
  i.name ++ t ": size=" ++ natDec i.subs.length ++ ['\n'] ++ (i.subs.map PT.subText).flatten

/-- a section together with what the writer needs beyond the reader's view: a container's own span
(`none` when its `minTimestamp` is `None`: the `TypeError` branch) -/
structure WSec where
  sec : Sec
  span : Option (Txt × Txt) := none

/-- `KlattContainerTier.getAsText` / `KlattPointTier.getAsText` -/
def WSec.text (w : WSec) : Txt :=
  match w.sec with
  | .tier p => p.text
  | .cont name its =>
    name ++ t "? <exists>\n" ++
      (match w.span with | some (a, b) => t "xmin = " ++ a ++ t "\nxmax = " ++ b ++ ['\n'] | none => []) ++
      (its.map IT.text).flatten

/-- the text `Klattgrid.save` assembles before `_cleanNumericValues` -/
def rawText (xmin xmax : Txt) (secs : List WSec) : Txt :=
  t "File type = \"ooTextFile\"\nObject class = \"KlattGrid\"\n\n" ++
  t "xmin = " ++ xmin ++ t "\nxmax = " ++ xmax ++ ['\n'] ++ (secs.map WSec.text).flatten

/-- what a zero-valued non-integer tail is rewritten to: `"-0" if tail.startswith("-") else "0"`
(the sign of a negative zero is kept; `-0` reads back as `-0.0`) -/
def zeroForm (tail : Txt) : Txt :=
  match tail with
  | '-' :: _ => t "-0"
  | _ => t "0"

/-- one row of `_cleanNumericValues` -/
def cleanRow (row : Txt) : Txt :=
  let row := rstrip row
  if contains (t "min") row ∨ contains (t "max") row then rstrip row
  else
    match pySplit '=' row with
    | [head, tail] =>
      let head := rstrip head
      let tail := stripList tail
      if isIntLit tail then rstrip (head ++ t " = " ++ tail)
      else
        match fclass tail with
        | none => rstrip row
        | some .zero => rstrip (head ++ t " = " ++ zeroForm tail)
        | some _ => rstrip (head ++ t " = " ++ tail)
    | _ => rstrip row

/-- `_cleanNumericValues(dataStr)` -/
def cleanNumeric (s : Txt) : Txt := join ['\n'] ((pySplit '\n' s).map cleanRow)

/-- the file `Klattgrid.save` writes -/
def fileText (xmin xmax : Txt) (secs : List WSec) : Txt := cleanNumeric (rawText xmin xmax secs)

/-! ## value modification -/

/-- `KlattPointTier.modifyValues(modFunc)` with the function acting on numerals -/
def PT.modifyValues (f : Txt → Txt) (p : PT) : PT := { p with pts := p.pts.map fun (a, v) => (a, f v) }

/-- `KlattContainerTier.modifySubtiers(tierName, modFunc)`; KeyError when no such intermediate tier -/
def modifySubtiers (its : List IT) (tierName : Txt) (f : Txt → Txt) : R (List IT) :=
  if (its.map (·.name)).contains tierName then
    pure (its.map fun i => if i.name = tierName then { i with subs := i.subs.map (PT.modifyValues f) } else i)
  else throw .keyError

/-! ## point objects -/

/-- class, span and rows of numerals (one numeral per row for 1-D, two for 2-D) -/
structure PO where
  cls : Txt
  xmin : Txt
  xmax : Txt
  rows : List (List Txt)
  deriving DecidableEq, Repr

/-- `PointObject.save` -/
def PO.text (p : PO) : Txt :=
  t "File type = \"ooTextFile\"\nObject class = \"" ++ p.cls ++ t "\"\n\n" ++ p.xmin ++ ['\n'] ++ p.xmax ++
    ['\n'] ++ natDec p.rows.length ++ ['\n'] ++ join ['\n'] p.rows.flatten ++ ['\n']

def getNeg (l : List Txt) (k : Nat) : R Txt :=       -- `l[-k]`
  if k ≤ l.length ∧ 0 < k then pure (l.getD (l.length - k) []) else throw .indexError

/-- `objectType = chunkedData[1].split("=")[-1].replace('"', "").strip()` -/
def objectType (chunked : List Txt) : R Txt :=
  match chunked[1]? with
  | none => throw .indexError
  | some row => pure (stripList (((pySplit '=' row).getLast?.getD []).filter (· ≠ '"')))

/-- `_parseShortHeader` → `(data, objectType, minT, maxT)` -/
def parseShortHeader (data : Txt) : R (Txt × Txt × Txt × Txt) := do
  let chunked := pySplitN '\n' 6 data
  let ot ← objectType chunked
  let rest ← getNeg chunked 1
  let maxT ← floatTok (stripList (← getNeg chunked 3))
  let minT ← floatTok (stripList (← getNeg chunked 4))
  pure (rest, ot, minT, maxT)

def getIdx (l : List Txt) (k : Nat) : R Txt :=        -- `l[k]`, `k ≥ 0`
  match l[k]? with
  | some x => pure x
  | none => throw .indexError

/-- `_parseNormalHeader` (as repaired: the header rows are counted from the top, and a file without an
eighth chunk — an object without points — has no data) -/
def parseNormalHeader (data : Txt) : R (Txt × Txt × Txt × Txt) := do
  let chunked := pySplitN '\n' 7 data
  let ot ← objectType chunked
  let rest := if 7 < chunked.length then chunked.getD 7 [] else []
  let maxT ← floatTok (stripList ((pySplit '=' (← getIdx chunked 4)).getLast?.getD []))
  let minT ← floatTok (stripList ((pySplit '=' (← getIdx chunked 3)).getLast?.getD []))
  pure (rest, ot, minT, maxT)

/-- `_getNextValue(data, start)` → `(value, end)` -/
def getNextValue (data : Txt) (start : Nat) : R (Txt × Nat) :=
  match pyFind ['\n'] data start with
  | none => throw .valueError
  | some e => pure (pySlice data (start + 1) e, e)

def long1DLoop : Nat → Txt → Nat → List (List Txt) → R (List (List Txt))
  | 0, _, _, acc => pure acc
  | fuel + 1, data, start, acc =>
    match pyFind ['='] data start with
    | none => pure acc
    | some i => do
      let (v, e) ← getNextValue data i
      let v ← floatTok (stripList v)
      long1DLoop fuel data e (acc ++ [[v]])

def long2DLoop : Nat → Txt → Nat → List (List Txt) → R (List (List Txt))
  | 0, _, _, acc => pure acc
  | fuel + 1, data, start, acc =>
    match pyFind ['='] data start with
    | none => pure acc
    | some i => do
      let (tv, e) ← getNextValue data i
      match pyFind ['='] data e with
      | none => pure acc
      | some j => do
        let (pv, e2) ← getNextValue data j
        let tv ← floatTok (stripList tv)
        let pv ← floatTok (stripList pv)
        long2DLoop fuel data e2 (acc ++ [[tv, pv]])

/-- the short-format comprehension of `open2DPointObject` -/
def shortPairs : List Txt → R (List (List Txt))
  | [] => pure []
  | [a] => if stripList a = [] then pure [] else do
      let _ ← floatTok (stripList a)
      throw .indexError
  | a :: b :: rest =>
    if stripList a = [] then shortPairs rest
    else do
      let a ← floatTok (stripList a)
      let b ← floatTok (stripList b)
      let r ← shortPairs rest
      pure ([a, b] :: r)

/-- `PointObject.__init__`: `minTime if minTime > 0 else 0` is applied to the *number*; at the numeral
level the reader model returns the numeral and the harness applies the rule.  The class check of the
subclass constructors is modelled. -/
def checkClass (ok : List Txt) (cls : Txt) : R Unit :=
  if ok.contains cls then pure () else throw .wrongOption

/-- `open1DPointObject` (on the file's text) -/
def open1D (data : Txt) : R PO := do
  if contains (t "xmin") (data.take 100) then
    let (rest, ot, minT, maxT) ← parseNormalHeader data
    let rows ← long1DLoop (rest.length + 1) rest 0 []
    checkClass [t "PointProcess"] ot
    pure ⟨ot, minT, maxT, rows⟩
  else
    let (rest, ot, minT, maxT) ← parseShortHeader data
    let rows ← ((pySplit '\n' rest).filter fun v => stripList v ≠ []).mapM fun v => do
      let v ← floatTok (stripList v)
      pure [v]
    checkClass [t "PointProcess"] ot
    pure ⟨ot, minT, maxT, rows⟩

/-- `open2DPointObject` -/
def open2D (data : Txt) : R PO := do
  if contains (t "xmin") (data.take 100) then
    let (rest, ot, minT, maxT) ← parseNormalHeader data
    let rows ← long2DLoop (rest.length + 1) rest 0 []
    checkClass [t "PitchTier", t "DurationTier"] ot
    pure ⟨ot, minT, maxT, rows⟩
  else
    let (rest, ot, minT, maxT) ← parseShortHeader data
    let rows ← shortPairs (pySplit '\n' rest)
    checkClass [t "PitchTier", t "DurationTier"] ot
    pure ⟨ot, minT, maxT, rows⟩

/-! ### Praat's long layout (an independent reference writer, used for `long_short_agree`) -/

def longRows1D : Nat → List (List Txt) → List Txt
  | _, [] => []
  | i, r :: rest => (t "    t [" ++ natDec (i + 1) ++ t "] = " ++ (r.headD []) ++ t " ") :: longRows1D (i + 1) rest

def longRows2D : Nat → List (List Txt) → List Txt
  | _, [] => []
  | i, r :: rest =>
    (t "points [" ++ natDec (i + 1) ++ t "]:") ::
    (t "    number = " ++ r.headD [] ++ t " ") ::
    (t "    value = " ++ (r.getD 1 []) ++ t " ") :: longRows2D (i + 1) rest

/-- the long ("normal") text layout Praat writes for a PointProcess / PitchTier / DurationTier -/
def PO.longText (p : PO) (twoD : Bool) : Txt :=
  let head := [t "File type = \"ooTextFile\"", t "Object class = \"" ++ p.cls ++ t "\"", [],
               t "xmin = " ++ p.xmin ++ t " ", t "xmax = " ++ p.xmax ++ t " "]
  let body :=
    if twoD then (t "points: size = " ++ natDec p.rows.length ++ t " ") :: longRows2D 0 p.rows
    else [t "nt = " ++ natDec p.rows.length ++ t " ", t "t []: "] ++ longRows1D 0 p.rows
  join ['\n'] (head ++ body) ++ ['\n']

end Klatt
