import PraatModel.Proto
import PraatModel.Read
import PraatModel.Save
import PraatModel.Spec.TextGridFormat
import PraatModel.Open
import PraatModel.Json

/-! # driver operations for C01-C04: save path, emitters, parsers (extension point of `Run.lean`) -/

namespace RunIO

def rawTier (t : RawTier) : String :=
  Out.join ([Out.str t.cls, Out.str t.name, Out.str t.xmin, Out.str t.xmax, toString t.entries.length] ++
    t.entries.map fun e => Out.join (toString e.length :: e.map Out.str))

def rawTg (g : RawTg) : String :=
  Out.join ([Out.str g.xmin, Out.str g.xmax, toString g.tiers.length] ++ g.tiers.map rawTier)

def optTxt : Option Txt → String
  | none => "none"
  | some t => "some " ++ Out.str (Txt.toStr t)

end RunIO

/-- `none` = not an operation of this group.  `α` is the number type of the run (`Float` or `Int`). -/
def runOpIO (α : Type) [LT α] [LE α] [DecidableLT α] [DecidableLE α] [BEq α] [Add α] [Sub α] [Tm α] [Proto α]
    (op : String) : Option (P String) :=
  match op with
  | "parse" => some do
    let text ← P.str; let iei ← P.bool
    pure (Out.exc RunIO.rawTg (Rd.parseText (Txt.ofString text) iei))
  | "u_num" => some do
    let s ← P.str; let kw ← P.str; let neg ← P.bool
    pure ("ok " ++ RunIO.optTxt (Rd.matchNum (Txt.ofString s) (Txt.ofString kw) neg))
  | "u_text" => some do
    let s ← P.str; let kw ← P.str; let da ← P.bool
    pure ("ok " ++ RunIO.optTxt (Rd.matchText (Txt.ofString s) (Txt.ofString kw) da))
  | "u_textrest" => some do
    let s ← P.str; let kw ← P.str; let da ← P.bool
    pure ("ok " ++ (match Rd.matchTextRest (Txt.ofString s) (Txt.ofString kw) da with
      | some (w, r) => "some " ++ Out.str (Txt.toStr w) ++ " " ++ Out.str (Txt.toStr r)
      | none => "none"))
  | "u_split" => some do
    let s ← P.str; let kw ← P.str
    let parts := Rd.splitKw (Txt.ofString s) (Txt.ofString kw)
    pure ("ok " ++ Out.join (toString parts.length :: parts.map fun p => Out.str (Txt.toStr p)))
  | "u_class" => some do
    let s ← P.str
    pure ("ok " ++ (if Rd.matchClass (Txt.ofString s) then "true" else "false"))
  | "u_fetchtext" => some do
    let s ← P.str; let i ← P.nat; let st ← P.bool
    pure (Out.exc (fun (w, j) => Out.str (Txt.toStr w) ++ " " ++ toString j) (Rd.fetchTextRow (Txt.ofString s) i st))
  | "u_fetchrow" => some do
    let s ← P.str; let i ← P.nat
    pure (Out.exc (fun (w, j) => Out.str (Txt.toStr w) ++ " " ++ toString j) (Rd.fetchRow (Txt.ofString s) i))
  | "specread" => some do
    let text ← P.str
    pure (match Spec.decode text with
      | some g => "ok " ++ RunIO.rawTg g
      | none => "err SpecError")
  | "dupnames" => some do
    let mode ← P.tok; let n ← P.nat; let names ← P.many n P.str
    if mode == "rename" then
      let r := renameDups toString [] names
      pure ("ok " ++ Out.join (toString r.length :: r.map Out.str))
    else
      pure (match checkDups [] names with
        | .ok _ => "ok " ++ Out.join (toString names.length :: names.map Out.str)
        | .error e => "err " ++ e.name)
  | "prep" => some do
    let g ← P.tg (α := α); let blanks ← P.bool; let mn ← P.opt P.time; let mx ← P.opt P.time; let ml ← P.opt P.time
    pure (Out.exc Out.tg (prepTg g blanks mn mx ml))
  | "emit" => some do
    let fmt ← P.tok
    let g ← P.tg (α := α); let blanks ← P.bool; let mn ← P.opt P.time; let mx ← P.opt P.time; let ml ← P.opt P.time
    -- numeral table supplied by CPython: value, int(value), repr(value), "%d" % value
    let n ← P.nat
    let table ← P.many n (do let x ← P.time (α := α); let tx ← P.time (α := α); let r ← P.str; let d ← P.str; pure (x, tx, r, d))
    let look (x : α) := table.find? (fun e => Proto.toP e.1 == Proto.toP x)
    let num : α → String := numToStr
      (fun x => match look x with | some (_, tx, _, _) => tx | none => x)
      (fun x => match look x with | some (_, _, r, _) => r | none => "?")
      (fun x => match look x with | some (_, _, _, d) => d | none => "?")
    match prepTg g blanks mn mx ml with
    | .error e => pure ("err " ++ e.name)
    | .ok g' =>
      match g'.lo, g'.hi with
      | some lo, some hi =>
        if fmt == "short_textgrid" then pure ("ok " ++ Out.str (tgToShort num g' lo hi))
        else if fmt == "long_textgrid" then pure ("ok " ++ Out.str (tgToLong num g' lo hi))
        else throw s!"bad format {fmt}"
      | _, _ => pure "err ValueError"
  | "emitjson" => some do
    -- `getTextgridAsStr(tg, "json" | "textgrid_json", ...)`: the same preparation, then `json.dumps`
    let fmt ← P.tok
    let g ← P.tg (α := α); let blanks ← P.bool; let mn ← P.opt P.time; let mx ← P.opt P.time; let ml ← P.opt P.time
    -- which of the textgrid's span ends / the two overrides are Python ints (everything inside a tier is a float)
    let loInt ← P.bool; let hiInt ← P.bool; let mnInt ← P.bool; let mxInt ← P.bool
    -- numeral table supplied by CPython: value, int(value), repr(value), "%d" % value  (= str(int) for an int)
    let n ← P.nat
    let table ← P.many n (do let x ← P.time (α := α); let tx ← P.time (α := α); let r ← P.str; let d ← P.str; pure (x, tx, r, d))
    let look (x : α) := table.find? (fun e => Proto.toP e.1 == Proto.toP x)
    let num : PyNum α → String := fun p =>
      match look p.v with
      | some (_, _, r, d) => if p.isInt then d else r
      | none => "?"
    let g0 := PyNum.liftTg g loInt hiInt
    match prepTg g0 blanks (mn.map (⟨·, mnInt⟩)) (mx.map (⟨·, mxInt⟩)) (ml.map PyNum.float) with
    | .error e => pure ("err " ++ e.name)
    | .ok g' =>
      match g'.lo, g'.hi with
      | some lo, some hi =>
        if fmt == "textgrid_json" then pure ("ok " ++ Out.str (tgToJsonFull num g' lo hi))
        else if fmt == "json" then pure ("ok " ++ Out.str (tgToJsonSimple num g' lo hi))
        else throw s!"bad format {fmt}"
      | _, _ => pure "err ValueError"
  | "parsejson" => some do
    let text ← P.str; let iei ← P.bool
    pure (match parseAny text iei with
      | some r => Out.exc RunIO.rawTg r
      | none => "err Schema")
  | "u_jsonstr" => some do
    let s ← P.str
    pure ("ok " ++ Out.str (String.ofList (Json.quoted s)))
  | "u_jsonnum" => some do
    let s ← P.str
    pure ("ok " ++ (if decide (JsonNum s) then "true" else "false"))
  | "u_jsondoc" => some do
    let s ← P.str
    pure (match Json.parse s.toList with
      | some v => "ok " ++ Out.str (String.ofList (Json.render v))
      | none => "err JSONDecodeError")
  | _ => none
