import PraatModel.Proto

/-! # driver operations for C01-C04: save path, emitters, parsers (extension point of `Run.lean`) -/

section
variable {α : Type} [LT α] [LE α] [DecidableLT α] [DecidableLE α] [BEq α] [Add α] [Sub α] [Tm α] [Proto α]

/-- `none` = not an operation of this group -/
def runOpIO (op : String) : Option (P String) :=
  match op with
  | _ => none
end
