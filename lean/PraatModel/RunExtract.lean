import PraatModel.Proto
import PraatModel.RunAudio
import PraatModel.Extract

/-! # driver operations for C17: interval-driven audio extraction (extension point of `Run.lean`)

Token syntax of this group (in addition to `RunAudio.lean`'s `num/den` times, `h…` bytes):
* `<den>`       : the common denominator of the integer times of the line
* pair list     : `<n> (s e)*` — integer numerators over `<den>`; the keep list is optional (`N` = `None`)
* generator     : `N` (no replaceFunc) | `sil` (`AudioGenerator.generateSilence`)
* tg flag       : `off` | `all` | `only <name>`
* name style    : `default` | `append` | `append_no_i` | `label`
* value table   : `<n> (<time> <num/den>)*` — the exact value of each timestamp of the split tier
-/

namespace ExtractProto
open Audio AudioProto Extract

def pairs : P (List (Int × Int)) := do
  let n ← P.nat
  P.many n (do let s ← P.int; let e ← P.int; pure (s, e))

def outMarked (ms : List Marked) : String :=
  Out.join (toString ms.length :: ms.map fun m => s!"{m.s} {m.e} {if m.keep then "keep" else "delete"}")

def outX {β} (f : β → String) : Except XErr β → String
  | .ok v => "ok " ++ f v
  | .error e => "err " ++ e.name

def tgFlag : P TgFlag := do
  match (← P.tok) with
  | "off" => pure .off
  | "all" => pure .all
  | "only" => do let n ← P.str; pure (.only n)
  | t => throw s!"bad tg flag {t}"

def nameStyle : P NameStyle := do
  match (← P.tok) with
  | "default" => pure .default
  | "append" => pure .append
  | "append_no_i" => pure .appendNoI
  | "label" => pure .label
  | t => throw s!"bad name style {t}"

def outWavFile (f : WavFile) : String := s!"{f.width} {f.rate} {outBytes f.data}"
end ExtractProto

open Audio AudioProto Extract ExtractProto in
/-- `none` = not an operation of this group.  `α` is the number type of the run (`Float` or `Int`). -/
def runOpExtract (α : Type) [LT α] [LE α] [DecidableLT α] [DecidableLE α] [BEq α] [Add α] [Sub α] [Tm α] [Proto α]
    (op : String) : Option (P String) :=
  match op with
  | "x_marked" => some do
    let start ← P.int; let stop ← P.int; let keep ← P.opt pairs; let del ← pairs
    pure (Out.exc outMarked (computeKeepDelete start stop keep del))
  | "x_times" => some do
    let den ← P.nat; let wv ← wav; let dur ← P.int; let keep ← P.opt pairs; let del ← pairs
    let g ← P.tok
    let f : WavFile := ⟨wv.width, wv.rate, wv.frames⟩
    let gen : Option (Int → List UInt8) := if g = "sil" then some (generateSilence den f.rate f.width) else none
    let durBits := (Float.ofNat f.nframes / Float.ofNat f.rate).toBits.toNat
    pure (outX (fun bs => s!"{durBits} {outBytes bs}") (readFramesAtTimes den f dur keep del gen))
  | "x_silence" => some do
    let den ← P.nat; let w ← P.nat; let r ← P.nat; let d ← P.int
    pure ("ok " ++ outBytes (generateSilence den r w d))
  | "x_sinecount" => some do
    let den ← P.nat; let r ← P.nat; let d ← P.int
    pure s!"ok {sineCount den r d}"
  | "x_extract" => some do
    let wv ← wav; let s ← qtime; let e ← qtime
    pure (outExc outWavFile (extractSubwav ⟨wv.width, wv.rate, wv.frames⟩ s e))
  | "x_split" => some do
    let wv ← wav
    let g ← P.tg (α := α); let tierName ← P.str; let stem ← P.str
    let flag ← tgFlag; let style ← nameStyle; let noPartial ← P.bool; let silence ← P.opt P.str
    let n ← P.nat
    let table ← P.many n (do let k ← P.int; let q ← qtime; pure (k, q))
    let toQ : α → QTime := fun x => ((table.find? (fun p => p.1 == Proto.toP x)).map (·.2)).getD ⟨0, 1⟩
    let outOne (o : SplitOut α) : String :=
      s!"{Out.time o.s} {Out.time o.e} {Out.str o.name} {outWavFile o.wav} " ++
        (match o.tg with | some t => "T " ++ Out.tg t | none => "N")
    pure (outX (fun outs => Out.join (toString outs.length :: outs.map outOne))
      (splitAudioOnTier toQ ⟨wv.width, wv.rate, wv.frames⟩ g tierName stem flag style noPartial silence))
  | _ => none
