import PraatModel.Proto
import PraatModel.Numeric

/-! # driver operations for C20: numeric series helpers (extension point of `Run.lean`)

* `stepfilt <f> <n> <x1..xn> <window> <pad>`  → `ok <n> <y1..yn>`; `<f>` names the filter function handed to
  `_stepFilter`: `median` (= `medianFilter`), `first`, `last`, `center`, `max`, `min`, `sum`
* `pitch <n> <x1..xn> <w|N> <filterZero>` → `ok <max> <min> <range>` (the selected / subtracted components
  of `getPitchMeasures`; mean, variance, std are oracle-only)
* `detectF <thr> <n> (<t> <p>)*` → `ok <k> (<t> <ratio>)*` — F run only: numbers are binary64 bit patterns and
  the arithmetic is Lean's `Float`
* `detectX <a> <b> <n> (<t> <p>)*` → `ok <k> <t>*` — X run only: threshold `a/b`, exact rational arithmetic
* `load <undef|N> <r> (<m> (<field> <num|N>)*)*` → `ok <k> (<m> <v>*)*`; `float()` is the table sent with the fields
-/

namespace RunNumeric

def numList {α} [Proto α] : P (List α) := do let n ← P.nat; P.many n P.time
def outList {α} [Proto α] (xs : List α) : String := Out.join (toString xs.length :: xs.map Out.time)

/-- the filter functions the harness can name on both sides -/
def filterByName {α : Type} [LT α] [LE α] [DecidableLT α] [DecidableLE α] [Add α] [Tm α] (name : String) :
    Option (List α → α) :=
  letI : Inhabited α := ⟨Tm.zero⟩
  match name with
  | "median" => some Numeric.median
  | "first" => some fun w => w.headD Tm.zero                       -- w[0]
  | "last" => some fun w => w.getLastD Tm.zero                     -- w[-1]
  | "center" => some fun w => w.getD (w.length / 2) Tm.zero        -- w[len(w) // 2]
  | "max" => some fun w => (pyMaxList w).getD Tm.zero              -- max(w)
  | "min" => some fun w => (pyMinList w).getD Tm.zero              -- min(w)
  | "sum" => some fun w => w.foldl (· + ·) Tm.zero                 -- sum(w)
  | _ => none

/-- F run: the run's numbers are binary64 bit patterns -/
def asFloat {α} [Proto α] (x : α) : Float := Float.ofBits (Proto.toP x).toNat.toUInt64
def floatBits (f : Float) : String := toString f.toBits.toNat

def outExc {β} (f : β → String) : Except Err β → String := Out.exc f

end RunNumeric

open RunNumeric in
/-- `none` = not an operation of this group.  `α` is the number type of the run (`Float` or `Int`). -/
def runOpNumeric (α : Type) [LT α] [LE α] [DecidableLT α] [DecidableLE α] [BEq α] [Add α] [Sub α] [Tm α] [Proto α]
    (op : String) : Option (P String) :=
  letI : Inhabited α := ⟨Tm.zero⟩
  match op with
  | "stepfilt" => some do
    let name ← P.tok
    let xs ← numList (α := α); let w ← P.nat; let pad ← P.bool
    match filterByName (α := α) name with
    | none => throw s!"unknown filter function {name}"
    | some f => pure ("ok " ++ outList (Numeric.stepFilter f xs w pad))
  | "pitch" => some do
    let xs ← numList (α := α); let w ← P.opt P.nat; let fz ← P.bool
    let dummy : Numeric.PitchArith α := ⟨fun _ => Tm.zero, fun _ _ => Tm.zero, fun _ => Tm.zero⟩
    let (_, mx, mn, rg, _, _) := Numeric.getPitchMeasures dummy xs w fz
    pure s!"ok {Out.time mx} {Out.time mn} {Out.time rg}"
  | "detectF" => some do
    let thr ← P.time (α := α); let n ← P.nat
    let pl ← P.many n (do let t ← P.time (α := α); let p ← P.time (α := α); pure (t, asFloat p))
    pure (outExc (fun r => Out.join (toString r.length :: r.map fun (t, q) => Out.time t ++ " " ++ floatBits q))
      (Numeric.detectPitchErrors pl (asFloat thr)))
  | "detectX" => some do
    let a ← P.int; let b ← P.int; let n ← P.nat
    let pl ← P.many n (do let t ← P.time (α := α); let p ← P.int; pure (t, (p : Rat)))
    pure (outExc (fun r => Out.join (toString r.length :: r.map fun (t, _) => Out.time t))
      (Numeric.detectPitchErrors pl ((a : Rat) / (b : Rat))))
  | "load" => some do
    let undef ← P.opt (P.time (α := α)); let r ← P.nat
    let rows ← P.many r (do
      let m ← P.nat
      P.many m (do let s ← P.str; let v ← P.opt (P.time (α := α)); pure (s, v)))
    let table := rows.flatten
    let float : String → Except Err α := fun s =>
      match table.lookup s with
      | some (some v) => .ok v
      | _ => .error .ValueError
    pure (outExc (fun out => Out.join (toString out.length :: out.map outList))
      (Numeric.loadTimeSeriesData float undef (rows.map (·.map (·.1)))))
  | _ => none
