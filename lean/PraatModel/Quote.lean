import PraatModel.Py
import PraatModel.Tier

/-!
# Quote doubling and its two readers, at list level

* `escapeL`   — `utils.escapeQuotes`: every `"` doubled
* `unescapeL` — `str.replace('""', '"')`: leftmost, non-overlapping
* `scanText`  — the loop of `textgrid_io._fetchTextRow` as a one-pass machine: skip to the next quote, count the
  run of quotes, an odd run ends the text (IndexError when the run reaches the end of the string, ValueError when
  there is no further quote)
* `specText`  — the text token of Praat's own format description (written from the manual, not from praatio):
  after the opening quote, `""` is one quote and a single `"` ends the text
-/

def q : Char := '"'

def escapeL : List Char → List Char
  | [] => []
  | c :: cs => if c = q then q :: q :: escapeL cs else c :: escapeL cs

def unescapeL : List Char → List Char
  | c :: d :: cs => if c = q ∧ d = q then q :: unescapeL cs else c :: unescapeL (d :: cs)
  | cs => cs

/-- state of the `_fetchTextRow` machine: `none` = looking for the next quote, `some k` = inside a run of `k` quotes.
Returns how many characters were consumed up to and including the terminating run. -/
def scanText : Option Nat → Nat → List Char → Except Err Nat
  | none, _, [] => .error .ValueError                 -- dataStr.index('"', endIndex) fails
  | some _, _, [] => .error .IndexError               -- dataStr[quoteEndIndex] past the end
  | none, n, c :: cs => if c = q then scanText (some 1) (n + 1) cs else scanText none (n + 1) cs
  | some k, n, c :: cs =>
    if c = q then scanText (some (k + 1)) (n + 1) cs
    else if k % 2 = 1 then .ok n
    else scanText none (n + 1) cs

/-- Praat's text token: input just after the opening quote; returns (text, rest after the closing quote) -/
def specText : List Char → Option (List Char × List Char)
  | [] => none
  | c :: cs =>
    if c = q then
      match cs with
      | d :: ds => if d = q then (specText ds).map fun (t, r) => (q :: t, r) else some ([], cs)
      | [] => some ([], [])
    else (specText cs).map fun (t, r) => (c :: t, r)
