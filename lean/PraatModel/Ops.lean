import PraatModel.Crop

/-!
# Tier operations, modelled as the code is written
(interval_tier.py, point_tier.py, textgrid_tier.py — each definition names the method it mirrors)

Mutating methods return the new tier; an `.error` leaves the receiver as it was (the harness checks
that separately on the real objects, C13).
-/

section
variable {α : Type} [LT α] [LE α] [DecidableLT α] [DecidableLE α] [BEq α] [Add α] [Sub α] [Tm α]

def tabs (x : α) : α := if x < Tm.zero then Tm.zero - x else x

/-- `Interval.__eq__`: tolerant on both times, exact on the label -/
def ivEq (a b : Iv α) : Bool := Tm.close9 a.s b.s && Tm.close9 a.e b.e && a.l == b.l
/-- `Point.__eq__` -/
def ptEq (a b : Pt α) : Bool := Tm.close9a a.t b.t && a.l == b.l

/-- `tuple(existingEntry) == tuple(entry)`: exact on every field -/
def ivSame (a b : Iv α) : Bool := a.s == b.s && a.e == b.e && a.l == b.l
def ptSame (a b : Pt α) : Bool := a.t == b.t && a.l == b.l

/-- the first loop of `deleteEntry` (after the repair in /repo): remove the first exactly matching entry -/
def eraseSameIv : List (Iv α) → Iv α → Option (List (Iv α))
  | [], _ => none
  | e :: rest, x => if ivSame e x then some rest else (eraseSameIv rest x).map (e :: ·)

def eraseSamePt : List (Pt α) → Pt α → Option (List (Pt α))
  | [], _ => none
  | e :: rest, x => if ptSame e x then some rest else (eraseSamePt rest x).map (e :: ·)

/-- the fallback `self._entries.pop(self._entries.index(entry))`: first entry equal under the tolerant `__eq__` -/
def deleteIvTol : List (Iv α) → Iv α → Except Err (List (Iv α))
  | [], _ => .error .ValueError
  | e :: rest, x => if ivEq e x then .ok rest else (deleteIvTol rest x).map (e :: ·)

def deletePtTol : List (Pt α) → Pt α → Except Err (List (Pt α))
  | [], _ => .error .ValueError
  | e :: rest, x => if ptEq e x then .ok rest else (deletePtTol rest x).map (e :: ·)

/-- `deleteEntry`'s search: the exactly matching entry if there is one, else the first tolerant match -/
def deleteIv (es : List (Iv α)) (x : Iv α) : Except Err (List (Iv α)) :=
  match eraseSameIv es x with
  | some r => .ok r
  | none => deleteIvTol es x

def deletePt (ps : List (Pt α)) (x : Pt α) : Except Err (List (Pt α)) :=
  match eraseSamePt ps x with
  | some r => .ok r
  | none => deletePtTol ps x

def deleteIvs (es : List (Iv α)) (ms : List (Iv α)) : Except Err (List (Iv α)) :=
  ms.foldlM deleteIv es

/-- `IntervalTier.deleteEntry` -/
def ITier.deleteEntry (t : ITier α) (x : Iv α) : Except Err (ITier α) := do
  let es ← deleteIv t.es x
  pure { t with es := es }

/-- `PointTier.deleteEntry` -/
def PTier.deleteEntry (t : PTier α) (x : Pt α) : Except Err (PTier α) := do
  let ps ← deletePt t.ps x
  pure { t with ps := ps }

/-- the entry built by the `merge` branch of `IntervalTier.insertEntry` from the sorted match list -/
def mergedIv (ml : List (Iv α)) (dflt : Iv α) : Iv α :=
  let s := (pyMinList (ml.map (·.s))).getD dflt.s
  let e := (pyMaxList (ml.map (·.e))).getD dflt.e
  ⟨s, e, pyJoin "-" (ml.map (·.l))⟩

/-- span growth after an in-place insertion (`self._entries[0][0] < self.minTimestamp` …) -/
def growSpan (t : ITier α) (es : List (Iv α)) : ITier α :=
  let lo := match es.head? with
    | some f => if f.s < t.lo then f.s else t.lo
    | none => t.lo
  let hi := match es.getLast? with
    | some g => if t.hi < g.e then g.e else t.hi
    | none => t.hi
  { t with es := es, lo := lo, hi := hi }

/-- `IntervalTier.insertEntry(entry, collisionMode, collisionReportingMode ∈ {silence, warning})` -/
def ITier.insertEntry (t : ITier α) (x0 : Iv α) (mode : InsMode) : Except Err (ITier α) := do
  let x : Iv α := { x0 with l := pyStrip x0.l }
  let mt ← t.crop x.s x.e .lax false
  let ml := mt.es
  let es1 ←
    if ml.isEmpty then pure (t.es ++ [x])
    else match mode with
      | .replace => do
        let es0 ← deleteIvs t.es ml
        pure (es0 ++ [x])
      | .merge => do
        let es0 ← deleteIvs t.es ml
        let ml2 := sortIvs (ml ++ [x])
        pure (es0 ++ [mergedIv ml2 x])
      | .error => throw .CollisionError
  pure (growSpan t (sortIvs es1))

def growSpanP (t : PTier α) (ps : List (Pt α)) : PTier α :=
  let lo := match ps.head? with
    | some f => if f.t < t.lo then f.t else t.lo
    | none => t.lo
  let hi := match ps.getLast? with
    | some g => if t.hi < g.t then g.t else t.hi
    | none => t.hi
  { t with ps := ps, lo := lo, hi := hi }

/-- `PointTier.insertEntry` (after the repair in /repo: EVERY point at the insertion time collides, not only the first) -/
def PTier.insertEntry (t : PTier α) (x0 : Pt α) (mode : InsMode) : Except Err (PTier α) := do
  let x : Pt α := { x0 with l := pyStrip x0.l }
  let ml := t.ps.filter (fun p => p.t == x.t)
  let ps1 ←
    if ml.isEmpty then pure (t.ps ++ [x])
    else match mode with
      | .replace => do
        let ps0 ← ml.foldlM deletePt t.ps
        pure (ps0 ++ [x])
      | .merge => do
        let ps0 ← ml.foldlM deletePt t.ps
        pure (ps0 ++ [⟨x.t, pyJoin "-" (ml.map (·.l) ++ [x.l])⟩])
      | .error => throw .CollisionError
  pure (growSpanP t (sortPts ps1))

/-! ## eraseRegion -/

/-- the time shift used by the shrink step (after the fix in /repo: `start + (x - end)`) -/
def shiftBack (a b x : α) : α := a + (x - b)

/-- the shrink loop of `IntervalTier.eraseRegion` -/
def shrinkIvs (a b : α) (es : List (Iv α)) : List (Iv α) :=
  es.filterMap fun iv =>
    if iv.e ≤ a then some iv
    else if b ≤ iv.s then some ⟨shiftBack a b iv.s, shiftBack a b iv.e, iv.l⟩
    else none

/-- "an interval that spanned the deleted section": first adjacent pair meeting at `a` with equal labels is fused -/
def rejoin (a : α) : List (Iv α) → List (Iv α)
  | x :: y :: rest =>
    if x.e == a && y.s == a && x.l == y.l then ⟨x.s, y.e, x.l⟩ :: rest
    else x :: rejoin a (y :: rest)
  | l => l

/-- the body of `eraseRegion` once the match list is known: delete the matches (in reverse order), re-insert
the remnants of the first and the last match when truncating -/
def eraseCore (nt : ITier α) (ml : List (Iv α)) (a b : α) (mode : EraseMode) : Except Err (ITier α) :=
  match ml.head?, ml.getLast? with
  | some f, some g => do
    if mode = .error then throw .CollisionError
    let es0 ← deleteIvs nt.es ml.reverse
    let nt0 : ITier α := { nt with es := es0 }
    if mode = .truncate then do
      let nt1 ← if f.s < a then nt0.insertEntry ⟨f.s, a, f.l⟩ .error else pure nt0
      let nt2 ← if b < g.e then nt1.insertEntry ⟨b, g.e, g.l⟩ .error else pure nt1
      pure nt2
    else pure nt0
  | _, _ => pure nt

/-- the `doShrink` part of `eraseRegion` -/
def shrinkStep (nt1 : ITier α) (a b : α) : Except Err (ITier α) :=
  nt1.new (es := some (rejoin a (shrinkIvs a b nt1.es))) (hi := some (shiftBack a b nt1.hi))

/-- the region that the shrink step of `eraseRegion(doShrink=True)` cuts out (after the fix in /repo):
`start = max(start, minTimestamp)`, `end = min(end, maxTimestamp)` — only what lies inside the span can be cut out of it -/
def clipLo (doShrink : Bool) (lo a : α) : α := if doShrink then pyMax2 a lo else a
def clipHi (doShrink : Bool) (hi b : α) : α := if doShrink then pyMin2 b hi else b

/-- `IntervalTier.eraseRegion(start, end, collisionMode, doShrink)`: the matched entries are removed / truncated with the
region as given (exactly as without shrinking); only then (when shrinking) the region is clipped to the span, and the
shrink step — shift, re-join, new end — runs with the clipped region if it is not empty (`start < end`) -/
def ITier.eraseRegion (t : ITier α) (a b : α) (mode : EraseMode) (doShrink : Bool) : Except Err (ITier α) := do
  let mt ← t.crop a b .lax false
  let nt ← t.new
  let nt1 ← eraseCore nt mt.es a b mode
  let a' := clipLo doShrink t.lo a
  let b' := clipHi doShrink t.hi b
  if doShrink && decide (a' < b') then shrinkStep nt1 a' b' else pure nt1

/-- `PointTier.eraseRegion`: the points the region covers are deleted with the region as given; only then (when
shrinking) the region is clipped to the span, and the shrink loop runs with the clipped region if it is not empty -/
def PTier.eraseRegion (t : PTier α) (a b : α) (doShrink : Bool) : Except Err (PTier α) := do
  let nt ← t.new
  let ct ← nt.crop a b false
  let ps0 ← ct.ps.reverse.foldlM deletePt nt.ps
  let nt1 : PTier α := { nt with ps := ps0 }
  let a' := clipLo doShrink t.lo a
  let b' := clipHi doShrink t.hi b
  if doShrink && decide (a' < b') then
    let ps := nt1.ps.filterMap fun p =>
      if p.t < a' then some p
      else if b' < p.t then some ⟨shiftBack a' b' p.t, p.l⟩
      else none
    nt1.new (ps := some ps) (hi := some (shiftBack a' b' nt1.hi))
  else pure nt1

/-! ## insertSpace -/

/-- the loop body of `IntervalTier.insertSpace`; `none` = the `error` mode met a straddler -/
def spaceOne (s d : α) (mode : SpaceMode) (iv : Iv α) : Option (List (Iv α)) :=
  if iv.e ≤ s then some [iv]
  else if s ≤ iv.s then some [⟨iv.s + d, iv.e + d, iv.l⟩]
  else match mode with
    | .stretch => some [⟨iv.s, iv.e + d, iv.l⟩]
    | .split =>
      -- the right-hand remainder is kept unless it rounds to nothing (repair in /repo; never the case in exact arithmetic)
      if s + d < iv.e + d then some [⟨iv.s, s, iv.l⟩, ⟨s + d, iv.e + d, iv.l⟩] else some [⟨iv.s, s, iv.l⟩]
    | .noChange => some [iv]
    | .error => none

def spaceAll (s d : α) (mode : SpaceMode) : List (Iv α) → Option (List (Iv α))
  | [] => some []
  | iv :: rest => do
    let x ← spaceOne s d mode iv
    let xs ← spaceAll s d mode rest
    pure (x ++ xs)

/-- `IntervalTier.insertSpace(start, duration, collisionMode)` -/
def ITier.insertSpace (t : ITier α) (s d : α) (mode : SpaceMode) : Except Err (ITier α) :=
  match spaceAll s d mode t.es with
  | none => .error .ArgumentError
  | some es => t.new (es := some es) (hi := some (t.hi + d))

/-- `PointTier.insertSpace` -/
def PTier.insertSpace (t : PTier α) (s d : α) : Except Err (PTier α) :=
  let ps := t.ps.map fun p => if p.t ≤ s then p else ⟨p.t + d, p.l⟩
  t.new (ps := some ps) (hi := some (t.hi + d))

/-! ## editTimestamps, appendTier -/

/-- one iteration of `IntervalTier.editTimestamps`: (out of the old span?, surviving entry) -/
def shiftClip (o lo hi : α) (iv : Iv α) : Bool × Option (Iv α) :=
  let s' := o + iv.s
  let e' := o + iv.e
  let oob := decide (s' < lo) || decide (hi < e')
  (oob, if e' ≤ Tm.zero then none else some ⟨if s' < Tm.zero then Tm.zero else s', e', iv.l⟩)

/-- `IntervalTier.editTimestamps(offset, reportingMode)` -/
def ITier.editTimestamps (t : ITier α) (o : α) (rep : Report) : Except Err (ITier α) :=
  let rs := t.es.map (shiftClip o t.lo t.hi)
  if rep = .error ∧ rs.any (·.1) then .error .OutOfBounds
  else
    let es := rs.filterMap (·.2)
    let lo := (es.map (·.s)).foldl pyMin2 t.lo
    let hi := (es.map (·.e)).foldl pyMax2 t.hi
    mkITier t.name es (some lo) (some hi)

/-- `PointTier.editTimestamps` -/
def PTier.editTimestamps (t : PTier α) (o : α) (rep : Report) : Except Err (PTier α) :=
  let ts := t.ps.map fun p => (p.t + o, p.l)
  if rep = .error ∧ ts.any (fun x => decide (x.1 < t.lo) || decide (t.hi < x.1)) then .error .OutOfBounds
  else
    let ps : List (Pt α) := ts.filterMap fun x => if x.1 < Tm.zero then none else some ⟨x.1, x.2⟩
    let lo := (ps.map (·.t)).foldl pyMin2 t.lo
    let hi := (ps.map (·.t)).foldl pyMax2 t.hi
    mkPTier t.name ps (some lo) (some hi)

/-- `TextgridTier.appendTier` (same tier types) -/
def ITier.appendTier (t u : ITier α) : Except Err (ITier α) := do
  let u' ← u.editTimestamps t.hi .silence
  t.new (es := some (sortIvs (t.es ++ u'.es))) (lo := some t.lo) (hi := some (t.hi + u.hi))

def PTier.appendTier (t u : PTier α) : Except Err (PTier α) := do
  let u' ← u.editTimestamps t.hi .silence
  t.new (ps := some (sortPts (t.ps ++ u'.ps))) (lo := some t.lo) (hi := some (t.hi + u.hi))

/-! ## set operations -/

/-- `TextgridTier.union` for interval tiers -/
def ITier.union (t u : ITier α) : Except Err (ITier α) := do
  let nt ← t.new
  let r ← u.es.foldlM (fun acc e => acc.insertEntry e .merge) nt
  pure { r with es := sortIvs r.es }

def PTier.union (t u : PTier α) : Except Err (PTier α) := do
  let nt ← t.new
  let r ← u.ps.foldlM (fun acc e => acc.insertEntry e .merge) nt
  pure { r with ps := sortPts r.ps }

/-- `IntervalTier.difference` -/
def ITier.difference (t u : ITier α) : Except Err (ITier α) := do
  let nt ← t.new
  u.es.foldlM (fun acc e => acc.eraseRegion e.s e.e .truncate false) nt

/-- `IntervalTier.intersection` -/
def ITier.intersection (t u : ITier α) : Except Err (ITier α) := do
  let parts ← u.es.mapM fun iv => do
    let sub ← t.crop iv.s iv.e .truncated false
    pure (sub.es.map fun si => (⟨si.s, si.e, si.l ++ "-" ++ iv.l⟩ : Iv α))
  t.new (name := some (t.name ++ "-" ++ u.name)) (es := some parts.flatten)

/-- one iteration of the loop of `IntervalTier.mergeLabels` -/
def mergeLabelsOne (u : ITier α) (iv : Iv α) : Except Err (List (Iv α)) := do
  let sub ← u.crop iv.s iv.e .truncated false
  match sub.es.head?, sub.es.getLast? with
  | some f, some g =>
    let lab := iv.l ++ "(" ++ pyJoin "," (sub.es.map (·.l)) ++ ")"
    pure [(⟨pyMin2 iv.s f.s, pyMax2 iv.e g.e, lab⟩ : Iv α)]
  | _, _ => pure []

/-- `IntervalTier.mergeLabels` -/
def ITier.mergeLabels (t u : ITier α) : Except Err (ITier α) := do
  let parts ← t.es.mapM (mergeLabelsOne u)
  t.new (name := some (t.name ++ "-" ++ u.name)) (es := some parts.flatten)

/-! ## dejitter, morph -/

/-- sorted, duplicate-free boundary times (`tier.timestamps`) -/
def dedupSorted : List α → List α
  | x :: y :: rest => if x == y then dedupSorted (y :: rest) else x :: dedupSorted (y :: rest)
  | l => l

def sortTimes (ts : List α) : List α := ts.mergeSort (fun a b => !decide (b < a))

def ITier.timestamps (t : ITier α) : List α :=
  dedupSorted (sortTimes (t.es.flatMap fun iv => [iv.s, iv.e]))
def PTier.timestamps (t : PTier α) : List α :=
  dedupSorted (sortTimes (t.ps.map (·.t)))

/-- `min(referenceTimestamps, key=lambda x: abs(x - time))`: the first minimiser -/
def nearest (refs : List α) (x : α) : Option α :=
  match refs with
  | [] => none
  | r :: rest => some (rest.foldl (fun best c => if tabs (c - x) < tabs (best - x) then c else best) r)

/-- `my_math.lessThanOrEqual` -/
def leq14 (a b : α) : Bool := Tm.close14 a b || decide (a < b)

def snap (refs : List α) (maxDiff : α) (x : α) : Except Err α :=
  match nearest refs x with
  | none => .error .ValueError
  | some r => .ok (if leq14 (tabs (x - r)) maxDiff then r else x)

/-- `IntervalTier.dejitter(referenceTier, maxDifference)` (reference given by its timestamps) -/
def ITier.dejitter (t : ITier α) (refs : List α) (maxDiff : α) : Except Err (ITier α) := do
  if refs.isEmpty then throw .ArgumentError
  let es ← t.es.mapM fun iv => do
    let s ← snap refs maxDiff iv.s
    let e ← snap refs maxDiff iv.e
    pure (⟨s, e, iv.l⟩ : Iv α)
  t.new (es := some es)

def PTier.dejitter (t : PTier α) (refs : List α) (maxDiff : α) : Except Err (PTier α) := do
  if refs.isEmpty then throw .ArgumentError
  let ps ← t.ps.mapM fun p => do
    let x ← snap refs maxDiff p.t
    pure (⟨x, p.l⟩ : Pt α)
  t.new (ps := some ps)

/-- the loop of `IntervalTier.morph` (after the fix in /repo: every interval starts where the previous one
ended plus the original gap); `sel l` says whether the filter selects label `l`;
`prev` = (end of the previous source interval, end of the previous new interval) -/
def morphGo (sel : String → Bool) (prev : Option (α × α)) : List (Iv α) → List (Iv α) → List (Iv α)
  | src :: ss, tgt :: ts =>
    let ns := match prev with
      | none => src.s
      | some (lastSrcEnd, lastNewEnd) => lastNewEnd + (src.s - lastSrcEnd)
    let dur := if sel src.l then tgt.e - tgt.s else src.e - src.s
    let ne := ns + dur
    ⟨ns, ne, src.l⟩ :: morphGo sel (some (src.e, ne)) ss ts
  | _, _ => []

/-- `IntervalTier.morph(targetTier, filterFunc)` -/
def ITier.morph (t u : ITier α) (sel : String → Bool) : Except Err (ITier α) :=
  if t.es.isEmpty && u.es.isEmpty then t.new
  else if t.es.length ≠ u.es.length then .error .SafeZipException
  else
    let es := morphGo sel none t.es u.es
    match es.getLast?, t.es.getLast? with
    | some ne, some oe => mkITier t.name es (some t.lo) (some (ne.e + (t.hi - oe.e)))
    | _, _ => .error .IndexError

/-! ## queries -/

/-- `TextgridTier.find(label, substrMatchFlag)` (non-regex) -/
def findLabels (ls : List String) (q : String) (substr : Bool) : List Nat :=
  (ls.zipIdx).filterMap fun (l, i) =>
    if substr then (if (l.splitOn q).length > 1 || q.isEmpty then some i else none)
    else (if l == q then some i else none)

/-- `IntervalTier.getNonEntries` -/
def ITier.getNonEntries (t : ITier α) : Except Err (List (Iv α)) :=
  match t.es.head?, t.es.getLast? with
  | some f, some g =>
    let gaps := (t.es.zip t.es.tail).filterMap fun (x, y) =>
      if x.e < y.s then some (⟨x.e, y.s, ""⟩ : Iv α) else none
    let pre := if Tm.zero < f.s then [(⟨Tm.zero, f.s, ""⟩ : Iv α)] else []
    let post := if g.e < t.hi then [(⟨g.e, t.hi, ""⟩ : Iv α)] else []
    .ok (pre ++ gaps ++ post)
  | _, _ => .error .IndexError

end
