import PraatModel.Textgrid
import PraatModel.Quote

/-!
# The save path of textgrid_io.py: `_prepTgForSaving`, `_fillInBlanks`, `_removeUltrashortIntervals`, the text emitters

Decimal rendering (`repr`, `"%d"`) is a parameter `num : α → String` of the emitters (DESIGN §2.2, `NumCodec`).
-/

section
variable {α : Type} [LT α] [LE α] [DecidableLT α] [DecidableLE α] [BEq α] [Add α] [Sub α] [Tm α]

/-- the body of the `for entry in entries[1:]` loop of `_fillInBlanks` -/
def fillGaps (prevEnd : α) : List (Iv α) → List (Iv α)
  | [] => []
  | e :: rest => (if prevEnd < e.s then [⟨prevEnd, e.s, ""⟩] else []) ++ e :: fillGaps e.e rest

/-- "if there is a gap at the start of the file": a leading blank up to the first entry -/
def withHead (minT : α) (first : Iv α) (ne : List (Iv α)) : List (Iv α) :=
  if minT < first.s then ⟨minT, first.s, ""⟩ :: ne else ne

/-- "if there is a gap at the end of the file": a trailing blank after the last entry -/
def withTail (maxT : α) (lst : Iv α) (ne : List (Iv α)) : List (Iv α) :=
  if lst.e < maxT then ne ++ [⟨lst.e, maxT, ""⟩] else ne

/-- `_fillInBlanks(tier, "", minTime, maxTime)` on the (sorted) entry list -/
def fillInBlanks (es : List (Iv α)) (minT maxT : α) : Except Err (List (Iv α)) :=
  -- "A span of length zero holds no interval": an empty tier stays empty unless `minTime < maxTime`
  if es.isEmpty && !decide (minT < maxT) then .ok [] else
  let es0 := if es.isEmpty then [⟨minT, maxT, ""⟩] else es
  match es0 with
  | [] => .error .IndexError
  | first :: rest =>
    if first.s < minT then .error .ParsingError
    else
      let ne1 := withHead minT first (first :: fillGaps first.e rest)
      match ne1.getLast? with
      | none => .error .IndexError
      | some lst =>
        if maxT < lst.e then .error .ParsingError
        else .ok (sortIvs (withTail maxT lst ne1))

/-- first loop of `_removeUltrashortIntervals`; the accumulator is kept reversed -/
def absorbShort (minLen minT : α) : List (Iv α) → List (Iv α) → List (Iv α)
  | acc, [] => acc.reverse
  | acc, e :: rest =>
    if e.e - e.s < minLen then
      match acc with
      | last :: before => absorbShort minLen minT (⟨last.s, e.e, last.l⟩ :: before) rest
      | [] => absorbShort minLen minT [] rest
    else
      match acc with
      | [] => absorbShort minLen minT [if !(e.s == minT) then ⟨minT, e.e, e.l⟩ else e] rest
      | _ => absorbShort minLen minT (e :: acc) rest

/-- second loop: link neighbours separated by less than `minLen` -/
def stitch (minLen : α) : List (Iv α) → List (Iv α)
  | a :: b :: rest =>
    let diff := tabs (a.e - b.s)
    (if Tm.zero < diff ∧ diff < minLen then ⟨a.s, b.s, a.l⟩ else a) :: stitch minLen (b :: rest)
  | l => l

/-- `_removeUltrashortIntervals(tier, minLength, minTimestamp)` -/
def removeUltrashort (es : List (Iv α)) (minLen minT : α) : List (Iv α) :=
  let ne := stitch minLen (absorbShort minLen minT [] es)
  -- "Every interval was ultra-short": one blank from `minTimestamp` to the end of the last entry
  if ne.isEmpty then
    match es.getLast? with
    | some lst => [⟨minT, lst.e, ""⟩]
    | none => []
  else ne

def AnyTier.outside (t : AnyTier α) (minT maxT : Option α) : Bool :=
  let chk (s e : α) : Bool :=
    (match minT with | some m => decide (s < m) | none => false) ||
    (match maxT with | some m => decide (m < e) | none => false)
  match t with
  | .I t => t.es.any fun iv => chk iv.s iv.e
  | .P t => t.ps.any fun p => chk p.t p.t

/-- `_prepTgForSaving(tg, includeBlankSpaces, minTimestamp, maxTimestamp, minimumIntervalLength)`
(after the fixes in /repo: no entry may lie outside the requested span; an override is also the span of every tier; a
span that runs backwards is rejected) -/
def prepTg (g : Tg α) (blanks : Bool) (minOv maxOv : Option α) (minLen : Option α) : Except Err (Tg α) := do
  let ovr (ov : Option α) (own : α) : α := match ov with | some m => m | none => own
  let sorted : List (AnyTier α) := g.tiers.map fun
    | .I t => .I { t with es := sortIvs t.es, lo := ovr minOv t.lo, hi := ovr maxOv t.hi }
    | .P t => .P { t with ps := sortPts t.ps, lo := ovr minOv t.lo, hi := ovr maxOv t.hi }
  let minT := match minOv with | some m => some m | none => g.lo
  let maxT := match maxOv with | some m => some m | none => g.hi
  if (match minT, maxT with | some a, some b => decide (b < a) | _, _ => false) then throw .ParsingError
  if sorted.any (fun t => t.outside minT maxT) then throw .ParsingError
  let tiers ← sorted.mapM fun
    | .P t => pure (AnyTier.P t)
    | .I t =>
      if blanks then
        match minT, maxT with
        | some lo, some hi => do
          let filled ← fillInBlanks t.es lo hi
          let es := match minLen with
            | some ml => removeUltrashort filled ml lo
            | none => filled
          pure (AnyTier.I { t with es := sortIvs es })
        | _, _ => throw .ValueError
      else pure (AnyTier.I t)
  pure ⟨tiers, minT, maxT⟩

/-- `my_math.numToStr`: the integer form when the value is within 1e-14 (relative) of `int(value)`, else `repr`.
`trunc`, `reprOf` and `intOf` are CPython's `int()`, `repr()` and `"%d" %` (parameters, see DESIGN §2.2). -/
def numToStr (trunc : α → α) (reprOf intOf : α → String) (x : α) : String :=
  if Tm.close14 x (trunc x) then intOf x else reprOf x

/-- `utils.escapeQuotes`: `text.replace('"', '""')`, as the structurally recursive `escapeL` of Quote.lean (the
library's `String.replace "\"" "\"\""` computes the same string — `#guard`s below, and the emitted text is compared with
CPython byte for byte on every run; the list form is what the whole-file theorems of Props/C01Full.lean reason about) -/
def escapeQuotes (s : String) : String := String.ofList (escapeL s.toList)

#guard ["", "\"", "a\"b", "\"\"", "x\"\"\"y\"", "\"IntervalTier\"", "no quote\nline"].all fun s =>
  escapeQuotes s == s.replace "\"" "\"\""

/-- `_tgToShortTextForm` -/
def tgToShort (num : α → String) (g : Tg α) (lo hi : α) : String :=
  let hdr := "File type = \"ooTextFile\"\nObject class = \"TextGrid\"\n\n" ++ num lo ++ "\n" ++ num hi ++ "\n<exists>\n" ++
    toString g.tiers.length ++ "\n"
  g.tiers.foldl (fun out t =>
    match t with
    | .I t =>
      out ++ "\"IntervalTier\"\n\"" ++ escapeQuotes t.name ++ "\"\n" ++ num t.lo ++ "\n" ++ num t.hi ++ "\n" ++ toString t.es.length ++ "\n" ++
        t.es.foldl (fun o e => o ++ num e.s ++ "\n" ++ num e.e ++ "\n\"" ++ escapeQuotes e.l ++ "\"\n") ""
    | .P t =>
      out ++ "\"TextTier\"\n\"" ++ escapeQuotes t.name ++ "\"\n" ++ num t.lo ++ "\n" ++ num t.hi ++ "\n" ++ toString t.ps.length ++ "\n" ++
        t.ps.foldl (fun o p => o ++ num p.t ++ "\n\"" ++ escapeQuotes p.l ++ "\"\n") "") hdr

/-- `_tgToLongTextForm` -/
def tgToLong (num : α → String) (g : Tg α) (lo hi : α) : String :=
  let tab := "    "
  let hdr := "File type = \"ooTextFile\"\nObject class = \"TextGrid\"\n\n" ++ "xmin = " ++ num lo ++ " \n" ++ "xmax = " ++ num hi ++ " \n" ++
    "tiers? <exists> \n" ++ "size = " ++ toString g.tiers.length ++ " \n" ++ "item []: \n"
  (g.tiers.zipIdx.foldl (fun out (t, i) =>
    let common (cls name : String) (tlo thi : α) :=
      tab ++ "item [" ++ toString (i + 1) ++ "]:\n" ++ tab ++ tab ++ "class = \"" ++ cls ++ "\" \n" ++
      tab ++ tab ++ "name = \"" ++ escapeQuotes name ++ "\" \n" ++ tab ++ tab ++ "xmin = " ++ num tlo ++ " \n" ++
      tab ++ tab ++ "xmax = " ++ num thi ++ " \n"
    match t with
    | .I t =>
      out ++ common "IntervalTier" t.name t.lo t.hi ++ tab ++ tab ++ "intervals: size = " ++ toString t.es.length ++ " \n" ++
        (t.es.zipIdx.foldl (fun o (e, j) =>
          o ++ tab ++ tab ++ "intervals [" ++ toString (j + 1) ++ "]:\n" ++ tab ++ tab ++ tab ++ "xmin = " ++ num e.s ++ " \n" ++
          tab ++ tab ++ tab ++ "xmax = " ++ num e.e ++ " \n" ++ tab ++ tab ++ tab ++ "text = \"" ++ escapeQuotes e.l ++ "\" \n") "")
    | .P t =>
      out ++ common "TextTier" t.name t.lo t.hi ++ tab ++ tab ++ "points: size = " ++ toString t.ps.length ++ " \n" ++
        (t.ps.zipIdx.foldl (fun o (p, j) =>
          o ++ tab ++ tab ++ "points [" ++ toString (j + 1) ++ "]:\n" ++ tab ++ tab ++ tab ++ "number = " ++ num p.t ++ " \n" ++
          tab ++ tab ++ tab ++ "mark = \"" ++ escapeQuotes p.l ++ "\" \n") "")) hdr)

end
