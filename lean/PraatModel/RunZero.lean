import PraatModel.Proto
import PraatModel.RunAudio
import PraatModel.Zero

/-! # driver operations for C18: zero-crossing search and splicing (extension point of `Run.lean`)

Token syntax of this group (on top of `Proto.lean` and `RunAudio.lean`):
* ticks     : decimal integers — times of the search in units of `1/(rate·m)` s (see `Zero.lean`)
* zc value  : `V <time>` or `E <ClassName>` — what `findNearestZeroCrossing` returned / raised
-/

namespace ZeroProto
open Audio AudioProto Zero

def optNat : Option Nat → String
  | none => "N"
  | some i => toString i

def outExcT (f : Int → String) : Except Err Int → String
  | .ok v => "ok " ++ f v
  | .error e => "err " ++ e.name

def errOfName : String → Err
  | "ArgumentError" => .ArgumentError
  | "FindZeroCrossingError" => .FindZeroCrossingError
  | "CollisionError" => .CollisionError
  | "TextgridStateError" => .TextgridStateError
  | "error" => .StructError
  | "KeyError" => .KeyError
  | "IndexError" => .IndexError
  | _ => .ValueError

/-- `V <time>` | `E <ClassName>` -/
def zcVal {α} [Proto α] : P (Except Err α) := do
  match (← P.tok) with
  | "V" => do let x ← P.time (α := α); pure (.ok x)
  | "E" => do let n ← P.tok; pure (.error (errOfName n))
  | t => throw s!"bad zc value {t}"

/-- the table `time ↦ findNearestZeroCrossing(time)` shipped by the harness, looked up by `==` -/
def lookup {α} [BEq α] (tbl : List (α × Except Err α)) (x : α) : Except Err α :=
  match tbl.find? (fun p => p.1 == x) with
  | some p => p.2
  | none => .error .KeyError
end ZeroProto

open Audio AudioProto Zero ZeroProto in
/-- `none` = not an operation of this group.  `α` is the number type of the run (`Float` or `Int`). -/
def runOpZero (α : Type) [LT α] [LE α] [DecidableLT α] [DecidableLE α] [BEq α] [Add α] [Sub α] [Tm α] [Proto α]
    (op : String) : Option (P String) :=
  match op with
  | "z_next" => some do
    let rev ← P.bool; let xs ← samples
    pure s!"ok {optNat (nearestZero xs rev)} {optNat (thresholdCrossing xs rev)} {optNat (nextIdx xs rev)}"
  | "z_sign" => some do
    let x ← P.int
    pure s!"ok {sign x}"
  | "z_interval" => some do
    let s ← P.int; let d ← P.int; let mx ← P.int; let rev ← P.bool
    let w := getInterval s d mx rev
    pure s!"ok {w.1} {w.2}"
  | "z_choose" => some do
    let t ← P.int; let a ← P.opt P.int; let b ← P.opt P.int
    pure (outExcT toString (chooseClosestTime t a b))
  | "z_find" => some do
    let wv ← wav; let m ← P.nat; let t ← P.int; let s ← P.int
    if m = 0 then throw "m = 0"
    pure (outExcT toString (searchWav wv m t s))
  | "z_shift" => some do
    let g ← P.tg (α := α); let v ← P.time; let nv ← P.time
    pure (Out.exc Out.tg (shiftTimes g v nv))
  | "z_tgzc" => some do
    let g ← P.tg (α := α); let ap ← P.bool; let ai ← P.bool
    let k ← P.nat
    let tbl ← P.many k (do let t ← P.time (α := α); let v ← zcVal (α := α); pure (t, v))
    pure (Out.exc Out.tg (tgBoundaries (lookup tbl) g ap ai))
  | "z_splice" => some do
    let g ← P.tg (α := α)
    let k ← P.nat
    let shifts ← P.many k (do let o ← P.time (α := α); let n ← P.time (α := α); pure (o, n))
    let name ← P.str; let label ← P.str
    let a ← P.time (α := α); let b ← P.opt (P.time (α := α)); let d ← P.time (α := α)
    let same ← P.bool; let a0 ← P.time (α := α); let b0 ← P.opt (P.time (α := α))
    let au ← P.opt (do
      let wv ← wav; let seg ← bytes; let qa ← qtime; let qb ← P.opt qtime
      pure (spliceWav wv seg qa qb))
    match audioSpliceTg g same a0 b0 shifts name label a b d with
    | .error e => pure s!"err {e.name}"
    | .ok g' =>
      match au with
      | none => pure s!"ok {Out.tg g'} N"
      | some (.ok w) => pure s!"ok {Out.tg g'} {outBytes w.frames}"
      | some (.error e) => pure s!"err {e.name}"
  | _ => none
