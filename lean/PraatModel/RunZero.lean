import PraatModel.Proto

/-! # driver operations for C18: zero-crossing search and splicing (extension point of `Run.lean`) -/

/-- `none` = not an operation of this group.  `α` is the number type of the run (`Float` or `Int`). -/
def runOpZero (α : Type) [LT α] [LE α] [DecidableLT α] [DecidableLE α] [BEq α] [Add α] [Sub α] [Tm α] [Proto α]
    (op : String) : Option (P String) :=
  match op with
  | _ => none
