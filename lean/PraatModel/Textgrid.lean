import PraatModel.Ops

/-!
# Textgrid: an ordered, uniquely-named tier map (data_classes/textgrid.py)

The `OrderedDict` is modelled as the list of its values in order; names are the tiers' own names
(`addTier` stores a tier under `tier.name`).
-/

inductive AnyTier (α : Type)
  | I (t : ITier α)
  | P (t : PTier α)
deriving Repr

section
variable {α : Type} [LT α] [LE α] [DecidableLT α] [DecidableLE α] [BEq α] [Add α] [Sub α] [Tm α]

namespace AnyTier
def name : AnyTier α → String
  | .I t => t.name | .P t => t.name
def lo : AnyTier α → α
  | .I t => t.lo | .P t => t.lo
def hi : AnyTier α → α
  | .I t => t.hi | .P t => t.hi
def isInterval : AnyTier α → Bool
  | .I _ => true | .P _ => false
def isEmpty : AnyTier α → Bool
  | .I t => t.es.isEmpty | .P t => t.ps.isEmpty
def crop (t : AnyTier α) (a b : α) (m : CropMode) (r : Bool) : Except Err (AnyTier α) :=
  match t with
  | .I t => .I <$> t.crop a b m r
  | .P t => .P <$> t.crop a b r
def eraseRegion (t : AnyTier α) (a b : α) (m : EraseMode) (sh : Bool) : Except Err (AnyTier α) :=
  match t with
  | .I t => .I <$> t.eraseRegion a b m sh
  | .P t => .P <$> t.eraseRegion a b sh
def insertSpace (t : AnyTier α) (s d : α) (m : SpaceMode) : Except Err (AnyTier α) :=
  match t with
  | .I t => .I <$> t.insertSpace s d m
  | .P t => .P <$> t.insertSpace s d
def editTimestamps (t : AnyTier α) (o : α) (r : Report) : Except Err (AnyTier α) :=
  match t with
  | .I t => .I <$> t.editTimestamps o r
  | .P t => .P <$> t.editTimestamps o r
def validate : AnyTier α → Bool
  | .I t => t.validate | .P t => t.validate
def timestamps : AnyTier α → List α
  | .I t => t.timestamps | .P t => t.timestamps
def dejitter (t : AnyTier α) (refs : List α) (md : α) : Except Err (AnyTier α) :=
  match t with
  | .I t => .I <$> t.dejitter refs md
  | .P t => .P <$> t.dejitter refs md
/-- `tier.new(name?, entries=same, minTimestamp?, maxTimestamp?)` -/
def renew (t : AnyTier α) (name : Option String := none) (lo hi : Option α := none) : Except Err (AnyTier α) :=
  match t with
  | .I t => .I <$> t.new (name := name) (lo := lo) (hi := hi)
  | .P t => .P <$> t.new (name := name) (lo := lo) (hi := hi)
end AnyTier

structure Tg (α : Type) where
  tiers : List (AnyTier α)
  lo : Option α
  hi : Option α
deriving Repr

namespace Tg
def names (g : Tg α) : List String := g.tiers.map (·.name)

def getTier (g : Tg α) (n : String) : Except Err (AnyTier α) :=
  match g.tiers.find? (·.name == n) with
  | some t => .ok t
  | none => .error .KeyError

/-- `Textgrid.addTier(tier, tierIndex, reportingMode)` (after the fix in /repo: span changes are
reported before anything is modified) -/
def addTier (g : Tg α) (t : AnyTier α) (idx : Option Int) (rep : Report) : Except Err (Tg α) :=
  if g.names.contains t.name then .error .TierNameExistsError
  else
    let loChanges := match g.lo with | some l => decide (t.lo < l) | none => false
    let hiChanges := match g.hi with | some h => decide (h < t.hi) | none => false
    if rep = .error ∧ (loChanges || hiChanges) = true then .error .TextgridStateAutoModified
    else
      let tiers := match idx with
        | none => g.tiers ++ [t]
        | some i => pyListInsert g.tiers i t
      let lo := match g.lo with | some l => if t.lo < l then t.lo else l | none => t.lo
      let hi := match g.hi with | some h => if h < t.hi then t.hi else h | none => t.hi
      .ok ⟨tiers, some lo, some hi⟩

/-- `Textgrid.removeTier(name)` -/
def removeTier (g : Tg α) (n : String) : Except Err (Tg α) :=
  if g.names.contains n then .ok { g with tiers := g.tiers.filter (·.name != n) }
  else .error .KeyError

def indexOf (g : Tg α) (n : String) : Option Nat := g.names.findIdx? (· == n)

/-- `Textgrid.renameTier(oldName, newName)` (after the fix: the clash is detected first) -/
def renameTier (g : Tg α) (old new : String) : Except Err (Tg α) := do
  let t ← g.getTier old
  let i := (g.indexOf old).getD 0
  if new != old && g.names.contains new then throw .TierNameExistsError
  let g1 ← g.removeTier old
  let t' ← t.renew (name := some new)
  g1.addTier t' (some i) .warning

/-- `Textgrid.replaceTier(name, newTier, reportingMode)` (after the fix: a failing add restores the old tier) -/
def replaceTier (g : Tg α) (n : String) (t : AnyTier α) (rep : Report) : Except Err (Tg α) :=
  match g.indexOf n with
  | none => .error .ValueError
  | some i => do
    let g1 ← g.removeTier n
    g1.addTier t (some i) rep

def ofSpan (lo hi : Option α) : Tg α := ⟨[], lo, hi⟩

/-- `Textgrid.crop` -/
def crop (g : Tg α) (a b : α) (m : CropMode) (r : Bool) : Except Err (Tg α) :=
  if b ≤ a then .error .ArgumentError else
  let g0 : Tg α := if r then ofSpan (some Tm.zero) (some (b - a)) else ofSpan (some a) (some b)
  g.tiers.foldlM (fun acc t => do
    let t' ← t.crop a b m r
    acc.addTier t' none (if m = .lax then .silence else .warning)) g0

/-- the new `maxTimestamp` of `Textgrid.eraseRegion` (after the fix in /repo): computed from the region clipped to the
textgrid's span, exactly as the tiers compute theirs; unchanged when not shrinking, when the textgrid has no end, or when
the clipped region is empty.  (A textgrid with an end but no start does not occur: the class would raise TypeError in `max`;
the model leaves the start of the region unclipped there.) -/
def eraseHi (lo hi : Option α) (a b : α) (sh : Bool) : Option α :=
  match hi with
  | none => none
  | some h =>
    if sh then
      let ca := match lo with | some l => pyMax2 a l | none => a
      let cb := pyMin2 b h
      if ca < cb then some (shiftBack ca cb h) else some h
    else some h

/-- `Textgrid.eraseRegion(start, end, doShrink)`: the tiers are called with the region as given (they clip it to their own
spans) -/
def eraseRegion (g : Tg α) (a b : α) (sh : Bool) : Except Err (Tg α) :=
  if b ≤ a then .error .ArgumentError else do
  let g1 ← g.tiers.foldlM (fun acc t => do
    let t' ← t.eraseRegion a b .truncate sh
    acc.addTier t' none .warning) (ofSpan g.lo g.hi)
  pure { g1 with hi := eraseHi g.lo g.hi a b sh }

/-- `Textgrid.insertSpace(start, duration, collisionMode)` -/
def insertSpace (g : Tg α) (s d : α) (m : SpaceMode) : Except Err (Tg α) :=
  g.tiers.foldlM (fun acc t => do
    let t' ← t.insertSpace s d m
    acc.addTier t' none .warning) (ofSpan g.lo (g.hi.map (· + d)))

/-- `Textgrid.editTimestamps(offset, reportingMode)` -/
def editTimestamps (g : Tg α) (o : α) (rep : Report) : Except Err (Tg α) :=
  g.tiers.foldlM (fun acc t => do
    let t' ← if t.isEmpty then pure t else t.editTimestamps o rep
    acc.addTier t' none rep) (ofSpan g.lo g.hi)

/-- `Textgrid.validate('silence')` — note the short-circuit `isValid and tier.validate(...)` -/
def validate (g : Tg α) : Bool :=
  let namesOk := decide (g.names.eraseDups.length = g.names.length)
  g.tiers.foldl (fun ok t =>
    let ok1 := ok && (match g.lo with | some l => l == t.lo | none => false)
    let ok2 := ok1 && (match g.hi with | some h => h == t.hi | none => false)
    ok2 && t.validate) namesOk

/-- `Textgrid.mergeTiers(tierNames, preserveOtherTiers)` -/
def mergeTiers (g : Tg α) (sel : Option (List String)) (preserve : Bool) : Except Err (Tg α) := do
  let selNames := sel.getD g.names
  let selTiers ← selNames.mapM g.getTier
  let its := selTiers.filterMap fun | .I t => some t | .P _ => none
  let pts := selTiers.filterMap fun | .P t => some t | .I _ => none
  let it ← match its with
    | [] => pure none
    | f :: rest => some <$> rest.foldlM (fun acc t => acc.union t) f
  let pt ← match pts with
    | [] => pure none
    | f :: rest => some <$> rest.foldlM (fun acc t => acc.union t) f
  let g0 := ofSpan g.lo g.hi
  let g1 ← if preserve then
      (g.tiers.filter fun t => !selNames.contains t.name).foldlM (fun acc t => acc.addTier t none .warning) g0
    else pure g0
  let g2 ← match it with | some t => g1.addTier (.I t) none .warning | none => pure g1
  match pt with | some t => g2.addTier (.P t) none .warning | none => pure g2

/-- concatenating the entry tuples of two same-class tiers, as `appendTextgrid` does through `tier.new(entries=…)` -/
def catTier (t u : AnyTier α) (lo hi : Option α) : Except Err (AnyTier α) :=
  match t, u with
  | .I t, .I u => .I <$> t.new (es := some (t.es ++ u.es)) (lo := lo) (hi := hi)
  | .P t, .P u => .P <$> t.new (ps := some (t.ps ++ u.ps)) (lo := lo) (hi := hi)
  | _, _ => .error .ValueError   -- Interval and Point tuples of different arity: not modelled (generators keep classes aligned)

/-- `Textgrid.appendTextgrid(tg, onlyMatchingNames)` (both textgrids have a span) -/
def appendTextgrid (g h : Tg α) (onlyMatching : Bool) : Except Err (Tg α) :=
  match g.hi, h.hi with
  | some ghi, some hhi => do
    let minT := g.lo
    let maxT := ghi + hhi
    let combined := g.names ++ h.names.filter (fun n => !g.names.contains n)
    let final := if onlyMatching then combined.filter (fun n => g.names.contains n && h.names.contains n) else combined
    let r0 : Tg α := ofSpan minT (some maxT)
    let r1 ← (final.filter g.names.contains).foldlM (fun acc n => do
      let t ← g.getTier n
      acc.addTier t none .warning) r0
    (final.filter h.names.contains).foldlM (fun acc n => do
      let t ← h.getTier n
      let t1 ← t.renew (lo := minT) (hi := some maxT)
      let t2 ← t1.editTimestamps ghi .warning
      if acc.names.contains n then do
        let cur ← acc.getTier n
        let nt ← catTier cur t2 minT (some maxT)
        acc.replaceTier n nt .warning
      else do
        let nt ← t2.renew (lo := minT) (hi := some maxT)
        acc.addTier nt none .warning) r1
  | _, _ => .error .ValueError

/-- `praatio_scripts.alignBoundariesAcrossTiers(tg, tierName, maxDifference)` -/
def alignBoundaries (g : Tg α) (ref : String) (md : α) : Except Err (Tg α) := do
  let rt ← g.getTier ref
  let times := rt.timestamps
  -- the guard zips times[1:] with times[2:] (the first gap is not examined), modelled as written
  let tl := times.drop 1
  if (tl.zip (tl.drop 1)).any (fun (x, y) => decide (y - x < md)) then throw .ArgumentError
  g.tiers.foldlM (fun acc t =>
    if t.name == ref then pure acc
    else do
      let t' ← t.dejitter times md
      acc.replaceTier t'.name t' .warning) g

end Tg
end
